#!/usr/bin/env python3
"""Writes MANIFEST.json from the table below and validates it (python3-vt has jsonschema).

A property is listed under `checks` only once its check exists and is quiet on the unchanged
tree; everything else is listed under `not_applicable` with the reason "not built yet" or the
genuine reason the technique cannot apply.
"""
import json
import subprocess
import sys
from pathlib import Path

HERE = Path(__file__).resolve().parent
PROPS = [json.loads(l) for l in (HERE / "properties.jsonl").read_text().splitlines() if l.strip()]

LEVEL_NOTE_COMMON = (
    "Trusted: Lean 4.33 kernel (axioms audited per theorem: subset of propext, Classical.choice, Quot.sound; no "
    "native_decide/bv_decide/sorry); the hand-written model is tied to /repo by the behavioural correspondence run by "
    "this check (generators, canonicalisation, diff trusted); "
)

CHECKS = {
    "C18": dict(
        text="Theorems over inventories of any length (lru_order, deleted_is_prefix, limits_hold_after, minimal, "
        "none_means_no_limit, satisfied_evicts_nothing) about the Lean model of _get_items_to_delete; the model is "
        "compared with the real Memory.reduce_size on on-disk inventories every run, and a tie-tolerant oracle judges "
        "the implementation directly.",
        note="modelled not verified: directory inventory (os.walk/getatime/getsize), rmtree, the deadline now-age_limit "
        "(an input of the model), float mantissas of memstr_to_bytes.",
        technique="Lean 4 proof (induction over the eviction loop) + differential correspondence with reduce_size",
        ref="6/C18",
    ),
}

CHECKS["C07"] = dict(
    text="filterArgs_eq_bind: for every well-formed signature of any length and every call Python accepts, the Lean model of "
    "filter_args equals CPython's binding (also for bound methods), ignore_removes_exactly, wrapper_accepts, "
    "error_implies_python_rejects; the model is compared exhaustively (all signatures with <= 4 parameters, every call shape) with "
    "the real filter_args and with the real call semantics every run. Counterexample theorems about the pre-fix function are kept.",
    note="modelled not verified: inspect.signature, exec-generated test functions; non-function callables (partials, builtins) take "
    "filter_args' fallback branch, covered by correspondence only.",
    technique="Lean 4 proof (induction over the parameter list) + exhaustive small-scope differential correspondence",
    ref="6/C07",
)

NOT_BUILT = "check not built yet in this round (planned: see DESIGN.md section 6); not claimed"
NOT_APPLICABLE = {}


def main():
    checks = []
    na = []
    for p in PROPS:
        pid = p["id"]
        c = CHECKS.get(pid)
        if c is None:
            na.append(dict(property_id=pid, reason=NOT_APPLICABLE.get(pid, NOT_BUILT)))
            continue
        checks.append(
            dict(
                property_id=pid,
                quick_cmd=f"./check {pid} --tier quick",
                thorough_cmd=f"./check {pid} --tier thorough",
                evidence_file=f"/verif/evidence/{pid}.json",
                replay_cmd_template=f"./check {pid} --replay {{path}}",
                engine="lean-proof+correspondence",
                level_claimed=dict(category="proof", text=c["text"], design_ref=c["ref"]),
                level_note=LEVEL_NOTE_COMMON + c["note"],
                technique=c["technique"],
            )
        )
    m = dict(
        version=1,
        setup_cmd="cd lean && lake build " + " ".join(f"JoblibProofs.{c['property_id']} drv_{c['property_id'].lower()}" for c in checks),
        hooks=dict(
            guard="JOBLIB_VERIF",
            enable="no source hooks: checks import joblib from /repo's working tree (VERIF_REPO overrides the path) and "
            "observe it through public APIs, sys.monitoring, strace and scratch directories",
            baseline_off_cmd="cd /repo && /venv/bin/python -m pytest -ra -q -p no:cacheprovider --timeout=900 --continue-on-collection-errors",
            source_commits=[],
            add_only=True,
        ),
        engines=[
            dict(
                name="lean-proof+correspondence",
                path="check",
                serves_properties=[c["property_id"] for c in checks],
                kind_free_text="Lean 4 models (lean/JoblibModel), property theorems (lean/JoblibProofs/Cxx.lean), compiled "
                "line-protocol drivers (lean/Driver), Python correspondence + oracle harness (harness/props/cxx.py)",
            )
        ],
        checks=checks,
        not_applicable=na,
        notes="Exit 0 held / 1 violation / 2 infrastructure error. known_findings.json lists genuine defects kept as findings.",
    )
    (HERE / "MANIFEST.json").write_text(json.dumps(m, indent=1) + "\n")
    code = (
        "import json,jsonschema,sys;"
        "jsonschema.validate(json.load(open(sys.argv[1])), json.load(open('/root/.vp/MANIFEST.schema.json')));print('MANIFEST valid')"
    )
    subprocess.run(["python3-vt", "-c", code, str(HERE / "MANIFEST.json")], check=True)
    ev = (
        "import json,jsonschema,sys,glob\n"
        "s=json.load(open('/root/.vp/EVIDENCE.schema.json'))\n"
        "claimed=set(c['property_id'] for c in json.load(open(sys.argv[1]+'/MANIFEST.json'))['checks'])\n"
        "for f in sorted(glob.glob(sys.argv[1]+'/evidence/*.json')):\n"
        "    if f.split('/')[-1][:-5] not in claimed: continue\n"
        "    jsonschema.validate(json.load(open(f)), s); print('evidence ok', f)\n"
    )
    subprocess.run(["python3-vt", "-c", ev, str(HERE)], check=True)


if __name__ == "__main__":
    sys.exit(main())
