#!/usr/bin/env python3
"""Writes MANIFEST.json from the table below and validates it (python3-vt has jsonschema).

A property is listed under `checks` only once its check exists and is quiet on the unchanged
tree; everything else is listed under `not_applicable` with the reason "not built yet" or the
genuine reason the technique cannot apply.
"""
import json
import subprocess
import sys
from pathlib import Path

HERE = Path(__file__).resolve().parent
PROPS = [json.loads(l) for l in (HERE / "properties.jsonl").read_text().splitlines() if l.strip()]

LEVEL_NOTE_COMMON = (
    "Trusted: Lean 4.33 kernel (axioms audited per theorem: subset of propext, Classical.choice, Quot.sound; no "
    "native_decide/bv_decide/sorry); the hand-written model is tied to /repo by the behavioural correspondence run by "
    "this check (generators, canonicalisation, diff trusted); "
)

CHECKS = {
    "C18": dict(
        text="Selection: lru_order, deleted_is_prefix, limits_hold_after, minimal, none_means_no_limit, satisfied_evicts_nothing over "
        "inventories of any length (model of _get_items_to_delete). Inventory: get_items_one_per_entry, get_items_size_is_sum, "
        "get_items_skips_unreadable over a directory-tree model of FileSystemStoreBackend.get_items (os.walk order, prefix regex, "
        "output.pkl atime with fallback, unreadable entries skipped). Deletion and end to end: enforce_attempts_every_selected (every "
        "fault pattern of clear_location), reduce_size_limits_hold, reduce_size_evicts_minimal_lru_prefix (Separated trees), "
        "no_limits_no_change; memstr_exact / memstr_rejects_* for disk.memstr_to_bytes (exact rationals, truncation); F47 witnesses "
        "(nested_hash_dir / hash_named_root counterexamples). The harness builds stores of 2-3 cached functions with equal arguments, "
        "prefix-named and stray directories, reads the inventory independently, injects OSError(ESTALE) into clear_location through a "
        "registered backend subclass, and compares get_items, the deleted set and the size-string values with the model; a "
        "tie-tolerant oracle judges the implementation directly. INTERRUPTION of the deletion loop at every call "
        "(interrupted_eviction_is_lru_prefix, interruption_points: what has been removed so far is always a prefix of the LRU order) and "
        "HISTORIES on one Memory object with changes behind the inventory (reduce_size_history_independent; the oracle reads sizes and "
        "access times from disk before every call).",
        note="modelled not verified: os.walk/getatime/getsize (the tree is read independently by the harness and handed to the model), "
        "rmtree, the deadline now-age_limit (an input of the model), IEEE rounding of float() in memstr_to_bytes (exact inside the digit "
        "budget, verified by correspondence), negative age_limit; F47 (prefix regex takes non-entry directories for entries) known.",
        technique="Lean 4 proof (induction over the eviction loop and the directory tree) + differential correspondence with reduce_size / get_items under fault injection",
        ref="6/C18, 14.3",
    ),
}

CHECKS["C07"] = dict(
    text="filterArgs_eq_bind: for every well-formed signature of any length and every call Python accepts, the Lean model of "
    "filter_args equals CPython's binding (also for bound methods), ignore_removes_exactly, wrapper_accepts, "
    "error_implies_python_rejects; the model is compared exhaustively (all signatures with <= 4 parameters, every call shape) with "
    "the real filter_args and with the real call semantics every run. Counterexample theorems about the pre-fix function are kept.",
    note="modelled not verified: inspect.signature, exec-generated test functions; non-function callables (partials, builtins) take "
    "filter_args' fallback branch, covered by correspondence only.",
    technique="Lean 4 proof (induction over the parameter list) + exhaustive small-scope differential correspondence",
    ref="6/C07",
)

CHECKS["C08"] = dict(
    text="encode_perm_invariant / encode_seed_free (any reordering of dict, set and frozenset parts at any depth leaves the exact "
    "protocol-3 byte stream fed to the digest unchanged), encode_injective_partial + type discrimination via a verified decoder of "
    "the opcode stream (values that never take the digest fallback), F6/F12 witnesses; the Lean encode is compared byte for byte "
    "with the real Hasher stream, digests are recomputed in fresh interpreters under several PYTHONHASHSEEDs and insertion orders, "
    "all-pairs discrimination over the generated universe. Values with SHARED REFERENCES and cycles: the memo numbering is modelled "
    "(HashMemo.lean: memo_indices_are_positions, memo_indices_distinct, binget_unambiguous_partial, reissued_index_is_ambiguous) and tied "
    "to the indices the real Hasher.memo issues; their byte stream stays oracle-only (equal digest => equal content with references "
    "unfolded; determinism under hash seeds and insertion orders).",
    note="modelled not verified: md5/sha1 (theorems are about the stream handed to the digest; H is a parameter), pickle._Pickler "
    "beyond the modelled opcode fragment, sorted() raising TypeError iff two keys are incomparable; aliased tuples and NaN keys are "
    "outside the domain; F12 (fallback collision) is a known finding.",
    technique="Lean 4 proof (permutation invariance + verified stream decoder) + byte-exact differential correspondence",
    ref="6/C08",
)
CHECKS["C15"] = dict(
    text="resolve_pos/neg/ge_one/zero_rejected, one_is_sequential, cpu_count_ge_one, cpu_count_le_each_limit, "
    "nested_default_no_processes (induction on nesting depth) over the Lean model of effective_n_jobs of every backend class, "
    "get_nested_backend and loky's cpu_count; exhaustive correspondence over n_jobs in [-2c,2c], c in 1..32, backend classes, nesting "
    "levels, thread/daemon guards, affinity masks and LOKY_MAX_CPU_COUNT. ThreadPool life-cycle of a ThreadingBackend instance "
    "(configure / _get_pool / terminate over histories of plain and managed calls): thread_pool_exact (every task of every call sees a "
    "pool of exactly the call's resolved n_jobs, no pool left at the end, for histories whose with blocks contain only their own "
    "calls), kept_pool_counterexample, foreign_call_in_managed_block_counterexample (= F55, known finding); call histories with "
    "shrinking / growing n_jobs at top level and inside thread, loky and multiprocessing workers are measured with gates and compared "
    "with the model.",
    note="partial: 'never more than n_jobs tasks at once' beyond the arithmetic is a property of ThreadPool/loky having exactly n "
    "workers - measured in the thorough tier, not proved. cpu-count sources partly mocked in subprocesses.",
    technique="Lean 4 proof (decision logic, induction on depth) + exhaustive decision-table correspondence",
    ref="6/C15",
)
CHECKS["C17"] = dict(
    text="exit_restores (structural induction over trees of with-blocks, normal and exceptional exit), thread_frame / "
    "thread_noninterference (any interleaving), precedence (explicit > innermost > outer > default, all 8 keys), "
    "sharedmem_is_threads, prefer_is_hint over the Lean model of parallel_config/_get_active_backend/Parallel.__init__; programs of "
    "nested blocks across 1-3 threads are run on the real code and compared at every program point. NON-LIFO use and started threads "
    "(ops create / unreg k / spawn; XProg): exit_restores_whatever_the_body_left (whatever objects the body created and left "
    "registered, the exit of a with block restores exactly the configuration of its creation), unregister_is_restore (idempotent, any "
    "operations in between), unregister_out_of_order, balanced_program_restores, new_thread_starts_from_defaults (plain thread, copied "
    "contextvars context, asyncio.to_thread), other_threads_unaffected, gab_agrees_with_parallel; counterexamples (decide) for three "
    "seeded variants (guarded unregister, ContextVar, literal defaults of get_active_backend); generated unbalanced programs are "
    "compared step by step.",
    note="modelled not verified: threading.local, third-party/dask backends, multiprocessing-disabled mode; one known finding "
    "(context n_jobs dropped when a context's process backend is replaced for require='sharedmem', pinned by joblib's own tests).",
    technique="Lean 4 proof (structural induction on config programs) + differential correspondence on generated programs",
    ref="6/C17",
)
CHECKS["C20"] = dict(
    text="refcount_refines, delete_iff_zero, never_delete_unregistered, counts_positive, malformed_is_noop, "
    "eof_deletes_rest_folders_last, parse_send_format for request histories of any length over the Lean model of "
    "resource_tracker.main; histories (incl. malformed lines, several clients exiting or SIGKILLed) are sent to the REAL tracker "
    "process over its pipe and on-disk existence is compared with the model and with a plain refcount oracle after every request. "
    "CLIENT side (lean/JoblibModel/TrackerClient.lean: TemporaryResourcesManager, the forward reducer's registrations and extra "
    "reference, executor reuse, MemmappingPool, worker un-pickle / finalizers / exit / SIGKILL, parent exit, composed with the tracker "
    "model and a disk): client_tracker_composed, client_requests_wellformed, refcount_matches_users(_repaired), "
    "never_deleted_while_held (every operation sequence, the code as repaired by F45) + never_deleted_while_held_partial and "
    "extra_reference_released_twice_counterexample (the older code), eventually_deleted(_at_exit), client_invariants; generated client "
    "programs run on the real manager / reducers / tracker and are compared with the model step by step (request stream, folders, files). "
    "SIGNALS (TrackerSignals.lean: mask, disposition, pending bit): start_never_loses_to_a_pending_signal, "
    "unblock_before_ignore_counterexample, launcher_mask_is_needed; SIGINT / SIGTERM are sent at every phase of the real tracker's life. "
    "The asynchronous pipe as a variant (TrackerLag.lean): tracker_lag_counterexample (= F60), lag_with_caught_up_tracker_is_synchronous.",
    note="modelled not verified: pipe EOF and write atomicity, readline, the warnings module, os.unlink/rmtree/sem_unlink; client side: "
    "tracker and client in synchrony after each step (ASSUMED, and false of the real system under tracker lag: F60; the probe enforces it), uuid uniqueness of folder / file names, memmaps held by MemmappingPool workers are "
    "unregistered by design (judged by the probe's oracle, not by the tracker-side theorem).",
    technique="Lean 4 proof (induction over the request log, refinement to an abstract refcount) + differential correspondence with the real tracker process",
    ref="6/C20",
)

CHECKS["C01"] = dict(
    text="dispatch_conservation, exactly_once(_at_exit), return_correct (ordered modes: the result is exactly the task list in order "
    "for every schedule, every task count, every scripted batch size, incl. late completions of earlier calls), "
    "return_correct_unordered, no_hang, stale_callback_noop, auto_batch_size_ge_one over the Lean model M1 of "
    "dispatch_one_batch/_dispatch/BatchCompletionCallBack/_start/_retrieve/__call__; the model's event log is compared for equality "
    "with the real Parallel driven deterministically through a controllable backend; F11 witness proved. M1L (all interleavings of "
    "any number of callback threads with the caller at lock-boundary granularity): mutex, dispatch_conservation, exactly_once, counters, "
    "return_correct, no_premature_exit, no_deadlock, callback_progress, no_lost_wakeup, quiet_exit, and quiescent_termination (from every "
    "reachable state the drain schedule finishes the call within an explicit bound). Backend contract 'every compute_batch_size() >= 1': "
    "auto_batch_size_ge_one_across_calls / auto_batch_size_ignores_call_inputs over AutoBatch.lean with reset and new-call operations, "
    "tied to the REAL AutoBatchingMixin running on the real Parallel object across calls of managed and unmanaged objects (real_ab "
    "scenarios) and by a managed-reuse native probe; completions delivered inside backend.submit (every subset of the submits of small "
    "calls) are judged by the sequential-loop oracle.",
    note="M1 granularity: completion callbacks are atomic and delivered at hook points of the caller (configure, compute_batch_size, sleep, consumer pauses) - exactly the schedules harness/ctl.py executes on the real Parallel on one thread (event-log equality). Interleavings at lock-boundary / backend-call / unlocked-shared-access granularity with any number of concurrent callback threads are covered by PROOF on the second model M1L (lean/JoblibModel/ParallelLock.lean, theorems M1L.*; scope: one call on a fresh object, ordered modes, no timeout) and tied to the code by step-log equality of forced real-thread schedules (instrumented lock, controllable backend, descriptor-instrumented shared attributes; no line numbers). What remains exploration judged by oracles only is finer than a single attribute access (bytecode level: instr_sweep), mid-callback observations of the wait predicate, close during a callback's pull, native threading/multiprocessing runs, and at M1L granularity: item-level conservation and termination for generator_unordered / timeouts - M1LU (lean/JoblibModel/ParallelLockU.lean, theorems M1LU.*) proves for all interleavings delivery in completion-registration order, once per tracker, timeout soundness and error surfacing, the rest is checked by the tie's oracles; completions delivered INSIDE backend.submit are an oracle-only scenario kind (call sequences with surviving callback threads of earlier calls are covered by PROOF on M1L-Seq, theorems M1LSeq.*: stale_steps_are_noops, current_call_refines_M1L, next_call_is_fresh, return_correct_seq, error_surfaces_seq; tied by step-log equality of forced multi-call schedules); termination is proved for the drain schedule (completions, then callbacks, then the caller; quiescent_termination with an explicit bound), not for arbitrary fair schedules. Modelled not verified: backend contract (each batch executed at most once, callback at most once), RLock, islice, Queue/deque, pickling to workers.",
    technique="Lean 4 proof (invariant over the dispatch/completion/retrieval transition system) + event-log correspondence under a deterministic scheduler",
    ref="6/C01, 13.2",
)
CHECKS["C04"] = dict(
    text="error_surfaces, failing_batch_aborts + ret_means_no_exception, iterator_error_is_raised, timeout_raises (ordered retrieval), "
    "call_terminates, clean_after_call/close/exhaustion, stale_callbacks_are_noops, next_call_is_fresh, second_call_correct over M1, "
    "for all schedules and call sequences; same correspondence as C01 with failing tasks, failing iterator steps, fake-clock "
    "timeouts and fail/succeed/fail call sequences. M1L (all interleavings at lock-boundary granularity): error_surfaces, "
    "error_surfaces_partial, raise_is_legit, outcome_done, and error_surfaces_counterexample = F49 (the pre-fix _wait_retrieval lets a "
    "late iterator error be swallowed; found by the M1L correspondence, fixed in /repo); 'the call always terminates': "
    "M1L.quiescent_termination (drain schedule, explicit bound). M1L-Seq (sequences of calls on one object with callback threads of earlier "
    "calls still alive): stale_steps_are_noops, current_call_refines_M1L, finished_call_refines_M1L, next_call_is_fresh, "
    "error_surfaces_seq, clean_call_returns_seq, and stale_dispatch_new_counterexample = F50 for the older code. START-UP FAILURES "
    "(lean/JoblibModel/ParallelStartup.lean: len(iterable), backend.configure, n_jobs == 0, start_call, iter(iterable), the pre_dispatch "
    "resolution or islice raises; a failed __enter__): failed_start_raises_the_fault, failed_start_leaves_clean, "
    "failed_start_releases_backend, next_call_after_failed_start_is_fresh, second_call_correct_after_failed_starts(+_unordered) over "
    "inductive histories of calls and failed starts, history_leaves_idle, sequential_failed_start, no_fault_is_old_model, and "
    "failed_start_counterexample / failed_start_unguarded_blocks_next_call = F52 for the older code; ~10% of the generated calls carry a "
    "start-up fault (event-log equality); a native probe repeats them on the real backends (F54). M1LU (timeouts at lock-boundary "
    "granularity, ordered and unordered): timeout_raises, timeout_registers, timeout_stored, timeout_registered_raises_ordered / "
    "_unordered, timeout_only_when_waited (a TimeoutError implies a wait of more than `timeout` ticks on one pending tracker), "
    "timeout_branch_guarded, error_jobs_hold_exceptions. Native pool probe (harness/native_pool.py, oracle only): inside a with block, "
    "after a task error / timeout / iterator error / abandoned generator the re-built workers report the same configuration as before "
    "(initializer, start method, thread limits, idle time-out, temp folder, memmapping) on multiprocessing, loky (F56) and threading. "
    "EXCEPTION TRANSPORT of the pool backends (ExcTransport.lean): transport_preserves_outcome (a raised (class, args) arrives as that "
    "(class, args) with the remote traceback as cause, a returned list as that list, for every transport satisfying the pickle law), "
    "raw_pool_exception_is_raised, returned_exception_instance_is_raised_witness, transport_table.",
    note="M1 granularity: completion callbacks are atomic and delivered at hook points of the caller (configure, compute_batch_size, sleep, consumer pauses) - exactly the schedules harness/ctl.py executes on the real Parallel on one thread (event-log equality). Interleavings at lock-boundary / backend-call / unlocked-shared-access granularity with any number of concurrent callback threads are covered by PROOF on the second model M1L (lean/JoblibModel/ParallelLock.lean, theorems M1L.*; scope: one call on a fresh object, ordered modes, no timeout) and tied to the code by step-log equality of forced real-thread schedules (instrumented lock, controllable backend, descriptor-instrumented shared attributes; no line numbers). What remains exploration judged by oracles only is finer than a single attribute access (bytecode level: instr_sweep), mid-callback observations of the wait predicate, close during a callback's pull, native threading/multiprocessing runs, and at M1L granularity: item-level conservation and termination for generator_unordered / timeouts - M1LU (lean/JoblibModel/ParallelLockU.lean, theorems M1LU.*) proves for all interleavings delivery in completion-registration order, once per tracker, timeout soundness and error surfacing, the rest is checked by the tie's oracles; completions delivered INSIDE backend.submit are an oracle-only scenario kind (call sequences with surviving callback threads of earlier calls are covered by PROOF on M1L-Seq, theorems M1LSeq.*: stale_steps_are_noops, current_call_refines_M1L, next_call_is_fresh, return_correct_seq, error_surfaces_seq; tied by step-log equality of forced multi-call schedules); termination is proved for the drain schedule (completions, then callbacks, then the caller; quiescent_termination with an explicit bound), not for arbitrary fair schedules. Modelled not verified: backend contract (each batch executed at most once, callback at most once), RLock, islice, Queue/deque, pickling to workers." + " Worker-side exception transport of the pool backends is modelled (lean/JoblibModel/ExcTransport.lean; tie = a Python transcription of the model's table compared with the real _TracebackCapturingWrapper / _retrieve_traceback_capturing_wrapped_call, not a driver run); loky's executor-side capture is covered by native runs only.",
    technique="Lean 4 proof (invariants + clean-state re-establishment) + event-log correspondence under a deterministic scheduler",
    ref="6/C04, 13.2",
)
CHECKS["C09"] = dict(
    text="no_pull_after_abort, all_is_eager, pulls_only_in_locked_region, size_invariant, lookahead_bound_state, parked_bound, "
    "lookahead_bound_partial (configuration-only when no batch completes during pre-dispatch), auto_batch_size_at_most_doubles, and "
    "the F18 counterexample, over M1; same correspondence as C01 plus look-ahead/in-flight/re-entrancy oracles and a native-thread "
    "probe with an input iterator that detects a second thread entering it. M1L (all interleavings at lock-boundary granularity): "
    "mutex, lock_owner_iff, acquire_needs_free_lock, pulls_only_by_lock_owner (never from two threads at once), "
    "no_pull_after_abort_observed. pre_dispatch resolution (lean/JoblibModel/EvalExpr.lean: the ast node kinds, eval_ over any "
    "interpretation of the 8 operator functions, exact int / binary64 float arithmetic, the textual n_jobs substitution, int() and "
    "islice's range check): eval_arithmetic_only (a value implies only constants, the 7 operators and unary minus were evaluated), "
    "eval_rejects_cleanly_partial (+ the counterexample (1/0)+foo: ZeroDivisionError leaves eval_expr), eval_exception_classes, "
    "eval_sound (integer fragment, floor semantics), resolve_amount_fixed, lookahead_bound_user / _default (the bound as a function of "
    "the user's pre_dispatch text, n_jobs and the batch size), resolve_numbers, resolve_zero_negative_witnesses; tied by exact-value "
    "correspondence on generated and malformed expressions (call-event oracle: nothing but eval_, isinstance and the operator "
    "functions runs) and end to end through Parallel on the controllable backend. PER-CALL CONFIGURATION (ParallelReconf.lean: n_jobs, "
    "batch_size, pre_dispatch, timeout reassigned between calls of one object): reconf_call_uses_its_own_cfg, "
    "reconf_same_cfg_is_old_model; every call is judged with its own configuration. A native probe on the real pools "
    "(harness/native_pool.py): after a failure that does not come from the task body (unpicklable result or argument, worker death) "
    "no further items are taken and an error surfaces.",
    note="M1 granularity: completion callbacks are atomic and delivered at hook points of the caller (configure, compute_batch_size, sleep, consumer pauses) - exactly the schedules harness/ctl.py executes on the real Parallel on one thread (event-log equality). Interleavings at lock-boundary / backend-call / unlocked-shared-access granularity with any number of concurrent callback threads are covered by PROOF on the second model M1L (lean/JoblibModel/ParallelLock.lean, theorems M1L.*; scope: one call on a fresh object, ordered modes, no timeout) and tied to the code by step-log equality of forced real-thread schedules (instrumented lock, controllable backend, descriptor-instrumented shared attributes; no line numbers). What remains exploration judged by oracles only is finer than a single attribute access (bytecode level: instr_sweep), mid-callback observations of the wait predicate, close during a callback's pull, native threading/multiprocessing runs, and at M1L granularity: item-level conservation and termination for generator_unordered / timeouts - M1LU (lean/JoblibModel/ParallelLockU.lean, theorems M1LU.*) proves for all interleavings delivery in completion-registration order, once per tracker, timeout soundness and error surfacing, the rest is checked by the tie's oracles; completions delivered INSIDE backend.submit are an oracle-only scenario kind (call sequences with surviving callback threads of earlier calls are covered by PROOF on M1L-Seq, theorems M1LSeq.*: stale_steps_are_noops, current_call_refines_M1L, next_call_is_fresh, return_correct_seq, error_surfaces_seq; tied by step-log equality of forced multi-call schedules); termination is proved for the drain schedule (completions, then callbacks, then the caller; quiescent_termination with an explicit bound), not for arbitrary fair schedules. Modelled not verified: backend contract (each batch executed at most once, callback at most once), RLock, islice, Queue/deque, pickling to workers." + " The unrestricted look-ahead bound is false of the code (F18, known finding); F29 known.",
    technique="Lean 4 proof (size invariants of the transition system) + event-log correspondence + re-entrancy probe",
    ref="6/C09, 13.2",
)
CHECKS["C16"] = dict(
    text="promptness (a completed head batch is yielded without consuming any schedule entry or clock tick), "
    "ordered_yields_in_order, unordered_each_exactly_once, unordered_completion_order_partial, overlap_raises, close_stops_dispatch, "
    "close_leaves_clean over M1 with an explicit generator state and consumer operations (next, close, drop, call-again, pause). M1LU "
    "(generator_unordered and timeouts, all interleavings of callback threads with the caller, all control-job picks): "
    "unordered_completion_order (delivered is a prefix of the registration order and out = its batches), "
    "unordered_queue_is_registration_order, registration_once, unordered_no_batch_twice, unordered_each_exactly_once_partial, mutex, "
    "pulls_only_by_lock_owner, no_deadlock, error_surfaces_unordered; tied by step-log equality of forced real-thread schedules "
    "(drv_m1lu).",
    note="M1 granularity: completion callbacks are atomic and delivered at hook points of the caller (configure, compute_batch_size, sleep, consumer pauses) - exactly the schedules harness/ctl.py executes on the real Parallel on one thread (event-log equality). Finer interleavings (every bytecode of the caller as a pre-emption point via sys.monitoring, mid-callback observations of the wait predicate, close during a callback's pull, native threading/multiprocessing runs) are explored by the harness and judged by oracles only - exploration, not proof. Modelled not verified: backend contract (each batch executed at most once, callback at most once), RLock, islice, Queue/deque, pickling to workers.",
    technique="Lean 4 proof (generator state machine over M1) + event-log correspondence with consumer operations",
    ref="6/C16, 13.2",
)
CHECKS["C13"] = dict(
    text="zfile_refines_stream(_chunks): for every chunking of the payload and every operation sequence (read n, read(), readinto, "
    "readline, tell, seek with all whence modes) BinaryZlibFile's read-side state machine returns what the reference byte stream "
    "returns; invariant_preserved, size_known_at_eof, write_concat, write_roundtrip; model-based operation sequences on the real "
    "BinaryZlibFile/BinaryGzipFile fed with the actual decompressed chunk boundaries, oracle io.BytesIO. trailing_bytes_same_stream (a "
    "valid file followed by ANY bytes answers every operation sequence as the reference stream over the payload), "
    "seek_end_in_every_state; payloads up to megabytes in every inflation regime (ratio << 1 ... >> 1000 at the start, middle and END), "
    "files with trailing bytes, seek from the end in every state of the object.",
    note="modelled not verified: zlib/gzip codecs (streaming law is a hypothesis), io.BufferedIOBase.readline/readinto defaults.",
    technique="Lean 4 proof (refinement to a byte-stream spec by induction over the operation list) + model-based differential testing",
    ref="6/C13",
)
CHECKS["C14"] = dict(
    text="fill_terminates (every raw input: valid, truncated, with trailing bytes; the measure is the proof), wf_reachable, "
    "truncation_never_lies, trailing_bytes_ignored, load_error_or_original, read_bytes_terminates_exact, damaged_entry_recomputes, "
    "and the divergence theorems for the pre-fix _fill_buffer; every truncation length of small files and boundary-biased ones of "
    "large files, every compressor, garbage and second-stream suffixes, through joblib.load and through a damaged Memory entry, each "
    "in a subprocess with watchdog and address-space cap. LEGACY formats (lean/JoblibModel/ZFileLegacy.lean: read_zfile's prefix / "
    "int(field, 16) / zlib.decompress as a parameter): legacy_truncation_never_lies, legacy_trailing_bytes_ignored, legacy_load_class; "
    "z-files of both header widths and the joblib/test/data samples with companions are damaged at every length. Two callers of one "
    "damaged entry under every interleaving with <= 3 switches of the store-backend operations (oracle only).",
    note="F59 (a shelved reference's get() raises on a damaged entry) known finding; modelled not verified: the codecs (monotonicity law as hypothesis), the unpickler contract (strict prefix => error); "
    "bz2/lzma/xz file objects are CPython's own (outcome set only, termination by watchdog).",
    technique="Lean 4 proof (termination measure + prefix lemmas) + exhaustive truncation/suffix differential runs",
    ref="6/C14",
)

CHECKS["C10"] = dict(
    text="PARTIAL by design (process death, pipes, sentinels and signals are runtime behaviour): over the Lean model of loky's "
    "_ExecutorManagerThread loop and of get_reusable_executor: death_wakes_manager, death_stays_visible, "
    "dead_worker_unblocks_manager_partial, terminate_broken_resolves_all, broken_resolves_all_partial, no_wrong_results, "
    "manager_never_crashes, heal(_for_every_history), fault_charged_to_pending_only, idle_death theorems, and the F15 hazard as a "
    "reachable state from which the manager stays blocked forever; fault-injection runs on the real loky backend (victim, signal, "
    "kill instant placed by pickling hooks) compared with the model's outcome classes and judged by an oracle (prompt "
    "worker-termination error or correct results; next call healthy; at most one call fails per fault). FINE LAYER (the manager's WAIT "
    "SET rebuilt only on entry to wait, the wake-up pipe as counter + closed flag, the shutdown lock, submit = spawn / start manager / "
    "wake-up in the code's order): wait_set_covers_live_workers and death_wakes_manager_wait_set IN FULL for the repaired order (any "
    "history incl. clean worker exits, either start order), wakeup_never_writes_to_closed_pipe, close_waits_for_the_writer, "
    "abort_raises_only_worker_termination, full_wait_set_is_manager_step (link to the coarse model), counterexamples for "
    "manager-first, unlocked close and the pre-F53 respawn; a fine tie of 20 calls per run and a behavioural probe of the submit order.",
    note="the _partial theorems assume no worker dies between the first and the last byte of its result message (F15, known "
    "finding, reproduced in the thorough tier only); the model cannot exhibit wall-clock latency, OS scheduling of the manager "
    "thread, bytes inside a message, EOF on the result pipe, process start-up; racy schedules are tied by membership in the model's "
    "trace set and by outcome class.",
    technique="Lean 4 proof (invariant of the manager event loop; reusable-executor decision) + fault-injection outcome-class correspondence",
    ref="6/C10",
)

CHECKS["C02"] = dict(
    text="key_sound_partial (equal keys => bound arguments agree outside the ignore list: composition of C07.filterArgs_eq_bind and "
    "C08's injectivity, H only assumed collision-free on the keys of the history), cached_call_correct_partial (every history of "
    "calls, shelved gets, forced calls, checks, clears, evictions, fresh processes returns what the plain function returns), "
    "shared_entry_same_args_partial, and the F12-consequence / shared-function-id witnesses; histories on a real Memory with functions "
    "that return their bound arguments are compared step by step (value, executed?, key class; md5 of the model stream == real args id). "
    "effect_on_arguments_irrelevant / cached_call_correct_mutating_partial: what a function does to its arguments never changes a "
    "returned value; key_after_call_wrong_value_counterexample for the seeded variant.",
    note="_partial = argument dicts hashed without the md5 fallback (F31 known), callables other than partial objects sharing one "
    "function id (F35 known); modelled not verified: md5, pickle of results (C03), the store as an abstract finite map (C05/C11).",
    technique="Lean 4 proof (composition of the C07 and C08 models; induction over cache histories) + history correspondence on a real Memory",
    ref="6/C02",
)
CHECKS["C06"] = dict(
    text="key_complete_partial (arguments agreeing outside the ignore list => equal keys, incl. dict/set arguments built in another "
    "order), hit_after_call, hit_after_equivalent_call_partial, check_iff_hit, hit_after_forced_call, wrapper_accepts over the "
    "MemoryCache model; F20/F30 witnesses; same history correspondence as C02 with execution counters, check_call_in_cache, ignore "
    "lists and fresh-process steps. Functions that MUTATE their arguments (Fn.effect) and the forced-call path: "
    "key_from_arguments_as_passed (every entry written by any path is filed under the key of the arguments as passed), "
    "hit_after_forced_call_mutating, check_true_after_call, key_after_call_counterexample for the seeded variant; workload functions "
    "sort / pop / append / clear their list, dict, set and bytearray arguments in place.",
    note="_partial excludes functools.partial objects (F20, F32 known) and aliased argument objects (F33 known).",
    technique="Lean 4 proof (key completeness via C08.encode_perm_invariant; induction over cache histories) + history correspondence",
    ref="6/C06",
)
CHECKS["C12"] = dict(
    text="value_from_own_version (every history of definitions, wrappers, calls of live versions, clears, faults and fresh processes over "
    "ANY NUMBER OF CACHE LOCATIONS: a call returns what its own version computes; hypotheses NoDelete = F39, Canonical = F46), "
    "unchanged_code_keeps_cache (per location), locations_independent, shortcut_implies_stored_code_is_own, reachable_inv over the "
    "FuncCode model (process-global _FUNCTION_HASHES and _FUNC_CODE_WRITERS keyed by location, per-directory func_code.py + entries); "
    "counterexamples for the pre-F10 / pre-F38 trees, for a writer key without the location and for one directory under two spellings "
    "(F46), value_from_own_version_resolved for the candidate repair; three streams of generated multi-session programs (one location; "
    "2-3 directories / several Memory objects; aliased spellings) run in their own interpreters and compared step by step. TEXT LAYER of "
    "func_code.py (lean/JoblibModel/FuncCodeText.lean: _write_func_code's format string, extract_first_line's startswith / split / int / "
    "join, the comparison old_func_code == func_code): extract_write_roundtrip (every source text, every line number), torn_reads (a file "
    "cut at ANY length reads as: a fragment of the marker | ValueError | empty source | a strict prefix of the source), "
    "torn_same_only_for_prefix, intact_same_iff; tied by the text stream (real _write_func_code / extract_first_line on generated texts, "
    "intact and cut at every length, hostile first lines). WRITE FAULTS on func_code.py (lean/JoblibModel/FuncCodeFault.lean): "
    "entries_only_beside_their_code (no func_code.py => no entry; func_code.py = source s => every entry is s's value, for every history "
    "with faults), value_from_own_version_with_write_faults, counterexamples for a swallowed write error; session programs in 13 declared "
    "source encodings with versions differing only in non-ASCII characters.",
    note="modelled not verified: inspect.getsource / get_func_code text extraction, UTF-8 (a byte prefix decodes to a code-point prefix or "
    "raises), int() outside ASCII fields (the model abstains), weakref table lifetime; sessions are sequential; one "
    "location string denoting two directories in one process (relative path + chdir) is not modelled; F39, F46 known findings.",
    technique="Lean 4 proof (per-directory cell invariant + frame lemmas over definition/call/process histories) + generated-program correspondence",
    ref="6/C12, 14.3",
)
CHECKS["C05"] = dict(
    text="final_name_complete (every prefix, torn or not, of every workload: output.pkl and metadata.json hold complete content), "
    "crash_state_ok, crash_recovery (every workload, every crash point, every torn length: the next call in a fresh process returns "
    "the right value and does not raise, incl. expires_after), recovery_idempotent_partial, later_calls_correct_partial, F8/F9/F36 "
    "witnesses, over a file-system model with the store protocol as programs of FS operations; the model's operation list must equal "
    "the strace log of the real workload op for op, and REAL kills (strace inject SIGKILL at the k-th FS call, torn writes by "
    "truncation) are followed by the same call in a fresh process. VALIDITY STAMPS (values carry the generation that computed them, "
    "metadata the generation it was written in, callback `since g` = expires_after seen from a fixed instant): "
    "entry_without_metadata_is_not_valid_under_a_callback, accepted_under_since_has_recent_stamp / _value (general); "
    "stamp_not_newer_than_value_partial and expiry_recovery_partial (11 workloads x every crash point x every torn length); "
    "counterexamples for metadata-before-output and for skipping the callback without metadata; an impure workload function and the "
    "refresh / coldexp workloads with real kills tie them.",
    note="the general stamp invariant over ALL workloads is not proved (the Sat derivations of dumpItem / storeMetadata carry only Inv; "
    "statement kept in C05.lean); modelled not verified: kernel behaviour at kill -9 (completed rename durable, interrupted write leaves a prefix), directory "
    "listing order (an input), pickle; F36 (stale value after a kill inside the rmtree of a source-change clear) is a known finding.",
    technique="Lean 4 proof (invariant over every prefix of FS-operation programs) + strace op-sequence correspondence + real SIGKILL injection",
    ref="6/C05",
)
CHECKS["C11"] = dict(
    text="rely/guarantee: participants_satisfy_G(_evict,_clear), one_complete_result(_star), call_correct_under_G_calls and "
    "call_correct_under_G_evict (a cached call interleaved with ANY sequence, any length, any number of participants, of environment "
    "steps within the guarantee returns the right value and does not raise), call_correct_under_G_clear_partial + F19 witness; "
    "interleavings of 2-4 threads at line granularity under a sys.monitoring scheduler on the real code, compared call by call. "
    "Participants as distinct Memory OBJECTS with per-process in-memory state (StoreObjects.lean): checkPreviousObj_fresh, "
    "object_history_witness; histories in which ANOTHER object clears / evicts between two operations of this object are tried first "
    "and compared step by step.",
    note="modelled not verified: FS syscall atomicity, thread scheduling below line granularity; F19 (call vs clear) and F37 (three "
    "first-time callers) are known findings; exceptions raised by clear/reduce_size themselves are outside the property.",
    technique="Lean 4 proof (rely/guarantee over the file-system model) + deterministic line-level schedule correspondence",
    ref="6/C11",
)
CHECKS["C03"] = dict(
    text="table_prefix_free / table_disjoint_from_pickle (decide over the magic-number and pickle-opcode tables REGENERATED from the live "
    "/repo objects on every run), detect_after_write, detect_pickle, roundtrip (for every compress argument, target, protocol and "
    "load-time file name that dump accepts, load selects the matching codec), resolve_total, resolve_error_class, level_zero_rule, "
    "extension_implies_method; exhaustive correspondence of the compress-argument resolution (12.7k cases observing the bytes actually "
    "written) + round trips of a recursive object universe under every available compressor and protocol, renamed before loading. "
    "HISTORIES of dump / load / rebind / register_compressor operations in one process (Proc, hstep): history_frame, "
    "load_history_independent (same bytes and same environment at the end => same load reply, whatever happened before), "
    "load_after_history, roundtrip_in_history; oracle: every load equals pickle.loads(pickle.dumps(x)) at the same instant, type "
    "identity included.",
    note="modelled not verified: pickle/unpickle and the codecs are parameters with explicit inverse laws (tested on this interpreter); "
    "shared/recursive references are pickle's memo (tested, not proved); lz4 not installed.",
    technique="Lean 4 proof (decision ladder + decide over regenerated tables) + exhaustive resolution correspondence",
    ref="6/C03",
)

CHECKS["C19"] = dict(
    text="padding_aligns, write_layout, chunked_read_covers_exactly, read_inverts_write_partial (itemsize >= 1), short_data_is_an_error, "
    "mmap_offset_is_data_start, mmap_pointer_aligned, order_choice, reduce_offset, reduce_strided_faithful, reduce_contiguous_faithful, "
    "total_buffer_len_covers (all stride vectors incl. negative and non-multiple strides, after the F24-F26 repairs) over the "
    "ArrayFormat model of NumpyArrayWrapper and _reduce_memmap_backed; pre-fix witnesses kept; under python3-vt (numpy) arrays from a "
    "dtype x shape x layout generator are dumped by the real code, the file layout is parsed and compared with the model, loaded and "
    "memory-mapped arrays and arrays seen by loky/multiprocessing workers are compared bit for bit. WORKER PATH over call histories "
    "(identity-keyed temporary dumps: Dispatch / runHistory): history_faithful_partial, fresh_context_is_faithful, "
    "new_object_is_faithful, history_stale_counterexample (= F57, known), mmap_mode_none_disables_memmapping (F58, fixed); the "
    "documented mmap_mode x max_nbytes grid, the lagging-tracker schedule (F60, known), concurrent loads / dumps in threads parked at "
    "every read / write, file-object loads after the path changed (the last three oracle only).",
    note="numpy semantics (nditer order, tobytes, frombuffer, memmap, as_strided) are parameters of the model; runs on CPython 3.11 + "
    "numpy 2.4.6, not the pinned 3.12 (no numpy there); dtype identical up to byte order when ensure_native_byte_order is in effect; "
    "F16 (np.matrix under numpy 2) and F27 (itemsize-0 dtypes) are known findings.",
    technique="Lean 4 proof (layout/alignment/stride arithmetic) + file-layout and worker-view differential correspondence under numpy",
    ref="6/C19",
)

NOT_BUILT = "check not built yet in this round (planned: see DESIGN.md section 6); not claimed"
NOT_APPLICABLE = {}


def main():
    checks = []
    na = []
    for p in PROPS:
        pid = p["id"]
        c = CHECKS.get(pid)
        if c is None:
            na.append(dict(property_id=pid, reason=NOT_APPLICABLE.get(pid, NOT_BUILT)))
            continue
        checks.append(
            dict(
                property_id=pid,
                quick_cmd=f"./check {pid} --tier quick",
                thorough_cmd=f"./check {pid} --tier thorough",
                evidence_file=f"/verif/evidence/{pid}.json",
                replay_cmd_template=f"./check {pid} --replay {{path}}",
                engine="lean-proof+correspondence",
                level_claimed=dict(category="proof", text=c["text"], design_ref=c["ref"]),
                level_note=LEVEL_NOTE_COMMON + c["note"],
                technique=c["technique"],
            )
        )
    m = dict(
        version=1,
        setup_cmd="cd lean && lake build " + " ".join(f"JoblibProofs.{c['property_id']} drv_{c['property_id'].lower()}" for c in checks)
        + " JoblibProofs.M1L drv_m1l JoblibProofs.M1LSeq drv_m1lseq JoblibProofs.M1LU drv_m1lu",
        hooks=dict(
            guard="JOBLIB_VERIF",
            enable="no source hooks: checks import joblib from /repo's working tree (VERIF_REPO overrides the path) and "
            "observe it through public APIs, sys.monitoring, strace and scratch directories",
            baseline_off_cmd="cd /repo && /venv/bin/python -m pytest -ra -q -p no:cacheprovider --timeout=900 --continue-on-collection-errors",
            source_commits=[],
            add_only=True,
        ),
        engines=[
            dict(
                name="lean-proof+correspondence",
                path="check",
                serves_properties=[c["property_id"] for c in checks],
                kind_free_text="Lean 4 models (lean/JoblibModel), property theorems (lean/JoblibProofs/Cxx.lean), compiled "
                "line-protocol drivers (lean/Driver), Python correspondence + oracle harness (harness/props/cxx.py)",
            )
        ],
        checks=checks,
        not_applicable=na,
        notes="Exit 0 held / 1 violation / 2 infrastructure error. known_findings.json lists genuine defects kept as findings.",
    )
    (HERE / "MANIFEST.json").write_text(json.dumps(m, indent=1) + "\n")
    code = (
        "import json,jsonschema,sys;"
        "jsonschema.validate(json.load(open(sys.argv[1])), json.load(open('/root/.vp/MANIFEST.schema.json')));print('MANIFEST valid')"
    )
    subprocess.run(["python3-vt", "-c", code, str(HERE / "MANIFEST.json")], check=True)
    ev = (
        "import json,jsonschema,sys,glob\n"
        "s=json.load(open('/root/.vp/EVIDENCE.schema.json'))\n"
        "claimed=set(c['property_id'] for c in json.load(open(sys.argv[1]+'/MANIFEST.json'))['checks'])\n"
        "for f in sorted(glob.glob(sys.argv[1]+'/evidence/*.json')):\n"
        "    if f.split('/')[-1][:-5] not in claimed: continue\n"
        "    jsonschema.validate(json.load(open(f)), s); print('evidence ok', f)\n"
    )
    subprocess.run(["python3-vt", "-c", ev, str(HERE)], check=True)


if __name__ == "__main__":
    sys.exit(main())
