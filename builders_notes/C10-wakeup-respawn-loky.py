"""Probe: a worker that exited cleanly (idle time-out) is respawned by the NEXT submit, AFTER that submit's wake-up.
If the manager thread handles the wake-up before the respawn it waits on a sentinel list without the new worker."""
import os, sys, time, threading
sys.path.insert(0, os.environ.get("VERIF_REPO", "/repo"))
from joblib.externals.loky import get_reusable_executor
from joblib.externals.loky import process_executor as pe

WIDEN = float(sys.argv[1]) if len(sys.argv) > 1 else 0.0
TIMEOUT = float(sys.argv[2]) if len(sys.argv) > 2 else 1.0

def ident(x):
    return x

def die(x):
    os._exit(1)

if WIDEN:
    orig = pe.ProcessPoolExecutor._adjust_process_count
    def slow(self):
        time.sleep(WIDEN)          # pure delay before the original method
        return orig(self)
    pe.ProcessPoolExecutor._adjust_process_count = slow

ex = get_reusable_executor(max_workers=2, timeout=TIMEOUT)
assert ex.submit(ident, 1).result(timeout=30) == 1
time.sleep(TIMEOUT + 2.5)          # both idle workers time out, announce their pid, are reaped
print("processes after idle time-out:", len(ex._processes), flush=True)
t0 = time.time()
f = ex.submit(die, 0)
try:
    f.result(timeout=40)
    print("RESULT?!")
    rc = 2
except Exception as e:
    dt = time.time() - t0
    print(f"{type(e).__name__} after {dt:.2f}s", flush=True)
    rc = 0 if type(e).__name__ in ("TerminatedWorkerError", "BrokenProcessPool") and dt < 1.5 else 1
os._exit(rc)
