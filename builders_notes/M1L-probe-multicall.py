import random, sys
sys.path.insert(0, '/verif')
from harness import m1_lock as L
rng = random.Random(5)
bad = {}
N=3000
for k in range(N):
    nj = rng.choice([2,2,3])
    n1 = rng.randint(2, 6); n2 = rng.randint(2, 6)
    f1 = (rng.randrange(n1),)
    pd = rng.choice([1,2,2,3,4])
    pre = [rng.randrange(6) for _ in range(rng.randint(15,70))]
    mid = [0]*rng.randint(60,200)
    post = [rng.randrange(6) for _ in range(rng.randint(0,100))]
    sc = L.LScenario(nj=nj, bs=(1,), pd=pd, abort_drops=rng.random()<0.3, calls=((n1, f1, -1),(n2, (), -1)), sched=tuple(pre+mid+post))
    r = L.run_scenario(sc)
    o = r.outcomes
    ok = r.status=='ok' and len(o)==2 and o[0][0]=='raise' and o[1][0]=='ret' and list(o[1][1])==list(range(n1, n1+n2)) and not r.cb_errors
    if not ok:
        key = (r.status, tuple(x[0] for x in o), tuple(x[1] if x[0]=='raise' else None for x in o), bool(r.cb_errors))
        if key not in bad:
            bad[key] = 1
            print(k, key, o, r.cb_errors[:2]); print("   ", sc.to_json())
print("done", N, len(bad))
