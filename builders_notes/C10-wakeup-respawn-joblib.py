"""joblib-level reproducer: Parallel call after the workers' idle time-out; the single task's worker dies."""
import os, sys, time
sys.path.insert(0, os.environ.get("VERIF_REPO", "/repo"))
from joblib import Parallel, delayed, parallel_config

T = float(sys.argv[1]) if len(sys.argv) > 1 else 6.0

def ident(x):
    return x

def die(x):
    os._exit(1)

with parallel_config(backend="loky", idle_worker_timeout=T):
    assert Parallel(n_jobs=2)(delayed(ident)(i) for i in range(2)) == [0, 1]
    time.sleep(T + 2.5)     # the idle workers time out and leave cleanly
    t0 = time.time()
    try:
        Parallel(n_jobs=2)([delayed(die)(0)])
        print("returned?!"); rc = 2
    except BaseException as e:
        dt = time.time() - t0
        print(f"{type(e).__name__} after {dt:.2f}s (idle_worker_timeout={T})", flush=True)
        rc = 0 if dt < 1.5 else 1
os._exit(rc)
