"""Histories of several Memory / MemorizedFunc OBJECTS on one cache directory (property C11).

`python c11_objects.py <spec.json>` executes a HISTORY: a list of steps, each performed completely (no interleaving inside
an operation) by one OBJECT.  An object is a `Memory(cache)` plus `memory.cache(f)` of its own — its own store backend
object and whatever joblib keeps in memory about "this user" — living on a HOST:

    "m"      the main thread of this process
    "t<k>"   another thread of this process (steps are handed over explicitly, one runs at a time)
    "p<k>"   another process (this script with `--serve`: one JSON request per line on stdin, one reply per line)

Steps:
    {"op": "new",    "obj": o, "host": h, "func": g}   Memory(cache); memory.cache(f) — f is function object `g` of the host
                                                       (objects of one process naming the same `g` share the function object)
    {"op": "call",   "obj": o, "a": x}                 cf(x)
    {"op": "clear",  "obj": o}                         Memory.clear()
    {"op": "fclear", "obj": o}                         MemorizedFunc.clear()
    {"op": "reduce", "obj": o}                         Memory.reduce_size(items_limit=0)
    {"op": "iclear", "obj": o, "args_id": id}          MemorizedResult(store, (func_id, id)).clear()

Before step n its host stats `<cache>/.step-<n>` (never exists), so that a strace log of the whole process tree can be cut
into steps.  One JSON line on stdout: the outcome of every step.
"""

from __future__ import annotations

import json
import os
import queue
import subprocess
import sys
import threading
import types


def _load_func(moddir):
    path = os.path.join(moddir, "wl_mod.py")
    m = types.ModuleType("wl_mod")
    m.__file__ = path
    exec(compile(open(path, encoding="utf-8").read(), path, "exec"), m.__dict__)
    return m


class Local:
    """The objects of one process."""

    def __init__(self, spec):
        self.spec = spec
        self.cache = spec["cache"]
        self.objs = {}
        self.funcs = {}

    def step(self, n, st):
        import traceback

        try:
            os.stat(os.path.join(self.cache, f".step-{n}"))
        except OSError:
            pass
        try:
            return self._do(st)
        except BaseException as e:  # noqa: BLE001
            tb = traceback.extract_tb(e.__traceback__)
            where = [f"{os.path.basename(f.filename)}:{f.name}" for f in tb][-4:]
            return dict(outcome=["raise", type(e).__name__, str(e)[:160]], where=where)

    def _do(self, st):
        from joblib import Memory
        from joblib.memory import MemorizedResult

        op = st["op"]
        if op == "new":
            mod = self.funcs.get(st["func"])
            if mod is None:
                mod = self.funcs[st["func"]] = _load_func(self.spec["moddir"])
            mem = Memory(self.cache, verbose=0)
            self.objs[st["obj"]] = (mem, mem.cache(mod.f), mod)
            return dict(outcome=["ok", None])
        mem, cf, mod = self.objs[st["obj"]]
        if op == "call":
            before = len(mod.CALLS)
            v = cf(st["a"])
            return dict(outcome=["ok", v], executed=len(mod.CALLS) - before)
        if op == "clear":
            mem.clear(warn=False)
        elif op == "fclear":
            cf.clear(warn=False)
        elif op == "reduce":
            mem.reduce_size(items_limit=0)
        elif op == "iclear":
            MemorizedResult(mem.store_backend, (cf.func_id, st["args_id"])).clear()
        else:
            raise ValueError("unknown step " + op)
        return dict(outcome=["ok", None])


class ThreadHost:
    def __init__(self, local, name):
        self.local = local
        self.q = queue.Queue()
        self.r = queue.Queue()
        self.t = threading.Thread(target=self._loop, name=name, daemon=True)
        self.t.start()

    def _loop(self):
        while True:
            item = self.q.get()
            if item is None:
                return
            self.r.put(self.local.step(*item))

    def step(self, n, st):
        self.q.put((n, st))
        return self.r.get(timeout=60)

    def close(self):
        self.q.put(None)


class ProcHost:
    def __init__(self, spec_path):
        self.p = subprocess.Popen([sys.executable, "-B", os.path.abspath(__file__), "--serve", spec_path],
                                  stdin=subprocess.PIPE, stdout=subprocess.PIPE, text=True)

    def step(self, n, st):
        self.p.stdin.write(json.dumps([n, st]) + "\n")
        self.p.stdin.flush()
        ln = self.p.stdout.readline()
        if not ln:
            return dict(outcome=["raise", "HostDied", ""], where=["?"])
        return json.loads(ln)

    def close(self):
        try:
            self.p.stdin.close()
            self.p.wait(20)
        except Exception:  # noqa: BLE001
            self.p.kill()


def _setup(spec):
    import warnings

    sys.path.insert(0, spec["repo"])
    sys.dont_write_bytecode = True
    import joblib

    if not os.path.realpath(joblib.__file__).startswith(os.path.realpath(spec["repo"]) + os.sep):
        print(json.dumps(dict(infra="joblib imported from " + joblib.__file__)))
        sys.exit(3)
    warnings.simplefilter("ignore")


def serve(spec_path):
    spec = json.loads(open(spec_path).read())
    _setup(spec)
    local = Local(spec)
    for ln in sys.stdin:
        n, st = json.loads(ln)
        sys.stdout.write(json.dumps(local.step(n, st)) + "\n")
        sys.stdout.flush()
    return 0


def main(spec_path):
    spec = json.loads(open(spec_path).read())
    _setup(spec)
    local = Local(spec)
    hosts = {"m": local}
    host_of = {}
    results = []
    try:
        for n, st in enumerate(spec["steps"]):
            if st["op"] == "new":
                host_of[st["obj"]] = st["host"]
            h = host_of[st["obj"]]
            if h not in hosts:
                hosts[h] = ThreadHost(local, h) if h.startswith("t") else ProcHost(spec_path)
            results.append(hosts[h].step(n, st))
    finally:
        for k, h in hosts.items():
            if k != "m":
                h.close()
    print(json.dumps(dict(results=results)))
    return 0


if __name__ == "__main__":
    if len(sys.argv) == 3 and sys.argv[1] == "--serve":
        sys.exit(serve(sys.argv[2]))
    sys.exit(main(sys.argv[1]))
