"""M1L tie: the REAL `joblib.Parallel` driven by REAL threads under a deterministic scheduler whose scheduling points
are exactly the atomic-step boundaries of the Lean model `lean/JoblibModel/ParallelLock.lean`.

Scheduling points (a thread parks there and runs again only when the schedule picks it):
  * outermost acquisition of `Parallel._lock` (parks BEFORE taking it; runnable only while the lock is free) and
    outermost release of it (parks AFTER releasing) -- `_lock` is replaced after construction by `SchedLock`, a
    re-entrant lock that exists only as scheduler state (one thread runs at a time, so no OS lock is needed);
  * calls into the backend: `submit`, `batch_completed`, `compute_batch_size`, `retrieve_result_callback`,
    `abort_everything` (parks on entry, the backend's effect belongs to the next step), and `time.sleep` of the
    retrieval loop (`joblib.parallel.time` is replaced by a fake module);
  * every access (read or write) made WITHOUT holding the lock to one of the shared attributes
    `_aborting, _exception, _iterating, _original_iterator, n_dispatched_tasks, n_completed_tasks, _jobs` of the Parallel object
    and `status` of a batch tracker (parks BEFORE the access).  These are installed as data descriptors on a
    subclass of Parallel / on BatchCompletionCallBack for the duration of a run: no line numbers, no bytecode
    offsets -- the tie survives any refactoring that keeps the sequence of lock operations, backend calls and
    unlocked shared accesses.
Completion callbacks run on fresh threads, created when the schedule says "complete parked batch k".

A schedule is a list of naturals.  At every decision the enabled actions are listed in canonical order
[caller, callback threads by batch number, `complete` of parked batches in submission order]; choice `c` picks
`enabled[c % len(enabled)]`; when the list is used up the LAST enabled action is taken (drains callbacks and
completions first, then the caller) -- the Lean driver applies the same rule, so every schedule is total.

Compared with the model: the full step log `tid:events>point` (which thread ran, the events `pull/submit/...` it
emitted, the kind of scheduling point it parked at next).  Single-call scenarios go to `drv_m1l` (model M1L,
`lean/JoblibModel/ParallelLock.lean`); scenarios with SEVERAL calls on one object (callback threads and parked batches of
earlier calls stay alive and interleave with the later calls) and the one-callback-at-a-time contract variant go to
`drv_m1lseq` (model M1L-Seq, `lean/JoblibModel/ParallelLockSeq.lean`) -- both step log by step log.  Model-independent oracles judge the implementation:
result == range(n), exactly-once execution, no second thread inside the input iterator, failure => raises, no hang /
deadlock.
"""

from __future__ import annotations

import argparse
import json
import sys
import threading
import time as _time
import warnings
from dataclasses import dataclass, field

from . import core

X_FIELDS = ("_aborting", "_exception", "_iterating", "_original_iterator", "n_dispatched_tasks", "n_completed_tasks", "_jobs")
import os as _os
_RECHECK_ENV = _os.environ.get("M1L_RECHECK", "auto")  # "0" / "1" force the model variant; default: probe the tree
_RECHECK_CACHE = [None]
_PROBE_NOTES = []   # what the variant probes could not decide (copied into res.notes by run_lock_scenarios)


def recheck_default():
    """Which code variant the MODEL must follow for the tree under test (VERIF_REPO): `True` when `_wait_retrieval`
    reads `_aborting` once more before returning False (the F49 repair), `False` for the older code.  Decided by a
    behavioural probe, not by looking at the source: an empty call is run under the scheduler and the scheduling point
    that follows the caller's read of `n_dispatched_tasks` is inspected (`r:_aborting` = repaired, `r:_exception` = the
    `finally` block = not repaired).  `M1L_RECHECK=0|1` overrides."""
    if _RECHECK_ENV in ("0", "1"):
        return _RECHECK_ENV == "1"
    if _RECHECK_CACHE[0] is None:
        nxt = None
        try:
            r = run_scenario(LScenario(nj=2, bs=(1,), pd=2, recheck=False, guard=True, calls=((0, (), -1),), sched=()))
            for a, b in zip(r.log, r.log[1:]):
                if a == "0:>r:n_dispatched_tasks":
                    nxt = b
                    break
        except Exception as e:  # noqa: BLE001 -- a probe never turns a changed tree into an infrastructure error
            nxt = f"{type(e).__name__}"
        if nxt == "0:>r:_aborting":
            _RECHECK_CACHE[0] = True
        elif nxt == "0:>r:_exception":
            _RECHECK_CACHE[0] = False
        else:
            # cannot classify: follow the variant of the current /repo and let the step-log comparison and the oracles
            # report whatever is different in the tree under test
            _RECHECK_CACHE[0] = True
            _PROBE_NOTES.append(f"m1l: the _wait_retrieval probe could not classify the tree under test (saw {nxt!r}); "
                                f"the model follows the variant recheck=True")
    return _RECHECK_CACHE[0]
_GUARD_ENV = _os.environ.get("M1L_GUARD", "auto")  # "0" / "1" force the M1L-Seq variant; default: probe the tree
_GUARD_CACHE = [None]


def guard_default():
    """Which code variant the M1L-Seq MODEL must follow for the tree under test: `True` when `_dispatch_new` tests the
    call id under the lock (the F50 repair), `False` for the older code.  Behavioural probe (no look at the source): two
    calls on one object; a callback of the first (aborted) call is parked before the lock of `_dispatch_new` until the
    second call has set `_original_iterator`; the step it then takes is inspected -- `1:>rel` (took the lock, returned)
    = guarded; it pulls from the input of the second call = not guarded.  `M1L_GUARD=0|1` overrides."""
    if _GUARD_ENV in ("0", "1"):
        return _GUARD_ENV == "1"
    if _GUARD_CACHE[0] is None:
        sc = LScenario(nj=2, bs=(1,), pd=2, abort_drops=False, recheck=False, guard=True,
                       calls=((2, (1,), -1), (2, (), -1)), sched=())
        st = dict(phase=0, k=0, seen=None)

        def pick(acts, kind, x):
            for i, a in enumerate(acts):
                if a == (kind, x):
                    return i
            # the tree under test does not follow the expected protocol: give up (drain), the probe cannot classify it
            st["lost"] = f"phase {st['phase']}: wanted {(kind, x)}, enabled {acts}"
            st["phase"] = 5
            return len(acts) - 1

        def chooser(acts, run):
            while True:
                if run.steps > 400 and st["phase"] < 5:   # a protocol the probe does not know: stop steering
                    st["lost"] = f"phase {st['phase']}: more than 400 steps"
                    st["phase"] = 5
                ph = st["phase"]
                if ph == 0:      # the caller, until it sleeps in the retrieval loop (both batches are submitted)
                    if run.log[-1] == "0:>sleep":
                        st["phase"] = 1
                        return pick(acts, "c", 0)
                    return pick(acts, "t", 0)
                if ph == 1:      # callback of batch 0: first critical section, batch_completed, parks before _dispatch_new's lock
                    if st["k"] < 4:
                        st["k"] += 1
                        return pick(acts, "t", 1)
                    st["phase"], st["k"] = 2, 0
                    return pick(acts, "c", 0)
                if ph == 2:      # callback of batch 1 (its task fails): registers the error, finishes
                    if 2 not in run.sched.threads:
                        return pick(acts, "t", 2)
                    if run.sched.threads[2].point != "done":
                        return pick(acts, "t", 2)
                    st["phase"] = 3
                    continue
                if ph == 3:      # the caller: raises, enters the second call, until `_iterating = False` of `_start` is done
                    if sum(1 for e in run.log if e.startswith("0:") and e.endswith(">w:_iterating")) == 2 and \
                            not run.log[-1].endswith(">w:_iterating"):
                        st["phase"] = 4
                        return pick(acts, "t", 1)
                    return pick(acts, "t", 0)
                if ph == 4:
                    st["seen"] = run.log[-1]
                    st["phase"] = 5
                return len(acts) - 1

        seen = None
        try:
            r = LRun(sc)
            r.chooser = chooser
            r.execute()
            seen = st["seen"] if (r.status == "ok" and "lost" not in st) else f"{r.status}; {st.get('lost', st['seen'])}"
        except Exception as e:  # noqa: BLE001 -- a probe never turns a changed tree into an infrastructure error
            seen = f"{type(e).__name__}"
        if seen == "1:>rel":
            _GUARD_CACHE[0] = True
        elif isinstance(seen, str) and seen.startswith("1:") and (seen.startswith("1:pull") or seen.endswith(">submit") or seen.endswith(">bs")):
            _GUARD_CACHE[0] = False
        else:
            # cannot classify: follow the variant of the current /repo and let the step-log comparison and the oracles
            # report whatever is different in the tree under test
            _GUARD_CACHE[0] = True
            _PROBE_NOTES.append(f"m1l: the _dispatch_new probe could not classify the tree under test (saw {seen!r}); "
                                f"the model follows the variant dispatch_new_guard=True")
    return _GUARD_CACHE[0]


STEP_WAIT = 20.0  # seconds a single step may take before the run is declared stuck (real blocking = harness/impl bug)


class TaskBoom(Exception):
    pass


class IterBoom(Exception):
    pass


class _Abandon(BaseException):
    """Raised inside scheduled threads of an abandoned run so that they unwind and exit."""


# ---------------------------------------------------------------- scenario data


@dataclass
class LScenario:
    nj: int = 2
    bs_auto: bool = False
    bs: tuple = (1,)      # auto: scripted compute_batch_size() values (last repeats); fixed: (k,)
    pd_mode: int = 0      # 0 int, 1 'all', 2 expression
    pd: int = 2           # the value pre_dispatch evaluates to
    pd_expr: str = ""
    ra: int = 0           # 0 list, 1 generator (ordered), 2 generator_unordered
    abort_drops: bool = True
    recheck: bool = False  # which code variant the MODEL follows: `_wait_retrieval` re-reads `_aborting` before returning
    #                        False (the F49 repair). Generated scenarios take `recheck_default()` (a probe of the tree).
    calls: tuple = ()     # tuple of (n, fail_positions, iterfail); more than one call = model M1L-Seq (drv_m1lseq)
    sched: tuple = ()
    seq_callbacks: bool = False  # backend-contract variant (model M1L-Seq): callbacks run one at a time (a single callback
    #                              thread, as in the dask backend's event loop): a batch completes only when no callback
    #                              thread is active
    guard: bool = True    # which code variant the M1L-Seq MODEL follows: `_dispatch_new` tests the call id under the lock
    #                       (the F50 repair). Generated scenarios take `guard_default()` (a probe of the tree).
    timeout: int = -1     # `Parallel(timeout=…)` in ticks of the fake clock (one tick per `time.sleep` of the retrieval
    #                       loop); -1 = None.  `ra == 2` or a timeout = model M1LU (`drv_m1lu`)
    ctl: tuple = ()       # M1LU: scripted picks of `next(iter(self._jobs_set))` (value v -> element v % len in insertion
    #                       order, last value repeats, () = always the oldest)
    fine_from: int = -1   # failing-input search (oracle only, no model): the first `fine_from` steps are forced by `sched` at
    #                       the models' granularity; from then on EVERY lock operation (also the re-entrant ones) and every
    #                       access to a shared attribute (also by the lock owner) is a scheduling point and the policy
    #                       `park` decides.  -1 = a normal scenario
    park: tuple = ()      # (tid, k, base): thread `tid` is frozen after its k-th step of the fine phase while the others run
    #                       to their end (base 0: last enabled first = drain; 1: first enabled first); it resumes when nobody
    #                       else can move (or the caller only polls)

    def tokens(self):
        t = [self.nj, int(self.bs_auto), len(self.bs), *self.bs, self.pd_mode, self.pd, self.ra, int(self.abort_drops),
             int(self.recheck), len(self.calls)]
        for (n, fail, iterfail) in self.calls:
            t += [n, len(fail), *fail, iterfail]
        t += [len(self.sched), *self.sched]
        return t

    def line(self):
        return " ".join(str(x) for x in self.tokens())

    def tokens_seq(self):
        """Request line of `drv_m1lseq` (any number of calls; code variants `recheck`, `guard`; contract variant)."""
        t = [self.nj, int(self.bs_auto), len(self.bs), *self.bs, self.pd_mode, self.pd, self.ra, int(self.abort_drops),
             int(self.recheck), int(self.guard), int(self.seq_callbacks), len(self.calls)]
        for (n, fail, iterfail) in self.calls:
            t += [n, len(fail), *fail, iterfail]
        t += [len(self.sched), *self.sched]
        return t

    def line_seq(self):
        return " ".join(str(x) for x in self.tokens_seq())

    def tokens_u(self):
        """Request line of `drv_m1lu` (one call; `generator_unordered` and / or a timeout)."""
        (n, fail, iterfail), = self.calls
        return [self.nj, int(self.bs_auto), len(self.bs), *self.bs, self.pd_mode, self.pd, self.ra, int(self.abort_drops),
                int(self.recheck), self.timeout, len(self.ctl), *self.ctl, 1, n, len(fail), *fail, iterfail,
                len(self.sched), *self.sched]

    def line_u(self):
        return " ".join(str(x) for x in self.tokens_u())

    def use_u(self):
        """Compared with M1LU (`drv_m1lu`): one call with `generator_unordered` and / or a timeout."""
        return (self.ra == 2 or self.timeout >= 0) and len(self.calls) == 1 and not self.seq_callbacks

    def use_seq(self):
        """Compared with M1L-Seq (`drv_m1lseq`) rather than with M1L (`drv_m1l`, one call, every callback its own thread)."""
        return len(self.calls) != 1 or self.seq_callbacks

    def to_json(self):
        return dict(nj=self.nj, bs_auto=self.bs_auto, bs=list(self.bs), pd_mode=self.pd_mode, pd=self.pd,
                    pd_expr=self.pd_expr, ra=self.ra, abort_drops=self.abort_drops, recheck=self.recheck,
                    calls=[[n, list(f), i] for (n, f, i) in self.calls], sched=list(self.sched),
                    seq_callbacks=self.seq_callbacks, guard=self.guard, timeout=self.timeout, ctl=list(self.ctl),
                    fine_from=self.fine_from, park=list(self.park))

    def oracle_only(self):
        return not self.calls or self.fine_from >= 0 or ((self.ra == 2 or self.timeout >= 0) and not self.use_u())

    @staticmethod
    def from_json(d):
        return LScenario(nj=d["nj"], bs_auto=d["bs_auto"], bs=tuple(d["bs"]), pd_mode=d["pd_mode"], pd=d["pd"],
                         pd_expr=d.get("pd_expr", ""), ra=d["ra"], abort_drops=d["abort_drops"], recheck=bool(d["recheck"]) if "recheck" in d else recheck_default(),
                         calls=tuple((c[0], tuple(c[1]), c[2]) for c in d["calls"]), sched=tuple(d["sched"]),
                         seq_callbacks=bool(d.get("seq_callbacks", False)),
                         guard=bool(d["guard"]) if "guard" in d else guard_default(),
                         timeout=int(d.get("timeout", -1)), ctl=tuple(d.get("ctl", ())),
                         fine_from=int(d.get("fine_from", -1)), park=tuple(d.get("park", ())))


# ---------------------------------------------------------------- the scheduler


class _BinSem:
    """Binary semaphore on a raw lock (strictly alternating hand-offs; far cheaper than threading.Semaphore)."""

    def __init__(self):
        self._l = threading.Lock()
        self._l.acquire()

    def release(self):
        try:
            self._l.release()
        except RuntimeError:
            pass

    def acquire(self, timeout=-1):
        return self._l.acquire(True, timeout)


class _T:
    """A scheduled thread."""

    def __init__(self, tid):
        self.tid = tid
        self.go = _BinSem()
        self.point = "new"      # kind of the scheduling point it is parked at; "done" when finished
        self.events = []        # events emitted during the current step
        self.thread = None


class Sched:
    def __init__(self):
        self.threads = {}           # tid -> _T
        self.by_ident = {}
        self.ctl = _BinSem()
        self.lock_owner = None      # tid
        self.lock_depth = 0
        self.abandoned = False
        self.cur = None             # the _T that is running now (None: the controller)
        self.fine = False           # failing-input search: re-entrant lock operations and accesses by the lock owner park too

    def me(self):
        return self.by_ident.get(threading.get_ident())

    def emit(self, ev):
        t = self.me()
        if t is not None:
            t.events.append(ev)
            return t.tid
        return None

    def yield_point(self, kind):
        t = self.me()
        if t is None:
            return  # not a scheduled thread (the harness' own thread)
        if self.abandoned:
            raise _Abandon()
        t.point = kind
        self.ctl.release()
        t.go.acquire()
        if self.abandoned:
            raise _Abandon()

    def spawn(self, tid, fn):
        """Create thread `tid` running `fn` and wait until it is parked at its first scheduling point (or done)."""
        t = _T(tid)
        self.threads[tid] = t

        def body():
            self.by_ident[threading.get_ident()] = t
            try:
                fn()
            except _Abandon:
                pass
            finally:
                t.point = "done"
                self.by_ident.pop(threading.get_ident(), None)
                self.ctl.release()

        t.thread = threading.Thread(target=body, daemon=True, name=f"m1l-{tid}")
        self.cur = t
        t.thread.start()
        ok = self.ctl.acquire(timeout=STEP_WAIT)
        self.cur = None
        return t if ok else None

    def resume(self, t):
        """Let `t` run one step. Returns False if it did not reach a scheduling point in time."""
        t.events = []
        self.cur = t
        t.go.release()
        ok = self.ctl.acquire(timeout=STEP_WAIT)
        self.cur = None
        return ok

    def runnable(self, t):
        if t.point == "done":
            return False
        if t.point == "acq":
            return self.lock_owner is None
        return True

    def abandon(self):
        self.abandoned = True
        for t in self.threads.values():
            if t.point != "done":
                t.go.release()


class SchedLock:
    """Re-entrant lock kept as scheduler state. Only the outermost acquire / release are scheduling points."""

    def __init__(self, sched):
        self.s = sched

    def acquire(self, blocking=True, timeout=-1):
        s = self.s
        t = s.me()
        if t is None:
            # unscheduled thread (harness): only legal while nobody holds the lock
            return True
        if s.lock_owner == t.tid:
            s.lock_depth += 1
            if s.fine:
                s.yield_point("acq+")
            return True
        s.yield_point("acq")
        assert s.lock_owner is None, "scheduler let a thread through a held lock"
        s.lock_owner = t.tid
        s.lock_depth = 1
        return True

    def release(self):
        s = self.s
        t = s.me()
        if t is None:
            return
        assert s.lock_owner == t.tid, "release of a lock that is not owned"
        s.lock_depth -= 1
        if s.lock_depth == 0:
            s.lock_owner = None
            s.yield_point("rel")
        elif s.fine:
            s.yield_point("rel+")

    __enter__ = acquire

    def __exit__(self, *a):
        self.release()

    def _is_owned(self):
        t = self.s.me()
        return t is not None and self.s.lock_owner == t.tid

    def owned_by_me(self):
        return self._is_owned()


class _Shared:
    """Data descriptor: an access without the lock by a scheduled thread is a scheduling point (before the access)."""

    def __init__(self, name, run_of):
        self.name = name
        self.slot = "_m1l_" + name
        self.run_of = run_of

    def __get__(self, obj, typ=None):
        if obj is None:
            return self
        run = self.run_of(obj)
        if run is not None:
            run.access(self.name, "r")
        try:
            return obj.__dict__[self.slot]
        except KeyError:
            raise AttributeError(self.name) from None

    def __set__(self, obj, v):
        run = self.run_of(obj)
        if run is not None:
            run.access(self.name, "w")
        obj.__dict__[self.slot] = v

    def __delete__(self, obj):
        obj.__dict__.pop(self.slot, None)


class _OSet:
    """Insertion-ordered stand-in for the `set` bound to `Parallel._jobs_set` (M1LU runs only).  `next(iter(s))` of a
    real set picks an element by hash order (addresses): here the iteration starts at the element the scenario's script
    `ctl` says (value v -> element v % len in insertion order), so every pick can be forced and the model can follow."""

    def __init__(self, run, items=()):
        self.run = run
        self.d = dict.fromkeys(items)

    def add(self, x):
        self.d[x] = None

    def remove(self, x):
        del self.d[x]

    def discard(self, x):
        self.d.pop(x, None)

    def __contains__(self, x):
        return x in self.d

    def __len__(self):
        return len(self.d)

    def __iter__(self):
        run = self.run
        script = run.sc.ctl
        v = script[min(run.ctl_i, len(script) - 1)] if script else 0
        run.ctl_i += 1
        items = list(self.d)
        if not items:
            return iter(())
        k = v % len(items)
        return iter(items[k:] + items[:k])


class _SharedSet(_Shared):
    """`_jobs_set` (M1LU runs): an unlocked access is a scheduling point; the set that is bound is made insertion-ordered."""

    def __set__(self, obj, v):
        run = self.run_of(obj)
        if run is not None:
            run.access(self.name, "w")
            if not isinstance(v, _OSet):
                v = _OSet(run, v)
        obj.__dict__[self.slot] = v


_CURRENT = [None]  # the LRun in progress (one at a time per process)


class _FakeTime:
    def __init__(self, run):
        self.run = run

    def time(self):
        # the fake clock: one tick per `time.sleep` of the retrieval loop (read by `get_status` for the timeout)
        return float(self.run.n_sleep)

    def sleep(self, _dt):
        self.run.n_sleep += 1
        self.run.sched.yield_point("sleep")


class LRun:
    MAX_STEPS = 6000

    def __init__(self, sc: LScenario):
        self.sc = sc
        self.sched = Sched()
        self.log = []            # step log: "tid:ev;ev>point"
        self.parked = []         # (func, callback, ids, batch_no)
        self.n_submitted = 0
        self.bs_i = 0
        self.exec_count = {}
        self.in_next = None      # tid inside the input iterator
        self.reentered = False
        self.pull_not_owner = []
        self.outcomes = []       # per call: ("ret", list) | ("raise", name) | ("gen", list)
        self.status = "ok"       # ok | hang | deadlock | stuck
        self.n_sleep = 0
        self.par = None
        self.choice_i = 0
        self.steps = 0
        self.max_enabled = 0
        self.cb_errors = []
        self.pull_after_abort = []
        self.chooser = None      # optional adaptive policy (acts, run) -> index, instead of `sc.sched` (probes only)
        self.ctl_i = 0           # M1LU: number of iterations over `_jobs_set` so far (index into `sc.ctl`)
        self.step_of_log = []    # step number that produced each entry of `log`
        self.tsteps = {}         # fine phase: steps taken by each thread
        self.released = False    # fine phase: the parked thread runs freely again
        self.idle_polls = 0      # fine phase: consecutive caller steps that ended in `sleep` with nobody else moving
        self.reg_order = []      # batches (task ids) in the order in which their callbacks entered the registration

    # --- instrumentation callbacks
    def access(self, name, rw):
        s = self.sched
        t = s.me()
        if t is None:
            return
        if s.lock_owner == t.tid:
            if s.fine:
                s.yield_point("L" + rw + ":" + name)
            return
        s.yield_point(rw + ":" + name)

    def emit(self, ev):
        return self.sched.emit(ev)

    # --- the run
    def execute(self):
        joblib = core.use_repo()
        import joblib.parallel as jp
        from joblib._parallel_backends import ParallelBackendBase

        run = self
        sc = self.sc
        sched = self.sched

        class Ctl(ParallelBackendBase):
            supports_retrieve_callback = True
            supports_timeout = True
            uses_threads = True
            supports_sharedmem = True

            def effective_n_jobs(self, n_jobs):
                return sc.nj

            def configure(self, n_jobs=1, parallel=None, **kw):
                self.parallel = parallel
                return sc.nj

            def start_call(self):
                pass

            def stop_call(self):
                pass

            def terminate(self):
                pass

            def compute_batch_size(self):
                sched.yield_point("bs")
                v = sc.bs[min(run.bs_i, len(sc.bs) - 1)]
                run.bs_i += 1
                return v

            def batch_completed(self, batch_size, duration):
                sched.yield_point("stats")

            def submit(self, func, callback=None):
                sched.yield_point("submit")
                ids = [a[0] for (_, a, _) in func.items]
                run.emit("submit " + ",".join(map(str, ids)))
                run.parked.append((func, callback, ids, run.n_submitted))
                run.n_submitted += 1
                return object()

            def retrieve_result_callback(self, out):
                sched.yield_point("retr")
                run.reg_order.append(getattr(out, "m1l_ids", None) if isinstance(out, BaseException) else list(out))
                if isinstance(out, BaseException):
                    raise out
                return out

            def abort_everything(self, ensure_ready=True):
                sched.yield_point("abort")
                run.emit("abort")
                if sc.abort_drops:
                    run.parked.clear()

        def task(tid, fails):
            run.exec_count[tid] = run.exec_count.get(tid, 0) + 1
            if fails:
                raise TaskBoom(tid)
            return tid

        def src(base, n, fail, iterfail):
            for i in range(n + 1):
                me = sched.me()
                mtid = me.tid if me is not None else -1
                if run.in_next is not None:
                    run.reentered = True
                run.in_next = mtid
                try:
                    if me is not None and sched.lock_owner != mtid:
                        run.pull_not_owner.append((mtid, base + i))
                    if i == iterfail:
                        run.emit("pullraise")
                        raise IterBoom(base + i)
                    if i == n:
                        return
                    run.emit(f"pull {base + i}")
                    if run.par is not None and run.par.__dict__.get("_m1l__aborting"):
                        run.pull_after_abort.append(base + i)
                finally:
                    run.in_next = None
                yield joblib.delayed(task)(base + i, i in fail)

        run_of = lambda obj: _CURRENT[0]  # noqa: E731

        class P(jp.Parallel):
            pass

        for f in X_FIELDS:
            setattr(P, f, _Shared(f, run_of))
        if sc.use_u():
            P._jobs_set = _SharedSet("_jobs_set", run_of)
        saved_status = jp.BatchCompletionCallBack.__dict__.get("status", None)
        jp.BatchCompletionCallBack.status = _Shared("status", run_of)
        saved_time = jp.time
        jp.time = _FakeTime(self)
        _CURRENT[0] = self
        saved_si = sys.getswitchinterval()
        sys.setswitchinterval(1e-5)  # hand-offs between the controller and the scheduled threads go through the GIL
        try:
            with warnings.catch_warnings():
                warnings.simplefilter("ignore")
                be = Ctl(nesting_level=0)
                pd = "all" if sc.pd_mode == 1 else (sc.pd_expr if sc.pd_mode == 2 else sc.pd)
                par = P(n_jobs=sc.nj, backend=be, batch_size=("auto" if sc.bs_auto else sc.bs[0]), pre_dispatch=pd,
                        return_as=["list", "generator", "generator_unordered"][sc.ra],
                        timeout=(sc.timeout if sc.timeout >= 0 else None))
                par._lock = SchedLock(sched)
                self.par = par

                def caller():
                    base = 0
                    for cno, (n, fail, iterfail) in enumerate(sc.calls):
                        try:
                            out = par(src(base, n, fail, iterfail))
                            if sc.ra == 0:
                                run.emit("ret " + ",".join(map(str, out)))
                                run.outcomes.append(("ret", list(out)))
                            else:
                                got = []
                                try:
                                    for v in out:
                                        run.emit(f"yield {v}")
                                        got.append(v)
                                    run.emit("stop")
                                    run.outcomes.append(("gen", got))
                                except _Abandon:
                                    raise
                                except BaseException as e:  # noqa: BLE001
                                    run.emit("raise " + _exc_name(e))
                                    run.outcomes.append(("raise", _exc_name(e), got))
                        except _Abandon:
                            raise
                        except BaseException as e:  # noqa: BLE001
                            run.emit("raise " + _exc_name(e))
                            run.outcomes.append(("raise", _exc_name(e), []))
                        base += n

                self._loop(caller)
                self.step_of_log += [self.steps] * (len(self.log) - len(self.step_of_log))
        finally:
            _CURRENT[0] = None
            sys.setswitchinterval(saved_si)
            jp.time = saved_time
            if saved_status is None:
                try:
                    del jp.BatchCompletionCallBack.status
                except AttributeError:
                    pass
            else:
                jp.BatchCompletionCallBack.status = saved_status
            if self.status != "ok":
                sched.abandon()
        return self

    def _enabled(self):
        s = self.sched
        acts = []
        for tid in sorted(s.threads):
            t = s.threads[tid]
            if s.runnable(t):
                acts.append(("t", tid))
        if self.sc.seq_callbacks and any(tid != 0 and t.point != "done" for tid, t in s.threads.items()):
            return acts
        for k in range(len(self.parked)):
            acts.append(("c", k))
        return acts

    def _park_choice(self, acts):
        """Fine phase of a failing-input search run: thread `park[0]` is frozen once it has taken `park[1]` steps of this
        phase; the other threads and the backend run on (base 0: last enabled action first, i.e. completions, then
        callbacks, then the caller; base 1: first enabled first, i.e. the caller, then callbacks, then completions); a
        caller that is only polling (parked at `time.sleep`) always comes last, so that it makes one pass of its loop
        after every step of somebody else; the frozen thread resumes -- for good -- when nobody else can move and the caller has made two idle passes."""
        tid, k, base = (tuple(self.sc.park) + (0, 0, 0))[:3] if self.sc.park else (-1, 0, 0)
        order = list(range(len(acts)))
        if base != 1:
            order.reverse()
        t0 = self.sched.threads.get(0)
        polling = t0 is not None and t0.point == "sleep"
        frozen = tid >= 0 and not self.released and self.tsteps.get(tid, 0) >= k
        cand = [i for i in order if not (frozen and acts[i] == ("t", tid)) and not (polling and acts[i] == ("t", 0))]
        if cand:
            return cand[0]
        if polling and ("t", 0) in acts and (self.idle_polls < 2 or not (frozen and ("t", tid) in acts)):
            return acts.index(("t", 0))      # one more pass of the caller's polling loop
        if frozen and ("t", tid) in acts:
            self.released = True
            return acts.index(("t", tid))
        return order[0]

    def _loop(self, caller):
        s = self.sched
        sc = self.sc
        t0 = s.spawn(0, caller)
        if t0 is None:
            self.status = "stuck"
            return
        self.log.append(f"0:{';'.join(t0.events)}>{t0.point}")
        t0.events = []
        while True:
            self.step_of_log += [self.steps] * (len(self.log) - len(self.step_of_log))
            acts = self._enabled()
            if not acts:
                if any(t.point != "done" for t in s.threads.values()):
                    self.status = "deadlock"
                    self.log.append("deadlock")
                break
            self.max_enabled = max(self.max_enabled, len(acts))
            if self.steps >= self.MAX_STEPS:
                self.status = "hang"
                self.log.append("hang")
                break
            self.steps += 1
            fine_phase = sc.fine_from >= 0 and self.steps > sc.fine_from
            if fine_phase:
                s.fine = True
            if self.chooser is not None:
                kind, x = acts[self.chooser(acts, self)]
            elif fine_phase:
                kind, x = acts[self._park_choice(acts)]
                if kind == "t":
                    self.tsteps[x] = self.tsteps.get(x, 0) + 1
            elif self.choice_i < len(sc.sched):
                c = sc.sched[self.choice_i]
                self.choice_i += 1
                kind, x = acts[c % len(acts)]
            else:
                kind, x = acts[-1]
            if kind == "t":
                t = s.threads[x]
                if not s.resume(t):
                    self.status = "stuck"
                    self.log.append("stuck")
                    break
                self.log.append(f"{x}:{';'.join(t.events)}>{t.point}")
                if fine_phase:
                    # the caller only polls (`sleep` again and nobody else moved): the parked thread has to go on
                    if x == 0 and t.point == "sleep":
                        self.idle_polls += 1
                    elif x != 0:
                        self.idle_polls = 0
            else:
                self.idle_polls = 0
                func, cb, ids, bno = self.parked.pop(x)
                try:
                    out = func()
                except BaseException as e:  # noqa: BLE001
                    out = e
                    try:
                        out.m1l_ids = list(ids)
                    except Exception:  # noqa: BLE001
                        pass
                self.log.append("E:complete " + ",".join(map(str, ids)))

                def cbrun(cb=cb, out=out, bno=bno):
                    try:
                        cb(out)
                    except _Abandon:
                        raise
                    except BaseException as e:  # noqa: BLE001
                        self.cb_errors.append((bno, _exc_name(e)))
                        self.emit("cb-exc " + _exc_name(e))

                t = s.spawn(1 + bno, cbrun)
                if t is None:
                    self.status = "stuck"
                    self.log.append("stuck")
                    break
                self.log.append(f"{1 + bno}:{';'.join(t.events)}>{t.point}")


def _park_choice_doc():
    """(see LRun._park_choice)"""


def _exc_name(e):
    if isinstance(e, (TaskBoom, IterBoom)):
        return f"{type(e).__name__}({e.args[0]})"
    return type(e).__name__


def run_scenario(sc: LScenario) -> LRun:
    return LRun(sc).execute()


# ---------------------------------------------------------------- generator, oracles, correspondence

EXPRS = ["n_jobs", "2*n_jobs", "1.5*n_jobs", "3*n_jobs//2", "n_jobs+1", "-1+n_jobs*2"]


def gen_scenario(rng, big=False) -> LScenario:
    nj = rng.choice([2, 2, 2, 3, 4])
    bs_auto = rng.random() < 0.5
    if bs_auto:
        bs = tuple(rng.choice([1, 1, 2, 2, 3]) for _ in range(rng.randint(1, 5)))
    else:
        bs = (rng.choice([1, 1, 1, 2, 3]),)
    r = rng.random()
    pd_expr = ""
    if r < 0.2:
        pd_mode, pd = 1, 0
    elif r < 0.35:
        pd_mode = 2
        pd_expr = rng.choice(EXPRS)
        pd = int(eval(pd_expr.replace("n_jobs", str(nj)), {"__builtins__": {}}, {}))  # noqa: S307
    else:
        pd_mode = 0
        pd = rng.choice([1, 1, 2, 2, 3, nj, 2 * nj, 2 * nj + 1, 5])
    bmax = max(bs)
    bounds = [0, 1, 2, max(pd - 1, 0), pd, pd + 1, bmax * nj, bmax * nj + 1, pd + bmax * nj]
    n = rng.choice(bounds) if rng.random() < 0.4 else rng.randint(0, 24 if big else 12)
    n = min(n, 30)
    fail = ()
    if n and rng.random() < 0.3:
        fail = tuple(sorted({rng.randrange(n) for _ in range(rng.choice([1, 1, 2]))}))
    iterfail = rng.randrange(n + 1) if rng.random() < 0.22 else -1
    style = rng.random()
    ns = rng.choice([0, 10, 40, 80, 150, 300, 600])
    if style < 0.25:
        sched = tuple(rng.randrange(8) for _ in range(ns))                     # uniform
    elif style < 0.5:
        sched = tuple(0 if rng.random() < 0.7 else rng.randrange(8) for _ in range(ns))   # caller first
    elif style < 0.75:
        sched = tuple(rng.choice([1, 2, 3, 5, 7]) if rng.random() < 0.7 else 0 for _ in range(ns))  # others first
    else:
        # bursts: the same choice repeated (lets one thread run several steps in a row)
        out = []
        while len(out) < ns:
            out += [rng.randrange(6)] * rng.randint(1, 6)
        sched = tuple(out[:ns])
    return LScenario(nj=nj, bs_auto=bs_auto, bs=bs, pd_mode=pd_mode, pd=pd, pd_expr=pd_expr, ra=rng.choice([0, 0, 1]),
                     abort_drops=rng.random() < 0.6, recheck=recheck_default(), calls=((n, fail, iterfail),), sched=sched)


def gen_scenario_u(rng, big=False) -> LScenario:
    """One call with `return_as='generator_unordered'` and / or a timeout (model M1LU): the single-call generator, then
    the mode, the timeout in ticks (small, so that caller-first schedules run into it), the script of control-job picks,
    and for half of the timeout scenarios a stretch that prefers the caller (it waits while the batches are parked)."""
    import dataclasses
    sc = gen_scenario(rng, big=big)
    ra = rng.choice([2, 2, 2, 2, 0, 1])
    timeout = -1
    if ra != 2 or rng.random() < 0.5:
        timeout = rng.choice([0, 0, 1, 1, 2, 3, 5, 8])
    ctl = tuple(rng.randrange(5) for _ in range(rng.randint(0, 4)))
    sched = list(sc.sched)
    if timeout >= 0 and rng.random() < 0.5:
        k = rng.randrange(len(sched) + 1)
        p = rng.choice([0.85, 0.95, 1.0])
        sched[k:k] = [0 if rng.random() < p else rng.randrange(1, 6) for _ in range(rng.randint(20, 40 + 14 * timeout))]
    return dataclasses.replace(sc, ra=ra, timeout=timeout, ctl=ctl, sched=tuple(sched))


def preemptions(log):
    """Number of times a thread that was not finished and not blocked was followed by another thread."""
    k, prev, prev_pt = 0, None, None
    for e in log:
        if ":" not in e or e[0] == "E":
            continue
        tid, rest = e.split(":", 1)
        pt = rest.rsplit(">", 1)[-1]
        if prev is not None and tid != prev and prev_pt != "done":
            k += 1
        prev, prev_pt = tid, pt
    return k


def oracle(run):
    """Model-independent judgement of the implementation. -> list of (signature, detail). Signatures are stable
    strings (no ids / addresses). Handles several calls on one object (task ids of call k start at the sum of the
    earlier calls' sizes)."""
    sc = run.sc
    out = []
    if run.status != "ok":
        out.append((f"{run.status}", f"run ended with status {run.status} after {run.steps} steps"))
        return out
    if len(run.outcomes) != len(sc.calls):
        out.append(("no-outcome", f"{len(run.outcomes)} outcomes for {len(sc.calls)} calls"))
        return out
    if run.reentered:
        out.append(("iterator-reentered", "a second thread entered the input iterator while another was inside"))
    if run.pull_not_owner:
        out.append(("pull-without-lock", f"items pulled by a thread that did not own the lock: {run.pull_not_owner[:4]}"))
    if run.pull_after_abort and len(sc.calls) == 1:
        out.append(("pull-after-abort", f"items pulled after _aborting was set: {run.pull_after_abort[:4]}"))
    if run.cb_errors:
        out.append(("callback-exception", f"exceptions escaped completion callbacks: {run.cb_errors[:4]}"))
    twice = sorted(t for t, k in run.exec_count.items() if k > 1)
    if twice:
        out.append(("executed-twice", f"tasks executed more than once: {twice[:6]}"))
    base = 0
    earlier_raised = False
    n_sleep = getattr(run, "n_sleep", 0)
    if sc.timeout >= 0 and len(sc.calls) == 1:
        w = longest_wait(run.log)
        o = run.outcomes[0]
        if w >= sc.timeout + 2 and not (o[0] == "raise" and o[1] == "TimeoutError"):
            out.append(("timeout-missing", f"the caller looked at one pending result in {w} consecutive sleeping iterations "
                                           f"while no other thread ran (timeout = {sc.timeout} ticks), but the call ended with {o!r}"))
    if sc.ra == 2 and len(sc.calls) == 1:
        o = run.outcomes[0]
        got = list(o[1]) if o[0] != "raise" else list(o[2])
        flat = [x for b in getattr(run, "reg_order", []) for x in (b or [])]
        if got != flat[:len(got)]:
            out.append(("unordered-order", f"yielded {got[:12]!r}, but the batches registered their completion in the order "
                                           f"{getattr(run, 'reg_order', [])[:8]!r}"))
    for cno, ((n, fail, iterfail), o) in enumerate(zip(sc.calls, run.outcomes)):
        must_fail = bool(fail) or iterfail >= 0
        where = f"call {cno}: " if len(sc.calls) > 1 else ""
        if o[0] == "raise" and o[1] == "TimeoutError":
            # legitimate only with a timeout and after more than `timeout` ticks of the clock (one tick per sleep)
            if not (sc.timeout >= 0 and n_sleep > sc.timeout):
                out.append(("spurious-timeout", f"{where}TimeoutError with timeout={sc.timeout} after {n_sleep} sleeps"))
            earlier_raised = True
            base += n
            continue
        if must_fail:
            if o[0] != "raise":
                what = "task" if any(run.exec_count.get(base + f, 0) for f in fail) else "iterator"
                out.append((f"error-swallowed:{what}", f"{where}a failing {what} step, but the call ended with {o!r}"))
            else:
                name = o[1]
                ok = any(name == f"TaskBoom({base + f})" for f in fail) or (iterfail >= 0 and name == f"IterBoom({base + iterfail})")
                if not ok:
                    out.append(("wrong-exception", f"{where}raised {name}, not an exception of a failing task / the iterator"))
        else:
            bad = None
            if o[0] == "raise":
                bad = f"nothing fails, but the call raised {o[1]}"
            elif (sorted(o[1]) if sc.ra == 2 else list(o[1])) != list(range(base, base + n)):
                bad = f"returned {o[1]!r}, expected range({base}, {base + n})"
            if bad:
                if earlier_raised:
                    # a clean call after an aborted one on the same object: leftovers of the aborted call interfere
                    out.append(("stale-dispatch-new", f"{where}{bad} (an earlier call on this object was aborted)"))
                else:
                    out.append(("spurious-raise" if o[0] == "raise" else "wrong-result", where + bad))
            else:
                missing = [t for t in range(base, base + n) if run.exec_count.get(t, 0) != 1]
                if missing:
                    out.append(("not-executed-once", f"{where}tasks not executed exactly once: {missing[:6]}"))
        earlier_raised = earlier_raised or o[0] == "raise"
        base += n
    return out


def longest_wait(log):
    """Largest number of CONSECUTIVE iterations of the retrieval loop that read the status of a result and then slept,
    inside a stretch of the log in which only the caller ran (so it is the same, still pending, head / control job, and
    its counter started at the first of these iterations at the latest).  Reads only the kinds of scheduling points."""
    best = cnt = 0
    saw_status = False
    for e in log:
        if ":" not in e:
            continue
        tid, rest = e.split(":", 1)
        if tid != "0":
            cnt, saw_status = 0, False
            continue
        pt = rest.rsplit(">", 1)[-1]
        if pt == "r:_jobs":
            saw_status = False
        elif pt == "r:status":
            saw_status = True
        elif pt == "acq":
            cnt = 0
        elif pt == "sleep":
            cnt = cnt + 1 if saw_status else 0
            saw_status = False
            best = max(best, cnt)
    return best


# which property an oracle signature belongs to (run_lock_scenarios reports a failure to `prop` only if listed)
SIG_PROPS = {
    "hang": ("C01", "C04", "C16"), "deadlock": ("C01", "C04", "C16"), "stuck": ("C01", "C04", "C16"), "no-outcome": ("C01", "C04", "C16"),
    "wrong-result": ("C01", "C16"), "executed-twice": ("C01", "C16"), "not-executed-once": ("C01", "C16"), "spurious-raise": ("C01", "C04", "C16"),
    "error-swallowed:iterator": ("C04",), "error-swallowed:task": ("C04",), "wrong-exception": ("C04",),
    "callback-exception": ("C04",), "stale-dispatch-new": ("C04", "C16"),
    "iterator-reentered": ("C09",), "pull-without-lock": ("C09",), "pull-after-abort": ("C09",),
    "unordered-order": ("C16",), "timeout-missing": ("C04",), "spurious-timeout": ("C04",),
}


def _sig_for(prop, sig):
    props = SIG_PROPS.get(sig)
    return props is None or prop not in ("C01", "C04", "C09", "C16") or prop in props


# ---------------------------------------------------------------- corpus (always run first)

def corpus():
    """(name, scenario) — minimised past failures. `recheck` is left to the probe of the tree under test.
    F49: the input iterable raises inside a callback after the caller read `_aborting == False`; must raise IterBoom.
    F50a/F50b/F50c: a clean second call after an aborted first one while a callback of the first call is still between its
    two critical sections (F50b: under the dask-like contract, one callback at a time, `abort_everything` joins nothing;
    F50c: the schedule of the Lean counter-example for the unguarded variant)."""
    rc = recheck_default()
    gd = guard_default()
    f49 = LScenario(nj=2, bs=(1,), pd=2, ra=0, abort_drops=True, recheck=rc, calls=((7, (), 2),),
                    sched=(3, 3, 3, 5, 3, 1, 0, 3, 0, 3, 3, 4, 0, 5, 3, 2, 5, 1, 4, 0, 2, 0, 0, 0, 5, 4, 0, 3, 5, 1, 3, 5, 0,
                           4, 1, 3, 3, 4, 1, 2))
    f50a = LScenario(nj=2, bs=(1,), pd=2, ra=0, abort_drops=False, recheck=rc, guard=gd, calls=((6, (4,), -1), (2, (), -1)),
                     sched=tuple([4, 5, 2, 1, 4, 0, 3, 4, 2, 3, 3, 1, 4, 4, 1, 4, 0, 2, 3, 0, 0, 3, 4, 5, 0, 1, 1, 3, 4, 5, 0,
                                  0, 5, 4, 3, 3, 4, 3, 3, 2, 1, 5, 4, 4, 1, 4, 2, 2, 0, 4, 4, 1, 0, 1, 3, 1] + [0] * 142 +
                                 [1, 0, 0, 4, 3, 1, 5, 5, 3, 3, 1, 1, 0, 5, 0, 2, 1, 0, 5, 4, 2, 4, 0, 2, 2, 3, 1, 5, 4, 1, 0,
                                  2, 5, 1, 5, 5, 5, 4, 3, 4, 0, 4, 0, 1, 5, 4, 0, 1, 5, 0, 5, 1, 4, 4, 5, 0, 2, 1, 5, 0, 2, 2,
                                  1, 0, 4, 3, 5]))
    f50b = LScenario(nj=2, bs=(1,), pd=3, ra=0, abort_drops=True, recheck=rc, guard=gd, seq_callbacks=True,
                     calls=((2, (), 2), (3, (), -1)),
                     sched=tuple([4, 2, 2, 1, 4, 4, 0, 2, 1, 3, 0, 4, 2, 0, 0, 1, 2, 4, 2, 3, 2, 3, 0, 2, 4, 0, 0, 3, 1, 2, 2,
                                  0, 2] + [0] * 59 +
                                 [1, 2, 2, 0, 3, 0, 3, 4, 0, 4, 1, 2, 0, 4, 1, 4, 4, 0, 3, 3, 2, 0, 1, 0, 3, 1, 3, 3, 3, 0, 3,
                                  2, 0, 0, 2, 4, 0, 0, 3, 2, 4, 0, 1, 0, 3, 2, 4, 1, 0, 1, 2, 3]))
    # F50c: the Lean twin `M1LSeq.stale_dispatch_new_counterexample` (`M1LSeq.scU` / `M1LSeq.schedU`): one surviving
    # callback of the aborted first call runs `_dispatch_new` during the set-up of the clean second call.
    f50c = LScenario(nj=2, bs=(1,), pd=2, ra=0, abort_drops=False, recheck=rc, guard=gd, calls=((2, (1,), -1), (2, (), -1)),
                     sched=(1, 1, 3, 3, 2, 3, 2, 3, 0, 3, 3, 3, 3, 0, 2, 0, 3, 1, 0, 3, 0, 0, 1, 2, 0, 1, 2, 0, 0, 0, 0, 0, 0,
                            0, 0, 0, 0, 0, 0, 0, 0, 0, 0, 0, 0, 0, 0, 0, 0, 0, 1, 3, 2, 1, 1, 3, 0, 2, 1, 0, 3, 2, 3, 2, 3, 3,
                            0, 2, 2, 0, 2, 0, 3, 0, 3, 0, 3, 0, 3, 2, 0, 1, 0))
    # call-id window: a callback of the aborted first call takes its `_dispatch_new` step while the second call is in the
    # middle of `_reset_run_tracking` (after `n_completed_tasks = 0`); with the call id drawn first, under the lock, it is
    # a no-op -- if the id were drawn later its batch would be counted for the second call (directed schedule).
    win = LScenario(nj=2, bs=(1,), pd=2, ra=0, abort_drops=False, recheck=rc, guard=gd, calls=((2, (1,), -1), (2, (), -1)),
                    sched=tuple([0] * 29 + [1, 1, 1, 1, 1, 2, 2, 1, 2] + [0] * 15 + [1] + [0] * 25 + [2] * 7 + [0] * 14))
    return [("F49-iterator-error-after-aborting-read", f49), ("F50a-stale-dispatch-new", f50a),
            ("F50b-stale-dispatch-new-single-callback-thread", f50b), ("F50c-stale-dispatch-new-lean-twin", f50c),
            ("call-id-window-stale-count", win)]


def gen_multicall(rng):
    """Two or three calls on one object, the earlier ones aborted (task or iterator failure), with a long caller-only
    stretch so that callbacks of the aborted call are still alive when the next call starts (model M1L-Seq)."""
    nj = rng.choice([2, 2, 3])
    ncalls = rng.choice([2, 2, 3])
    calls = []
    for k in range(ncalls):
        n = rng.randint(1, 6)
        last = k == ncalls - 1
        fail, iterfail = (), -1
        if not last or rng.random() < 0.2:
            if rng.random() < 0.5:
                fail = (rng.randrange(n),)
            else:
                iterfail = rng.randint(1, n)
        calls.append((n, fail, iterfail))
    pre = [rng.randrange(6) for _ in range(rng.randint(10, 70))]
    mid = [0] * rng.randint(40, 200)
    post = [rng.randrange(6) for _ in range(rng.randint(0, 100))]
    return LScenario(nj=nj, bs=(rng.choice([1, 1, 2]),), pd=rng.choice([1, 2, 2, 3, 4, 6]), ra=0,
                     abort_drops=rng.random() < 0.5, recheck=recheck_default(), guard=guard_default(), calls=tuple(calls),
                     sched=tuple(pre + mid + post), seq_callbacks=rng.random() < 0.5)


def gen_multicall_alive(rng):
    """Two to four calls on one object with failing / aborted EARLIER calls whose callbacks and parked batches are kept
    alive (mostly `abort_drops=False`) and interleave with the later calls: per call a random stretch, then a stretch that
    strongly prefers the caller (it finishes the call and goes through the reset of the next one while the callbacks of the
    finished call are parked wherever they were), then again random choices so that the stale threads take their steps
    in the middle of the next call's reset, dispatch and retrieval.  All batch-size / pre_dispatch / return_as modes of
    the model."""
    nj = rng.choice([2, 2, 3])
    ncalls = rng.choice([2, 2, 2, 3, 3, 4])
    bs_auto = rng.random() < 0.3
    if bs_auto:
        bs = tuple(rng.choice([1, 1, 2, 2, 3]) for _ in range(rng.randint(1, 5)))
    else:
        bs = (rng.choice([1, 1, 1, 2]),)
    r = rng.random()
    pd_expr = ""
    if r < 0.15:
        pd_mode, pd = 1, 0
    elif r < 0.25:
        pd_mode = 2
        pd_expr = rng.choice(EXPRS)
        pd = int(eval(pd_expr.replace("n_jobs", str(nj)), {"__builtins__": {}}, {}))  # noqa: S307
    else:
        pd_mode, pd = 0, rng.choice([1, 1, 2, 2, 3, nj, 2 * nj])
    calls = []
    sched = []
    for k in range(ncalls):
        n = rng.randint(0, 7) if rng.random() < 0.9 else rng.randint(8, 12)
        last = k == ncalls - 1
        fail, iterfail = (), -1
        if rng.random() < (0.25 if last else 0.8):
            if n and rng.random() < 0.6:
                fail = tuple(sorted({rng.randrange(n) for _ in range(rng.choice([1, 1, 2]))}))
            else:
                iterfail = rng.randint(0, n)
        calls.append((n, fail, iterfail))
        if rng.random() < 0.25:
            sched += [rng.randrange(7) for _ in range(rng.randint(5, 50))]
        else:
            # the caller resets and dispatches; then mostly the backend and the callbacks (a failure gets registered,
            # other callbacks stop half-way); then mostly the caller (it finishes the call and enters the next one)
            pa = rng.choice([0.8, 0.9, 1.0])
            sched += [0 if rng.random() < pa else rng.randrange(1, 7) for _ in range(rng.randint(12, 45))]
            sched += [rng.randrange(1, 8) if rng.random() < 0.85 else 0 for _ in range(rng.randint(4, 40))]
        p_caller = rng.choice([0.8, 0.9, 0.97, 1.0])
        sched += [0 if rng.random() < p_caller else rng.randrange(1, 7) for _ in range(rng.randint(25, 120))]
    sched += [rng.randrange(7) for _ in range(rng.randint(0, 150))]
    return LScenario(nj=nj, bs_auto=bs_auto, bs=bs, pd_mode=pd_mode, pd=pd, pd_expr=pd_expr, ra=rng.choice([0, 0, 1]),
                     abort_drops=rng.random() < 0.3, recheck=recheck_default(), guard=guard_default(), calls=tuple(calls),
                     sched=tuple(sched), seq_callbacks=rng.random() < 0.3)


class _Slim:
    """What the correspondence and the oracles need from an LRun (picklable)."""

    def __init__(self, r: LRun):
        self.sc = r.sc
        self.log = r.log
        self.status = r.status
        self.outcomes = r.outcomes
        self.steps = r.steps
        self.exec_count = r.exec_count
        self.reentered = r.reentered
        self.pull_not_owner = r.pull_not_owner
        self.pull_after_abort = r.pull_after_abort
        self.cb_errors = r.cb_errors
        self.reg_order = r.reg_order
        self.n_sleep = r.n_sleep
        self.step_of_log = r.step_of_log
        self.tsteps = r.tsteps


def _slim_to_json(r):
    return dict(log=r.log, status=r.status, outcomes=[list(o) for o in r.outcomes], steps=r.steps,
                exec_count=[[k, v] for k, v in r.exec_count.items()], reentered=r.reentered,
                pull_not_owner=[list(x) for x in r.pull_not_owner], pull_after_abort=list(r.pull_after_abort),
                cb_errors=[list(x) for x in r.cb_errors], reg_order=r.reg_order, n_sleep=r.n_sleep,
                step_of_log=r.step_of_log, tsteps=[[k, v] for k, v in r.tsteps.items()])


class _FromJson:
    def __init__(self, sc, d):
        self.sc = sc
        self.log = d["log"]
        self.status = d["status"]
        self.outcomes = [tuple(o) for o in d["outcomes"]]
        self.steps = d["steps"]
        self.exec_count = {k: v for k, v in d["exec_count"]}
        self.reentered = d["reentered"]
        self.pull_not_owner = [tuple(x) for x in d["pull_not_owner"]]
        self.pull_after_abort = d["pull_after_abort"]
        self.cb_errors = [tuple(x) for x in d["cb_errors"]]
        self.reg_order = d.get("reg_order", [])
        self.n_sleep = d.get("n_sleep", 0)
        self.step_of_log = d.get("step_of_log", [])
        self.tsteps = {k: v for k, v in d.get("tsteps", [])}


def _worker_main():
    """`python -m harness.m1_lock --worker`: scenarios (JSON list) on stdin -> results (JSON list) on stdout."""
    dicts = json.loads(sys.stdin.read())
    out = [_slim_to_json(_Slim(run_scenario(LScenario.from_json(d)))) for d in dicts]
    sys.stdout.write(json.dumps(out))
    sys.stdout.flush()


def _seq_driver():
    """The driver of the multi-call model; built on demand (a property that uses these scenarios without listing
    `drv_m1lseq` among its lake targets still finds it)."""
    d = core.Driver("M1LSeq")
    if not d.exe.exists():
        ok, log = core.lake_build(["drv_m1lseq"])
        if not ok:
            raise core.InfraError("m1_lock: cannot build drv_m1lseq: " + log[-400:])
    return d


def _u_driver():
    """The driver of the unordered / timeout model M1LU; built on demand."""
    d = core.Driver("M1LU")
    if not d.exe.exists():
        ok, log = core.lake_build(["drv_m1lu"])
        if not ok:
            raise core.InfraError("m1_lock: cannot build drv_m1lu: " + log[-400:])
    return d


def run_batch(scs, driver, parallel=True, workers=8):
    """Run scenarios on the implementation (sharded over worker SUBPROCESSES: a step costs two OS thread hand-offs,
    mostly latency; subprocesses rather than multiprocessing so that it works from any caller) and on the model.
    -> list of (sc, run, model_log)."""
    import subprocess
    if parallel and len(scs) >= 16:
        k = min(workers, _os.cpu_count() or 2)
        parts = [scs[i::k] for i in range(k)]
        env = dict(_os.environ)
        env["PYTHONPATH"] = str(core.VERIF) + _os.pathsep + env.get("PYTHONPATH", "")
        procs = []
        for part in parts:
            pr = subprocess.Popen([sys.executable, "-m", "harness.m1_lock", "--worker"], stdin=subprocess.PIPE,
                                  stdout=subprocess.PIPE, stderr=subprocess.PIPE, cwd=str(core.VERIF), env=env, text=True)
            procs.append(pr)
        import threading as _th
        outs = [None] * k

        def feed(i, pr, part):
            try:
                o, e = pr.communicate(json.dumps([sc.to_json() for sc in part]), timeout=900)
                outs[i] = (pr.returncode, o, e)
            except subprocess.TimeoutExpired:
                pr.kill()
                outs[i] = (-9, "", "timeout")

        ths = [_th.Thread(target=feed, args=(i, pr, part)) for i, (pr, part) in enumerate(zip(procs, parts))]
        for t in ths:
            t.start()
        for t in ths:
            t.join()
        runs = [None] * len(scs)
        for i, part in enumerate(parts):
            rc, o, e = outs[i]
            if rc != 0:
                raise core.InfraError(f"m1_lock worker failed ({rc}): {e[-400:]}")
            for j, d in enumerate(json.loads(o)):
                runs[i + j * k] = _FromJson(part[j], d)
    else:
        runs = [_Slim(run_scenario(sc)) for sc in scs]
    replies = [None] * len(scs)       # None = oracle-only scenario (generator_unordered): not in the models
    idx = [i for i, sc in enumerate(scs) if not sc.oracle_only() and not sc.use_seq() and not sc.use_u()]
    got = driver.run([scs[i].line() for i in idx]) if idx else []
    for i, m in zip(idx, got):
        replies[i] = m
    idx = [i for i, sc in enumerate(scs) if not sc.oracle_only() and sc.use_u()]
    got = _u_driver().run([scs[i].line_u() for i in idx]) if idx else []
    for i, m in zip(idx, got):
        replies[i] = m
    idx = [i for i, sc in enumerate(scs) if not sc.oracle_only() and sc.use_seq() and not sc.use_u()]
    got = _seq_driver().run([scs[i].line_seq() for i in idx]) if idx else []
    for i, m in zip(idx, got):
        replies[i] = m
    return [(sc, r, m) for sc, r, m in zip(scs, runs, replies)]


def _account(res, prop, sc, r, mlog, seen, stream):
    """Compare with the model (unless oracle-only), judge with the oracle, count."""
    res.evaluations += 1
    ilog = " | ".join(r.log)
    case = dict(kind="m1l", **sc.to_json())
    if mlog is not None:
        if ilog != mlog:
            res.diverge("m1lu-steplog" if sc.use_u() else "m1l-steplog", case, _first_diff(ilog, mlog, "impl"),
                        _first_diff(mlog, ilog, "model"))
        else:
            res.traces_validated += 1
    for sig, detail in oracle(r):
        if _sig_for(prop, sig):
            res.fail("m1l:" + sig, case, detail)
    pre = preemptions(r.log)
    res.count(stream)
    res.count("m1l-steps", r.steps)
    if pre >= 3:
        key = hash(ilog)
        if key not in seen:
            seen.add(key)
            res.nontrivial.add(("m1l", key))
    return pre


def run_lock_scenarios(ctx, res, prop, n_quick=800, n_thorough=24000, budget_quick=22.0, budget_thorough=540.0):
    """Adds M1L / M1L-Seq results to `res` (a core.Result): the corpus first, then random single-call scenarios compared
    with the model M1L step by step, then multi-call scenarios (earlier calls aborted, their callbacks alive) compared
    with the model M1L-Seq step by step. Scenarios come from ctx.rng('m1l/'+prop)."""
    rng = ctx.rng("m1l/" + prop)
    driver = core.Driver("M1L")
    n = n_thorough if ctx.thorough else n_quick
    budget = budget_thorough if ctx.thorough else budget_quick
    t0 = _time.time()
    seen = set()
    for name, sc in corpus():
        (sc, r, mlog), = run_batch([sc], driver, parallel=False)
        _account(res, prop, sc, r, mlog, seen, "m1l-corpus")
    done = 0
    chunk = 800
    while done < n and _time.time() - t0 < budget * 0.5:
        scs = [gen_scenario(rng, big=ctx.thorough) for _ in range(min(chunk, n - done))]
        for sc, r, mlog in run_batch(scs, driver):
            done += 1
            pre = _account(res, prop, sc, r, mlog, seen, "m1l-scenarios")
            res.count(f"m1l-outcome-{r.outcomes[0][0] if r.outcomes else r.status}")
            if done <= 3:
                res.sample(dict(m1l=sc.to_json(), steps=r.steps, preemptions=pre))
    # one call with generator_unordered and / or a timeout: compared step by step with the model M1LU
    n_u = max(n // 2, 128)
    udone = 0
    u_timeouts = 0
    while udone < n_u and _time.time() - t0 < budget * 0.75:
        scs = [gen_scenario_u(rng, big=ctx.thorough) for _ in range(min(chunk, n_u - udone))]
        for sc, r, mlog in run_batch(scs, driver):
            udone += 1
            _account(res, prop, sc, r, mlog, seen, "m1lu-scenarios")
            o = r.outcomes[0] if r.outcomes else (r.status,)
            if o[0] == "raise" and o[1] == "TimeoutError":
                u_timeouts += 1
                res.count("m1lu-outcome-TimeoutError")
            else:
                res.count(f"m1lu-outcome-{o[0]}")
            res.count("m1lu-unordered" if sc.ra == 2 else "m1lu-ordered-with-timeout")
            if udone <= 2:
                res.sample(dict(m1lu=sc.to_json(), steps=r.steps))
    n_multi = max(n // 2, 128)
    mdone = 0
    stale_steps = 0
    while mdone < n_multi and _time.time() - t0 < budget:
        m = min(chunk, n_multi - mdone)
        scs = [gen_multicall(rng) if i % 3 == 0 else gen_multicall_alive(rng) for i in range(m)]
        for sc, r, mlog in run_batch(scs, driver):
            mdone += 1
            _account(res, prop, sc, r, mlog, seen, "m1l-multicall")
            k = stale_thread_steps(r.log)
            stale_steps += k
            if k:
                res.count("m1l-multicall-with-stale-thread-steps")
            if mdone <= 2:
                res.sample(dict(m1lseq=sc.to_json(), steps=r.steps, stale_thread_steps=k))
    res.count("m1l-distinct-interleavings", len(seen))
    res.count("m1l-stale-thread-steps", stale_steps)
    if any(d.get("stream") in ("m1l-steplog", "m1lu-steplog") for d in res.divergences):
        search_divergences(ctx, res, prop, driver, 240.0 if ctx.thorough else 60.0)
    for note in _PROBE_NOTES:
        if note not in res.notes:
            res.notes.append(note)
    res.notes.append(f"m1l: corpus {len(corpus())} + {done} single-call forced-schedule runs of real threads at lock/backend-call/"
                     f"unlocked-access granularity compared step by step with the model M1L (variant recheck={recheck_default()}) "
                     f"+ {mdone} multi-call runs (2-4 calls on one object, callbacks of aborted calls kept alive; {stale_steps} "
                     f"steps of threads of earlier calls) compared step by step with the model M1L-Seq (variant "
                     f"dispatch_new_guard={guard_default()}) + {udone} single-call runs with generator_unordered and / or a "
                     f"timeout in fake-clock ticks ({u_timeouts} ended in TimeoutError) compared step by step with the model "
                     f"M1LU; {len(seen)} distinct interleavings with >= 3 pre-emptions; "
                     f"wall {_time.time() - t0:.1f}s")
    return res


def search_divergences(ctx, res, prop, driver, budget):
    """Failing-input search of the M1L / M1LU / M1L-Seq streams, run ONLY when a forced real-thread schedule diverged from
    the model's step log (a different sequence of scheduling points: typically a changed lock scope).  No model from here
    on, the oracles alone judge.  For a few diverging scenarios: the schedule prefix up to the diverging step (and two
    shorter prefixes) is forced at the models' granularity; from there on the scheduler exposes EVERY lock operation (the
    re-entrant ones too) and every access to a shared attribute (also by the lock owner), and for every thread T of the
    run and every point k of T one run is made in which T is parked at its k-th point while all the others -- the
    backend, the callbacks, the caller -- run on to their end, in two orders (`LRun._park_choice`); so "every callback
    parked at each of its points in turn while the caller runs to its end" and vice versa.  A run the oracles reject is
    reported as a failing input; its scenario (with `fine_from` / `park`) is the replay."""
    import dataclasses
    t0 = _time.time()
    divs, seen_cases = [], set()
    for d in res.divergences:
        if d.get("stream") not in ("m1l-steplog", "m1lu-steplog") or d.get("case", {}).get("kind") != "m1l":
            continue
        key = json.dumps(d["case"], sort_keys=True)
        if key not in seen_cases:
            seen_cases.add(key)
            divs.append(d["case"])
    divs.sort(key=lambda c: (len(c.get("calls", [])), sum(x[0] for x in c.get("calls", [])), len(c.get("sched", []))))
    runs = found = 0
    tried = []
    for case in divs[:4]:
        if _time.time() - t0 > budget or found >= 2:
            break
        sc0 = LScenario.from_json(case)
        (_, r0, mlog), = run_batch([sc0], driver, parallel=False)
        ilog = r0.log
        mlist = mlog.split(" | ") if mlog is not None else ilog
        k = 0
        while k < len(ilog) and k < len(mlist) and ilog[k] == mlist[k]:
            k += 1
        sol = r0.step_of_log or [0]
        d_step = max(sol[min(k, len(sol) - 1)] - 1, 0)
        tried.append(d_step)
        case_found = False
        for prefix in sorted({d_step, max(d_step - 6, 0), 0}, reverse=True):
            if case_found or _time.time() - t0 > budget:
                break
            base_sc = dataclasses.replace(sc0, fine_from=prefix, park=())
            (_, rref, _), = run_batch([base_sc], driver, parallel=False)
            runs += 1
            scs = []
            tids = sorted(rref.tsteps, key=lambda t: (t == 0, t))      # callbacks first, then the caller
            for base in (1, 0):
                for tid in tids:
                    n = rref.tsteps[tid] + 1
                    ks = range(n) if n <= 60 else sorted(set(int(i * n / 60) for i in range(60)))
                    scs += [dataclasses.replace(sc0, fine_from=prefix, park=(tid, kk, base)) for kk in ks]
            for i in range(0, len(scs), 96):
                if case_found or _time.time() - t0 > budget:
                    break
                for sc, r, _ in run_batch(scs[i:i + 96], driver):
                    runs += 1
                    res.evaluations += 1
                    for sig, detail in oracle(r):
                        if _sig_for(prop, sig) and not case_found:
                            case_found = True
                            found += 1
                            res.fail("m1l:" + sig, dict(kind="m1l", **sc.to_json()),
                                     detail + f" [failing-input search around the step-log divergence at step {d_step + 1}: "
                                              f"the first {sc.fine_from} steps forced, then thread {sc.park[0]} parked at its "
                                              f"point {sc.park[1]} of the fine-grained phase while the others run on "
                                              f"(order {sc.park[2]}); outcomes {r.outcomes!r}]")
    res.count("m1l-search-runs", runs)
    res.notes.append(f"m1l failing-input search: {len(divs)} diverging scenario(s), {min(len(divs), 4)} searched (diverging steps "
                     f"{tried}), {runs} fine-grained real-thread runs with one thread parked at each of its points in turn, "
                     f"{found} rejected by the oracles; wall {_time.time() - t0:.1f}s")
    return found


def stale_thread_steps(log):
    """Number of steps taken by callback threads of batches of an EARLIER call (submitted before the caller entered the
    current call, i.e. was parked at the lock of `_reset_run_tracking` again)."""
    owner = {}    # tid -> call number in which its batch was submitted
    call = 0
    nsub = 0
    k = 0
    for e in log:
        if e.startswith("E:") or ":" not in e:
            continue
        tid, rest = e.split(":", 1)
        evs = rest.rsplit(">", 1)[0].split(";")
        if tid != "0" and owner.get(tid, call) < call:
            k += 1
        for ev in evs:
            if ev.startswith("submit "):
                nsub += 1
                owner[str(nsub)] = call
        if tid == "0" and rest.endswith(">acq") and any(ev.startswith(("ret ", "raise ")) or ev in ("stop", "ret") for ev in evs):
            call += 1
    return k


def replay_case(ctx, res, case):
    """Re-run exactly the scenario of a failure / divergence record (`dict(kind='m1l', **sc.to_json())`)."""
    sc = LScenario.from_json(case)
    driver = core.Driver("M1L")
    (sc, r, mlog), = run_batch([sc], driver, parallel=False)
    _account(res, ctx.prop if ctx is not None else "", sc, r, mlog, set(), "m1l-replay")
    res.notes.append("m1l replay: status %s outcomes %r" % (r.status, r.outcomes))
    return res


def _first_diff(a, b, who):
    x, y = a.split(" | "), b.split(" | ")
    k = 0
    while k < len(x) and k < len(y) and x[k] == y[k]:
        k += 1
    return f"{who} differs at step {k}: " + " | ".join(x[max(0, k - 3):k + 4])


def main(argv=None):
    ap = argparse.ArgumentParser(description="M1L: forced schedules of real threads vs the Lean model ParallelLock")
    ap.add_argument("--n", type=int, default=200)
    ap.add_argument("--seed", type=int, default=0)
    ap.add_argument("--big", action="store_true")
    ap.add_argument("--multi", action="store_true", help="multi-call scenarios (model M1L-Seq) instead of single-call ones")
    ap.add_argument("--u", action="store_true", help="generator_unordered / timeout scenarios (model M1LU)")
    ap.add_argument("--replay", help="json file with a scenario (as printed in a failure)")
    ap.add_argument("--trace", action="store_true", help="print the step log of the replayed scenario")
    ap.add_argument("--worker", action="store_true", help=argparse.SUPPRESS)
    a = ap.parse_args(argv)
    if a.worker:
        _worker_main()
        return 0
    import random
    driver = core.Driver("M1L")
    if a.replay:
        d = json.loads(open(a.replay).read())
        d = d.get("case", d)
        sc = LScenario.from_json(d)
        (sc, r, mlog), = run_batch([sc], driver)
        print("status", r.status, "outcomes", r.outcomes)
        print("oracle", oracle(r))
        print("model-agrees", " | ".join(r.log) == mlog)
        if a.trace:
            print(" | ".join(r.log))
            print(mlog)
        return 0
    rng = random.Random(f"M1L/{a.seed}")
    res = core.Result()
    t0 = _time.time()
    seen = set()
    left = a.n
    steps = 0
    stale = 0
    while left > 0:
        if a.multi:
            scs = [gen_multicall(rng) if i % 3 == 0 else gen_multicall_alive(rng) for i in range(min(400, left))]
        elif a.u:
            scs = [gen_scenario_u(rng, big=a.big) for _ in range(min(400, left))]
        else:
            scs = [gen_scenario(rng, big=a.big) for _ in range(min(400, left))]
        left -= len(scs)
        for sc, r, mlog in run_batch(scs, driver):
            res.evaluations += 1
            steps += r.steps
            stale += stale_thread_steps(r.log)
            ilog = " | ".join(r.log)
            case = sc.to_json()
            if ilog != mlog:
                res.diverge("m1l-steplog", case, _first_diff(ilog, mlog, "impl"), _first_diff(mlog, ilog, "model"))
            for sig, detail in oracle(r):
                res.fail("m1l:" + sig, case, detail)
            res.count(f"outcome-{r.outcomes[0][0] if r.outcomes else r.status}")
            if r.outcomes and r.outcomes[0][0] == "raise":
                res.count("raise-" + r.outcomes[0][1].split("(")[0])
            if preemptions(r.log) >= 3:
                seen.add(hash(ilog))
    sigs = {}
    for f in res.oracle_failures:
        sigs.setdefault(f["signature"], f)
    print(f"variant recheck={recheck_default()} dispatch_new_guard={guard_default()}")
    print(f"scenarios={res.evaluations} steps={steps} stale-thread-steps={stale} distinct-interleavings={len(seen)} divergences={len(res.divergences)} "
          f"oracle-failures={len(res.oracle_failures)} wall={_time.time() - t0:.1f}s dist={res.dist}")
    for d in res.divergences[:3]:
        print("DIVERGENCE", json.dumps(d["case"]))
        print("   ", d["impl"])
        print("   ", d["model"])
    for sig, f in sigs.items():
        n_sig = sum(1 for g in res.oracle_failures if g["signature"] == sig)
        print("ORACLE", sig, f"x{n_sig}", f["detail"])
        print("   ", json.dumps(f["case"]))
    return 1 if (res.divergences or res.oracle_failures) else 0


if __name__ == "__main__":
    sys.exit(main())
