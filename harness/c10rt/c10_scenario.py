"""C10 scenario runner: executed as a SUBPROCESS (own session) by harness/props/c10.py.

    python c10_scenario.py '<scenario json>'

Runs a sequence of `joblib.Parallel(n_jobs, backend='loky')` calls (inside one `with Parallel(...)`
block when scenario["managed"]) with the faults of harness/c10rt/c10_faults.py placed on tasks, and
parent-side kills of recorded worker pids between calls ("idle") or from the input generator of a
call ("startup").  Prints one JSON line per event, flushed, so that a watchdog kill still leaves the
prefix: {"ev": "call", ...} per finished call and {"ev": "done"} at the end.

Scenario:
  {"n_jobs": 2|3, "managed": bool, "calls": [
      {"n_tasks": int, "faults": {"<task index>": fault-dict}, "work": seconds, "pre_dispatch": "all"|null,
       "pre":     null | {"kind": "idle", "victims": k, "how": SIG, "settle": seconds, "sync": SYNC|null}
                       | {"kind": "idle-timeout", "max_wait": seconds}   (wait until every worker has LEFT by idle time-out),
       "startup": null | {"at_item": j, "victims": k, "how": SIG, "sync": SYNC|null}}
  ], "idle_timeout": seconds|absent  (the public backend parameter `idle_worker_timeout` of every call)}

SYNC = {"mgr": "<step>:<enter|exit>", "caller": "call-start"|"configured"|"submit1"|"submitted-all"|"timeout"}
places the CALLER thread's steps of the call against the MANAGER thread's steps (both live in this process, so the
interleaving is ours to choose, no source change): after the kill the manager thread is held at the given point of
its death handling — `wait_result_broken_or_wakeup`, `terminate_broken`, `flag_as_broken`, `kill_workers`,
`join_executor_internals`, `process_result_item`, `add_call_item_to_queue` (method wrappers installed in THIS
process only) — until the caller has reached its own point (`LokyBackend.configure` returned, the first
`executor.submit` returned or raised, the input generator is exhausted), or HOLD seconds have passed (the caller may
itself be waiting for the manager, e.g. `shutdown(wait=True)`; the hold is bounded so the harness cannot deadlock).

The manager thread lives in this process: any exception escaping a thread is reported
({"ev": "thread-exception", "thread": name, "exc": class}); when it is the executor manager thread the scenario is
given a few seconds and then aborted ({"ev": "abort"}) — nothing will resolve the futures any more.
"""

import json
import os
import resource
import sys
import threading
import time

import c10_faults as F

HOLD = 1.2  # s: longest time the manager thread is held at a sync point
REACH = 2.5  # s: longest time the caller waits for the manager to reach its sync point

_out_lock = threading.Lock()


def emit(d):
    with _out_lock:
        sys.stdout.write(json.dumps(d) + "\n")
        sys.stdout.flush()


def executor_view():
    """Read-only look at loky's singleton (private globals; observation only)."""
    from joblib.externals.loky import reusable_executor as rx

    e = rx._executor
    if e is None:
        return dict(id=None, broken=None, shutdown=None, pids=[])
    return dict(
        id=e.executor_id,
        broken=type(e._flags.broken).__name__ if e._flags.broken is not None else None,
        shutdown=bool(e._flags.shutdown),
        pids=sorted(e._processes.keys()),
    )


KILLED = []  # pids this process has sent a fatal signal to


def kill_pids(pids, how):
    n = F.signum(how)
    for p in pids:
        try:
            os.kill(p, n)
            KILLED.append(p)
        except ProcessLookupError:
            pass


def survivors():
    """Victims of a parent-side kill that are still running (state other than zombie): the fault was NOT delivered."""
    out = []
    for p in KILLED:
        try:
            with open(f"/proc/{p}/stat") as f:
                st = f.read()
            state = st[st.rindex(")") + 2:].split()[0]
            if state != "Z":
                out.append([p, state])
        except OSError:
            pass
    return out


def kill_own_workers():
    """SIGKILL the children of this process except loky's resource trackers (they clean up and leave by themselves)."""
    me = os.getpid()
    for d in os.listdir("/proc"):
        if not d.isdigit():
            continue
        try:
            with open(f"/proc/{d}/stat") as f:
                st = f.read()
            if int(st[st.rindex(")") + 2:].split()[1]) != me:
                continue
            with open(f"/proc/{d}/cmdline", "rb") as f:
                if b"resource_tracker" in f.read():
                    continue
            os.kill(int(d), 9)
        except (OSError, ValueError, IndexError):
            pass


# ----------------------------------------------------------------------------- thread health


def install_excepthook():
    prev = threading.excepthook

    def hook(args):
        name = args.thread.name if args.thread is not None else "?"
        emit(dict(ev="thread-exception", thread=name, exc=args.exc_type.__name__, msg=str(args.exc_value)[:200]))
        if name.startswith("ExecutorManagerThread"):
            def abort():
                time.sleep(4.0)
                emit(dict(ev="abort", why="executor manager thread died", survivors=survivors()))
                kill_own_workers()
                os._exit(70)

            threading.Thread(target=abort, daemon=True, name="c10-abort").start()
        prev(args)

    threading.excepthook = hook


# ----------------------------------------------------------------------------- manager / caller placement

MGR_STEPS = ["add_call_item_to_queue", "wait_result_broken_or_wakeup", "process_result_item", "terminate_broken",
             "kill_workers", "join_executor_internals"]


class Sync:
    """One hand-off per arming: manager held at `mgr_point` until the caller passes `caller_point` (or HOLD)."""

    def __init__(self):
        self.mgr_point = None
        self.caller_point = None
        self.at_point = threading.Event()
        self.release = threading.Event()
        self.used = False
        self.lock = threading.Lock()
        self.n_submits = 0
        self.expected_submits = None

    def arm(self, spec):
        with self.lock:
            self.mgr_point, self.caller_point = spec["mgr"], spec["caller"]
            self.at_point.clear()
            self.release.clear()
            self.used = False
            self.n_submits = 0

    def disarm(self):
        with self.lock:
            self.mgr_point = None
        self.release.set()

    def mgr_reach(self, point):
        if self.mgr_point != point or not threading.current_thread().name.startswith("ExecutorManagerThread"):
            return
        with self.lock:
            if self.used or self.mgr_point != point:
                return
            self.used = True
        self.at_point.set()
        t0 = time.time()
        got = self.release.wait(HOLD)
        emit(dict(ev="sync-held", point=point, released_by_caller=bool(got), held=round(time.time() - t0, 3)))

    def caller_reach(self, point):
        if self.mgr_point is not None and self.caller_point == point:
            self.release.set()


SYNC = Sync()


def install_sync_hooks():
    from joblib import _parallel_backends as pb
    from joblib.externals.loky import process_executor as pe
    from joblib.externals.loky import reusable_executor as rx

    def wrap_mgr(cls, name, label):
        orig = getattr(cls, name)

        def w(self, *a, **k):
            SYNC.mgr_reach(label + ":enter")
            try:
                return orig(self, *a, **k)
            finally:
                SYNC.mgr_reach(label + ":exit")

        w.__name__ = name
        setattr(cls, name, w)

    for step in MGR_STEPS:
        wrap_mgr(pe._ExecutorManagerThread, step, step)
    wrap_mgr(pe._ExecutorFlags, "flag_as_broken", "flag_as_broken")

    orig_conf = pb.LokyBackend.configure

    def configure(self, *a, **k):
        try:
            return orig_conf(self, *a, **k)
        finally:
            SYNC.caller_reach("configured")

    pb.LokyBackend.configure = configure

    orig_submit = rx._ReusablePoolExecutor.submit

    def submit(self, *a, **k):
        try:
            return orig_submit(self, *a, **k)
        finally:
            SYNC.caller_reach("submit1")
            SYNC.n_submits += 1
            if SYNC.expected_submits is not None and SYNC.n_submits >= SYNC.expected_submits:
                SYNC.caller_reach("submitted-all")

    rx._ReusablePoolExecutor.submit = submit


def install_wakeup_race_hooks():
    """Scenario option `hooks: "wakeup-close"`: place the CALLER thread, inside `executor.shutdown()` -> `wakeup()`, between
    the wake-up pipe's closed-test and its write, against the manager thread's `close()` of that pipe at the end of its
    tear-down.  The write of the caller is held (at most 1 s) until `close()` of the same pipe object has been ENTERED.
    With the two mutually excluded (as the code has it: both under the executor's shutdown lock) the manager cannot enter
    `close()` meanwhile, the hold times out and nothing changes.  No source change; wrappers in this process only."""
    from joblib.externals.loky import process_executor as pe

    TW = pe._ThreadWakeup
    orig_init, orig_close = TW.__init__, TW.close

    class _Writer:
        def __init__(self, w, owner):
            self._w, self._owner = w, owner

        def send_bytes(self, *a, **k):
            me = threading.current_thread().name
            if not me.startswith("ExecutorManagerThread"):
                f, in_shutdown = sys._getframe(1), False
                while f is not None:
                    if f.f_code.co_name == "shutdown" and f.f_code.co_filename.endswith("process_executor.py"):
                        in_shutdown = True
                        break
                    f = f.f_back
                if in_shutdown:
                    t0 = time.time()
                    got = self._owner._verif_closing.wait(1.0)
                    emit(dict(ev="wakeup-write-held", close_entered=bool(got), held=round(time.time() - t0, 3)))
                    if got:
                        time.sleep(0.05)  # let close() finish
            return self._w.send_bytes(*a, **k)

        def __getattr__(self, name):
            return getattr(self._w, name)

    def __init__(self, *a, **k):
        orig_init(self, *a, **k)
        self._verif_closing = threading.Event()
        self._writer = _Writer(self._writer, self)

    def close(self, *a, **k):
        ev = getattr(self, "_verif_closing", None)
        if ev is not None:
            ev.set()
        return orig_close(self, *a, **k)

    TW.__init__, TW.close = __init__, close


# ----------------------------------------------------------------------------- main


def main():
    resource.setrlimit(resource.RLIMIT_CORE, (0, 0))
    sc = json.loads(sys.argv[1])
    import joblib
    from joblib import Parallel, delayed

    install_excepthook()
    uses_sync = any((c.get(k) or {}).get("sync") for c in sc["calls"] for k in ("pre", "startup"))
    if uses_sync:
        install_sync_hooks()
    if sc.get("hooks") == "wakeup-close":
        install_wakeup_race_hooks()
    emit(dict(ev="start", joblib=os.path.dirname(joblib.__file__), pid=os.getpid()))
    parent = os.getpid()
    n_jobs = sc["n_jobs"]
    last_pids = []  # live worker pids of the executor used by the previous call

    def one_call(par, ci, c):
        nonlocal last_pids
        pre = c.get("pre")
        armed = False
        if pre and pre["kind"] == "idle":
            victims = last_pids[: pre["victims"]]
            if pre.get("sync") and victims:
                SYNC.arm(pre["sync"])
                armed = True
            kill_pids(victims, pre["how"])
            emit(dict(ev="idle-kill", call=ci, n=len(victims)))
            if armed:
                reached = SYNC.at_point.wait(REACH)
                emit(dict(ev="sync-reached", call=ci, point=pre["sync"]["mgr"], reached=bool(reached)))
                SYNC.caller_reach("call-start")
                if sc.get("managed"):
                    SYNC.caller_reach("configured")  # inside a `with` block the backend is configured already
            if pre.get("settle"):
                time.sleep(pre["settle"])
        elif pre and pre["kind"] == "idle-timeout":
            # the idle workers time out, announce their exit and are reaped: the executor stays, with no process
            t0w = time.time()
            left = False
            while time.time() - t0w < pre["max_wait"]:
                if not executor_view()["pids"]:
                    left = True
                    break
                time.sleep(0.1)
            time.sleep(0.3)
            emit(dict(ev="idle-timeout-wait", call=ci, left=left, waited=round(time.time() - t0w, 2),
                      exec=executor_view()["id"]))
        # the caller thread itself submits min(n_tasks, pre_dispatch = 2 * n_jobs) tasks (batch_size = 1)
        SYNC.expected_submits = c["n_tasks"] if c.get("pre_dispatch") == "all" else min(c["n_tasks"], 2 * n_jobs)
        faults = {int(k): v for k, v in (c.get("faults") or {}).items()}
        work = c.get("work", 0.01)
        startup = c.get("startup")

        def gen():
            nonlocal armed
            for i in range(c["n_tasks"]):
                if startup and i == startup["at_item"]:
                    v = executor_view()
                    victims = v["pids"][: startup["victims"]]
                    if startup.get("sync") and victims:
                        SYNC.arm(startup["sync"])
                        armed = True
                    kill_pids(victims, startup["how"])
                    emit(dict(ev="startup-kill", call=ci, n=len(victims)))
                    if startup.get("sync") and victims:
                        reached = SYNC.at_point.wait(REACH)
                        emit(dict(ev="sync-reached", call=ci, point=startup["sync"]["mgr"], reached=bool(reached)))
                        SYNC.caller_reach("call-start")
                        SYNC.caller_reach("configured")
                    if startup.get("settle"):
                        time.sleep(startup["settle"])
                f = dict(faults.get(i) or {})
                f.setdefault("work", work)
                yield delayed(F.task)(ci, F.Arg(i, f, parent))

        before = executor_view()
        t0 = time.time()
        try:
            out = par(gen())
            outcome = "ok"
        except BaseException as e:  # noqa: BLE001
            out = None
            outcome = "exc:" + type(e).__name__
        dt = time.time() - t0
        if armed:
            SYNC.disarm()
        after = executor_view()
        rec = dict(ev="call", call=ci, outcome=outcome, elapsed=round(dt, 3), exec_before=before["id"],
                   exec_after=after["id"], broken_after=after["broken"], shutdown_after=after["shutdown"])
        if out is not None:
            exp = [F.expected_value(ci, i) for i in range(c["n_tasks"])]
            ok_shape = all(isinstance(t, tuple) and len(t) == 3 for t in out)
            got = [t[0] for t in out] if ok_shape else None
            rec["n_results"] = len(out)
            rec["results_correct"] = bool(ok_shape and got == exp)
            rec["task_pids"] = sorted({t[1] for t in out}) if ok_shape else []
        last_pids = [p for p in after["pids"]]
        rec["live_pids"] = last_pids
        rec["survivors"] = survivors()
        emit(rec)

    kw = dict(n_jobs=n_jobs, backend="loky")
    if sc.get("idle_timeout"):
        kw["idle_worker_timeout"] = sc["idle_timeout"]
    calls = sc["calls"]
    if sc.get("managed"):
        with Parallel(**kw) as par:
            v = executor_view()
            last_pids = v["pids"]
            for ci, c in enumerate(calls):
                if c.get("pre_dispatch"):
                    par.pre_dispatch = c["pre_dispatch"]
                if c.get("batch_size"):
                    par.batch_size = c["batch_size"]
                one_call(par, ci, c)
    else:
        for ci, c in enumerate(calls):
            extra = {}
            if c.get("pre_dispatch"):
                extra["pre_dispatch"] = c["pre_dispatch"]
            if c.get("batch_size"):
                extra["batch_size"] = c["batch_size"]
            one_call(Parallel(**kw, **extra), ci, c)
    time.sleep(0.05)
    emit(dict(ev="done", survivors=survivors()))
    sys.stdout.flush()


if __name__ == "__main__":
    main()
