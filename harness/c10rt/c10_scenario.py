"""C10 scenario runner: executed as a SUBPROCESS (own session) by harness/props/c10.py.

    python c10_scenario.py '<scenario json>'

Runs a sequence of `joblib.Parallel(n_jobs, backend='loky')` calls (inside one `with Parallel(...)`
block when scenario["managed"]) with the faults of harness/c10rt/c10_faults.py placed on tasks, and
parent-side kills of recorded worker pids between calls ("idle") or from the input generator of a
call ("startup").  Prints one JSON line per event, flushed, so that a watchdog kill still leaves the
prefix: {"ev": "call", ...} per finished call and {"ev": "done"} at the end.

Scenario:
  {"n_jobs": 2|3, "managed": bool, "calls": [
      {"n_tasks": int, "faults": {"<task index>": fault-dict}, "work": seconds, "pre_dispatch": "all"|null,
       "pre":     null | {"kind": "idle", "victims": k, "how": SIG, "settle": seconds},
       "startup": null | {"at_item": j, "victims": k, "how": SIG}}
  ]}
"""

import json
import os
import resource
import signal
import sys
import time

import c10_faults as F

SIGS = {"SIGKILL": signal.SIGKILL, "SIGTERM": signal.SIGTERM, "SIGSEGV": signal.SIGSEGV}


def emit(d):
    sys.stdout.write(json.dumps(d) + "\n")
    sys.stdout.flush()


def executor_view():
    """Read-only look at loky's singleton (private globals; observation only)."""
    from joblib.externals.loky import reusable_executor as rx

    e = rx._executor
    if e is None:
        return dict(id=None, broken=None, shutdown=None, pids=[])
    return dict(
        id=e.executor_id,
        broken=type(e._flags.broken).__name__ if e._flags.broken is not None else None,
        shutdown=bool(e._flags.shutdown),
        pids=sorted(e._processes.keys()),
    )


KILLED = []  # pids this process has sent a fatal signal to


def kill_pids(pids, how):
    for p in pids:
        try:
            os.kill(p, SIGS[how])
            KILLED.append(p)
        except ProcessLookupError:
            pass


def survivors():
    """Victims of a parent-side kill that are still running (state other than zombie): the fault was NOT delivered."""
    out = []
    for p in KILLED:
        try:
            with open(f"/proc/{p}/stat") as f:
                st = f.read()
            state = st[st.rindex(")") + 2:].split()[0]
            if state != "Z":
                out.append([p, state])
        except OSError:
            pass
    return out


def main():
    resource.setrlimit(resource.RLIMIT_CORE, (0, 0))
    sc = json.loads(sys.argv[1])
    import joblib
    from joblib import Parallel, delayed

    emit(dict(ev="start", joblib=os.path.dirname(joblib.__file__), pid=os.getpid()))
    parent = os.getpid()
    n_jobs = sc["n_jobs"]
    last_pids = []  # live worker pids of the executor used by the previous call

    def one_call(par, ci, c):
        nonlocal last_pids
        pre = c.get("pre")
        if pre and pre["kind"] == "idle":
            victims = last_pids[: pre["victims"]]
            kill_pids(victims, pre["how"])
            emit(dict(ev="idle-kill", call=ci, n=len(victims)))
            if pre.get("settle"):
                time.sleep(pre["settle"])
        faults = {int(k): v for k, v in (c.get("faults") or {}).items()}
        work = c.get("work", 0.01)
        startup = c.get("startup")

        def gen():
            for i in range(c["n_tasks"]):
                if startup and i == startup["at_item"]:
                    v = executor_view()
                    kill_pids(v["pids"][: startup["victims"]], startup["how"])
                    emit(dict(ev="startup-kill", call=ci, n=min(startup["victims"], len(v["pids"]))))
                    if startup.get("settle"):
                        time.sleep(startup["settle"])
                f = dict(faults.get(i) or {})
                f.setdefault("work", work)
                yield delayed(F.task)(ci, F.Arg(i, f, parent))

        before = executor_view()
        t0 = time.time()
        try:
            out = par(gen())
            outcome = "ok"
        except BaseException as e:  # noqa: BLE001
            out = None
            outcome = "exc:" + type(e).__name__
        dt = time.time() - t0
        after = executor_view()
        rec = dict(ev="call", call=ci, outcome=outcome, elapsed=round(dt, 3), exec_before=before["id"],
                   exec_after=after["id"], broken_after=after["broken"], shutdown_after=after["shutdown"])
        if out is not None:
            exp = [F.expected_value(ci, i) for i in range(c["n_tasks"])]
            ok_shape = all(isinstance(t, tuple) and len(t) == 3 for t in out)
            got = [t[0] for t in out] if ok_shape else None
            rec["n_results"] = len(out)
            rec["results_correct"] = bool(ok_shape and got == exp)
            rec["task_pids"] = sorted({t[1] for t in out}) if ok_shape else []
        # which executor served the call: the singleton right after configure == `before` for a managed
        # backend; for an unmanaged one `after` (configure ran inside the call and terminate() keeps it)
        last_pids = [p for p in after["pids"]]
        rec["live_pids"] = last_pids
        rec["survivors"] = survivors()
        emit(rec)

    kw = dict(n_jobs=n_jobs, backend="loky")
    calls = sc["calls"]
    if sc.get("managed"):
        with Parallel(**kw) as par:
            v = executor_view()
            last_pids = v["pids"]
            for ci, c in enumerate(calls):
                if c.get("pre_dispatch"):
                    par.pre_dispatch = c["pre_dispatch"]
                if c.get("batch_size"):
                    par.batch_size = c["batch_size"]
                one_call(par, ci, c)
    else:
        for ci, c in enumerate(calls):
            extra = {}
            if c.get("pre_dispatch"):
                extra["pre_dispatch"] = c["pre_dispatch"]
            if c.get("batch_size"):
                extra["batch_size"] = c["batch_size"]
            one_call(Parallel(**kw, **extra), ci, c)
    time.sleep(0.05)
    emit(dict(ev="done", survivors=survivors()))
    sys.stdout.flush()


if __name__ == "__main__":
    main()
