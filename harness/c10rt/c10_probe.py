"""Behavioural probe (run as a subprocess with PYTHONPATH=<repo>): in which ORDER does `ProcessPoolExecutor.submit` of the
tree under test call `wakeup()` of the manager thread's wake-up pipe and `_ensure_executor_running()`?  Decides which
variant of the model (`Cfg.wakeupBeforeRespawn`) the tree is compared with.  Recording wrappers in this process only, no
source text is read.  Prints one JSON line: {"wakeup_before_respawn": true|false, "order": [...]}."""
import json
import sys


def main():
    from joblib.externals.loky import get_reusable_executor
    from joblib.externals.loky import process_executor as pe

    order = []
    orig_wakeup = pe._ThreadWakeup.wakeup
    orig_ensure = pe.ProcessPoolExecutor._ensure_executor_running

    def wakeup(self, *a, **k):
        order.append("wakeup")
        return orig_wakeup(self, *a, **k)

    def ensure(self, *a, **k):
        order.append("ensure")
        return orig_ensure(self, *a, **k)

    pe._ThreadWakeup.wakeup = wakeup
    pe.ProcessPoolExecutor._ensure_executor_running = ensure
    ex = get_reusable_executor(max_workers=1, timeout=20)
    del order[:]
    f = ex.submit(int, 7)
    first = list(order)
    assert f.result(timeout=60) == 7
    ex.shutdown(wait=True, kill_workers=True)
    if "wakeup" not in first or "ensure" not in first:
        print(json.dumps({"error": "submit did not call both", "order": first}))
        return 2
    print(json.dumps({"wakeup_before_respawn": first.index("wakeup") < first.index("ensure"), "order": first}))
    return 0


if __name__ == "__main__":
    sys.exit(main())
