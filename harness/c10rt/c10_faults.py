"""C10 worker-side fault markers (imported BY NAME inside loky workers: keep this file importable
on its own, with /verif/harness/c10rt on PYTHONPATH; it must not import joblib or the harness).

A fault is a dict  {"instant": <str>, "how": <str>, ...}  attached to one task of one call:

  instant            where the worker dies                                   placed by
  -----------------  ------------------------------------------------------  --------------------------------
  arg-unpickle       inside call_queue.get(), while the call item is loaded  Arg.__reduce__ -> _mk_arg (worker)
  task-start         first statement of the task                             task()
  mid-task           after `delay` seconds of work inside the task           task()
  result-pickle      inside result_queue.put(), while the result is dumped   Res.__reduce__ (worker)
  after-send         after the result message was written completely         Res.__del__  (`del r` in the worker loop)
  mid-send           while the result message is being written (F15)         watcher thread sees the main thread
                                                                             inside Connection._send*, then kills
  timer              `delay` seconds after task start, whatever it is doing  threading.Timer (the design probe)

  how: a signal sent to oneself with os.kill(os.getpid(), n): SIGKILL SIGTERM SIGSEGV SIGABRT SIGBUS SIGUSR1 SIGHUP, the
       real-time signals SIGRTMIN, SIGRTMIN+1, SIGRTMAX-1, SIGRTMAX (the +k/-k ones have no name in signal.Signals);
       exit (os._exit(3)) | exit0 | exit1 | exit255 ; sysexit (sys.exit(7): NOT a death)

No joblib source is touched: every hook is a pickle / finaliser hook of a harness object.
"""

import os
import signal
import sys
import threading
import time

def signum(how):
    """'SIGKILL', 'SIGUSR1', ... or a real-time signal 'SIGRTMIN', 'SIGRTMIN+1', 'SIGRTMAX-1' -> its number; else None.
    (SIGRTMIN+k for 0 < k < SIGRTMAX-SIGRTMIN has NO name in `signal.Signals`.)"""
    base, off = how, 0
    for sep in "+-":
        if sep in how:
            base, k = how.split(sep)
            off = int(k) if sep == "+" else -int(k)
    if base.startswith("SIG") and hasattr(signal, base):
        return int(getattr(signal, base)) + off
    return None


_EXITS = {"exit": 3, "exit0": 0, "exit1": 1, "exit255": 255}


def die(how):
    """Abrupt death of the calling process — or, for 'sysexit', `sys.exit(7)` (a SystemExit raised where we stand:
    NOT a death; what loky makes of it depends on where it is raised)."""
    n = signum(how)
    if n is not None:
        os.kill(os.getpid(), n)
        time.sleep(10)  # the signal is delivered on return from the syscall; never reached
    elif how in _EXITS:
        os._exit(_EXITS[how])
    elif how == "sysexit":
        sys.exit(7)
    os._exit(98)  # unknown `how`: still die, visibly


def _is_worker(parent_pid):
    return os.getpid() != parent_pid


def expected_value(call_index, i):
    return 1000 * call_index + i * i + 7


# ------------------------------------------------------------------ argument object


class Arg:
    def __init__(self, i, fault, parent_pid):
        self.i, self.fault, self.parent_pid = i, fault, parent_pid

    def __reduce__(self):
        # called in the parent (queue feeder thread); the reconstruction runs in the worker
        return _mk_arg, (self.i, self.fault, self.parent_pid)


def _mk_arg(i, fault, parent_pid):
    if fault and fault.get("instant") == "arg-unpickle" and _is_worker(parent_pid):
        die(fault["how"])
    return Arg(i, fault, parent_pid)


# ------------------------------------------------------------------ result object


class Res:
    """What the task returns inside the worker; arrives in the parent as a plain tuple."""

    def __init__(self, value, fault, parent_pid, payload=b""):
        self.value, self.fault, self.parent_pid, self.payload = value, fault, parent_pid, payload
        self.pid = os.getpid()
        self.armed = True

    def __reduce__(self):
        f = self.fault
        if f and f.get("instant") == "result-pickle" and _is_worker(self.parent_pid):
            die(f["how"])
        return _mk_res, (self.value, self.pid, self.payload)

    def __del__(self):
        f = self.fault
        try:
            if f and f.get("instant") == "after-send" and self.armed and _is_worker(self.parent_pid):
                die(f["how"])
        except Exception:  # interpreter shutdown
            pass


def _mk_res(value, pid, payload):
    return (value, pid, len(payload))


# ------------------------------------------------------------------ mid-send watcher


def _in_pipe_write(frame):
    while frame is not None:
        co = frame.f_code
        if co.co_name in ("_send", "_send_bytes") and co.co_filename.endswith("connection.py"):
            return True
        frame = frame.f_back
    return False


def _watch_and_kill(main_ident, how, extra_delay, give_up_after):
    t0 = time.time()
    while time.time() - t0 < give_up_after:
        fr = sys._current_frames().get(main_ident)
        if fr is not None and _in_pipe_write(fr):
            if extra_delay:
                time.sleep(extra_delay)
            die(how)
        time.sleep(0.0002)


# ------------------------------------------------------------------ the task


def task(call_index, arg):
    """Runs in a loky worker. Returns a Res (a tuple (value, pid, payload_len) once in the parent)."""
    i, f, parent_pid = arg.i, arg.fault, arg.parent_pid
    inst = f.get("instant") if f else None
    if inst == "task-start":
        die(f["how"])
    payload = b""
    if f and f.get("payload_mb"):
        payload = b"y" * int(f["payload_mb"] * 1024 * 1024)
    if inst == "timer":
        pid = os.getpid()
        threading.Timer(f["delay"], lambda: die(f["how"]) if os.getpid() == pid else None).start()
    elif inst == "mid-send":
        threading.Thread(
            target=_watch_and_kill,
            args=(threading.main_thread().ident, f["how"], f.get("delay", 0), 60),
            daemon=True,
        ).start()
    elif inst == "mid-task":
        time.sleep(f.get("delay", 0.05))
        die(f["how"])
    else:
        time.sleep((f or {}).get("work", 0.01))
    return Res(expected_value(call_index, i), f, parent_pid, payload)
