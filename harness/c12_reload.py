"""C12 probe (oracle only): a module-level cached function whose FILE is edited and re-imported (importlib.reload) in the SAME
session — "redefined under the same name in the same session" coming from a changed file.  Variants of the edit: the file keeps
its size and its modification time (coarse-mtime file systems, rsync -t / cp -p / tar), keeps its size only, or changes both.
Whatever joblib (or the standard library on its behalf) remembers about the file's text must not make the new definition
return the old definition's cached values; the old function object, still referenced, keeps returning its own values.

`python -B c12_reload.py '<json spec>'` with PYTHONPATH = the tree under test; one JSON line on stdout."""
import importlib
import json
import os
import sys


def main(spec):
    import warnings

    warnings.simplefilter("ignore")
    from joblib import Memory

    d = spec["dir"]
    os.makedirs(d, exist_ok=True)
    sys.path.insert(0, d)
    path = os.path.join(d, "c12reload_mod.py")
    texts = spec["texts"]  # list of module texts (versions); consecutive ones have equal length when spec["same_size"]
    out = dict(steps=[], errors=[])
    mem = Memory(os.path.join(d, "cache"), verbose=0)
    with open(path, "w") as f:
        f.write(texts[0])
    st0 = os.stat(path)
    import c12reload_mod as m

    plain = {0: m.f}
    wrappers = {0: mem.cache(m.f)}
    args = spec.get("args", [5, 6])

    def call(k, a):
        try:
            got = wrappers[k](a)
        except BaseException as e:  # noqa: BLE001
            out["errors"].append([k, a, "raise:" + type(e).__name__])
            return
        want = plain[k](a)
        out["steps"].append([k, a, got, want])
        if got != want:
            out["errors"].append([k, a, "wrong-version-value", got, want])

    for a in args:
        call(0, a)
    for k in range(1, len(texts)):
        with open(path, "w") as f:
            f.write(texts[k])
        if spec.get("keep_mtime"):
            os.utime(path, ns=(st0.st_atime_ns, st0.st_mtime_ns))
        importlib.invalidate_caches()
        m = importlib.reload(m)
        plain[k] = m.f
        wrappers[k] = mem.cache(m.f)
        for a in args:
            call(k, a)      # the new definition runs the new code
        for j in range(k):
            call(j, args[0])  # a still-referenced older definition keeps its own values
        for a in args:
            call(k, a)
    print(json.dumps(out))
    return 0


if __name__ == "__main__":
    sys.exit(main(json.loads(sys.argv[1])))
