"""Shared machinery of every check (see DESIGN.md section 2.2).

Pipeline of `./check Cxx`:
  1. prove      : `lake build` of the property's Lean modules + driver, `#print axioms` audit,
                  forbidden-token grep.  obligations / discharged are counted from the audit.
  2. correspond : the property module (harness/props/cxx.py) runs the real joblib from
                  VERIF_REPO (default /repo) and the Lean model driver on the same cases and
                  reports divergences, and judges the implementation with the property oracle.
  3. verdict    : oracle failures are violations (or KNOWN-FINDING when listed);
                  a broken proof / divergence triggers the failing-input search and is reported
                  as a violation either way (…no-failing-input-found when the search is empty).
  4. evidence   : /verif/evidence/<id>.json from counters measured in this run.

Exit codes: 0 held, 1 violation, 2 infrastructure failure.
"""

from __future__ import annotations

import contextlib
import fcntl
import hashlib
import json
import os
import random
import re
import shutil
import subprocess
import sys
import tempfile
import time
import traceback
from dataclasses import dataclass, field
from pathlib import Path

VERIF = Path(__file__).resolve().parent.parent
REPO = Path(os.environ.get("VERIF_REPO", "/repo")).resolve()
LEAN = VERIF / "lean"
EVIDENCE = VERIF / "evidence"
REPLAYS = VERIF / "replays"
KNOWN = VERIF / "known_findings.json"
PY = "/venv/bin/python"  # the repo's pinned interpreter (3.12.1)
PY_NUMPY = "python3-vt"  # 3.11.7 + numpy, only for C19

ALLOWED_AXIOMS = {"propext", "Classical.choice", "Quot.sound"}
FORBIDDEN = re.compile(
    r"\bsorry\b|\badmit\b|^\s*axiom\s|native_decide|bv_decide|implemented_by|\bunsafe\s|maxHeartbeats\s+0\b",
    re.M,
)


def use_repo():
    """Make `import joblib` resolve to VERIF_REPO's working tree."""
    p = str(REPO)
    if sys.path[0] != p:
        sys.path.insert(0, p)
    cur = os.environ.get("PYTHONPATH", "")
    if cur.split(os.pathsep)[0] != p:  # called once per scenario by some harnesses: never grow the variable
        os.environ["PYTHONPATH"] = p + (os.pathsep + cur if cur else "")
    import joblib  # noqa

    got = Path(joblib.__file__).resolve().parent.parent
    if got != REPO:
        raise InfraError(f"joblib imported from {got}, expected {REPO}")
    return joblib


class InfraError(Exception):
    pass


# ----------------------------------------------------------------------------- Lean side


@contextlib.contextmanager
def lean_lock():
    LEAN.mkdir(exist_ok=True)
    with open(LEAN / ".build.lock", "w") as f:
        fcntl.flock(f, fcntl.LOCK_EX)
        try:
            yield
        finally:
            fcntl.flock(f, fcntl.LOCK_UN)


def lake_build(targets, timeout=1500):
    """Returns (ok, log)."""
    with lean_lock():
        p = subprocess.run(
            ["lake", "build", *targets],
            cwd=LEAN,
            capture_output=True,
            text=True,
            timeout=timeout,
        )
    return p.returncode == 0, (p.stdout + p.stderr)


def strip_lean_comments(src: str) -> str:
    out, i, depth = [], 0, 0
    n = len(src)
    while i < n:
        if src.startswith("/-", i):
            depth += 1
            i += 2
        elif depth and src.startswith("-/", i):
            depth -= 1
            i += 2
        elif depth:
            if src[i] == "\n":
                out.append("\n")
            i += 1
        elif src.startswith("--", i):
            while i < n and src[i] != "\n":
                i += 1
        else:
            out.append(src[i])
            i += 1
    return "".join(out)


def theorem_names(lean_file: Path):
    """Fully qualified names of the theorems declared in a property file.

    Convention: the file wraps everything in exactly one `namespace Cxx … end Cxx`."""
    src = strip_lean_comments(lean_file.read_text())
    ns = re.search(r"^namespace\s+(\S+)", src, re.M)
    prefix = (ns.group(1) + ".") if ns else ""
    return [prefix + m for m in re.findall(r"^\s*theorem\s+([^\s:({\[]+)", src, re.M)]


def forbidden_hits(files):
    hits = []
    for f in files:
        src = strip_lean_comments(Path(f).read_text())
        for m in FORBIDDEN.finditer(src):
            line = src.count("\n", 0, m.start()) + 1
            hits.append(f"{Path(f).relative_to(LEAN)}:{line}: {m.group(0).strip()}")
    return hits


def lean_sources_of(modules):
    """Transitive closure over project-local imports (JoblibModel.*, JoblibProofs.*)."""
    seen, todo = {}, list(modules)
    while todo:
        m = todo.pop()
        if m in seen:
            continue
        f = LEAN / (m.replace(".", "/") + ".lean")
        if not f.exists():
            continue
        seen[m] = f
        for imp in re.findall(r"^import\s+(\S+)", f.read_text(), re.M):
            if imp.split(".")[0] in ("JoblibModel", "JoblibProofs", "Driver"):
                todo.append(imp)
    return seen


def audit(prop: str, required: list[str], extra_modules=(), extra_targets=()):
    """Build the property's proofs and audit axioms.

    `extra_modules`: further proof modules whose theorems the property relies on (imported by the audit file, their
    sources scanned for forbidden tokens); `extra_targets`: further lake targets (drivers) the check uses.
    Returns dict(obligations, discharged, failed=[(name, why)], theorems=[...], log, build_ok)."""
    mod = f"JoblibProofs.{prop}"
    res = dict(obligations=0, discharged=0, failed=[], theorems=[], log="", build_ok=False, axioms={})
    pf = LEAN / "JoblibProofs" / f"{prop}.lean"
    if not pf.exists():
        res["failed"].append((mod, "property file missing"))
        res["obligations"] = max(1, len(required))
        return res
    ok, log = lake_build([mod, f"drv_{prop.lower()}", *extra_modules, *extra_targets])
    res["log"] = log[-6000:]
    res["build_ok"] = ok
    names = theorem_names(pf)
    for r in required:
        if r not in names:
            names.append(r)
    res["theorems"] = names
    res["obligations"] = len(names)
    if not ok:
        # which theorems fail cannot be told apart reliably from a failed build: none discharged
        errs = re.findall(r"error: (\S+?:\d+:\d+: .*)", log)
        res["failed"] = [(n, "build failed: " + "; ".join(errs[:3])) for n in names]
        return res
    srcs = lean_sources_of([mod, f"Driver.{prop}", *extra_modules])
    hits = forbidden_hits(srcs.values())
    with tempfile.TemporaryDirectory(prefix="verif-audit-") as td:
        af = Path(td) / "Audit.lean"
        af.write_text(f"import {mod}\n" + "".join(f"import {m}\n" for m in extra_modules)
                      + "".join(f"#print axioms {n}\n" for n in names))
        p = subprocess.run(["lake", "env", "lean", str(af)], cwd=LEAN, capture_output=True, text=True, timeout=900)
    out = p.stdout + p.stderr
    res["log"] += "\n" + out[-3000:]
    for n in names:
        m = re.search(r"'" + re.escape(n) + r"' (does not depend on any axioms|depends on axioms: \[([^\]]*)\])", out)
        if not m:
            res["failed"].append((n, "theorem not found by #print axioms"))
            continue
        axs = set() if m.group(2) is None else {a.strip() for a in m.group(2).replace("\n", " ").split(",") if a.strip()}
        res["axioms"][n] = sorted(axs)
        bad = axs - ALLOWED_AXIOMS
        if bad:
            res["failed"].append((n, "depends on " + ", ".join(sorted(bad))))
        else:
            res["discharged"] += 1
    if hits:
        res["failed"].append(("forbidden-token", "; ".join(hits)))
        res["discharged"] = min(res["discharged"], res["obligations"] - 1)
    return res


class Driver:
    """The Lean model driver of one property, as a batch filter (lines in → lines out)."""

    def __init__(self, prop: str):
        self.exe = LEAN / ".lake" / "build" / "bin" / f"drv_{prop.lower()}"

    def run(self, lines: list[str], args=(), timeout=600) -> list[str]:
        if not self.exe.exists():
            raise InfraError(f"driver {self.exe} not built")
        for ln in lines:
            if "\n" in ln:
                raise InfraError("newline inside a driver request")
        p = subprocess.run(
            [str(self.exe), *args],
            input="".join(ln + "\n" for ln in lines),
            capture_output=True,
            text=True,
            timeout=timeout,
        )
        if p.returncode != 0:
            raise InfraError(f"driver exited {p.returncode}: {p.stderr[-500:]}")
        out = p.stdout.split("\n")
        if out and out[-1] == "":
            out.pop()
        if len(out) != len(lines):
            raise InfraError(f"driver answered {len(out)} lines for {len(lines)} requests")
        return out


# ----------------------------------------------------------------------------- results


@dataclass
class Result:
    evaluations: int = 0
    nontrivial: set = field(default_factory=set)  # keys of distinct non-trivial cases
    rule: str = ""
    samples: list = field(default_factory=list)
    dist: dict = field(default_factory=dict)  # input distribution / branches hit
    divergences: list = field(default_factory=list)  # dict(stream, case, impl, model)
    oracle_failures: list = field(default_factory=list)  # dict(signature, case, detail)
    traces_validated: int = 0
    assumptions: list = field(default_factory=list)
    notes: list = field(default_factory=list)
    extra: dict = field(default_factory=dict)

    def count(self, key, n=1):
        self.dist[key] = self.dist.get(key, 0) + n

    def sample(self, s, cap=6):
        if len(self.samples) < cap:
            self.samples.append(s)

    def diverge(self, stream, case, impl, model):
        if len(self.divergences) < 50:
            self.divergences.append(dict(stream=stream, case=case, impl=impl, model=model))
        self.count("divergences")

    def fail(self, signature, case, detail):
        """The implementation violates the property on `case` (judged by the oracle, not the model)."""
        if len(self.oracle_failures) < 200:
            self.oracle_failures.append(dict(signature=signature, case=case, detail=detail))
        self.count("oracle_failures")


@dataclass
class Ctx:
    prop: str
    tier: str
    seed: int
    scratch: Path
    replay: dict | None = None

    def rng(self, salt=""):
        return random.Random(f"{self.prop}/{self.seed}/{salt}")

    @property
    def thorough(self):
        return self.tier == "thorough"

    def driver(self):
        return Driver(self.prop)


def load_known():
    if not KNOWN.exists():
        return []
    return json.loads(KNOWN.read_text()).get("findings", [])


def match_known(prop, signature, known):
    for k in known:
        if k.get("property") == prop and k.get("kind") == "known" and k.get("signature") == signature:
            return k
    return None


def write_replay(prop, seed, idx, payload):
    REPLAYS.mkdir(exist_ok=True)
    # runs against another tree (seeded mutations, candidate fixes; several may run at once with the same seed) get their own
    # file names, so that they neither overwrite each other's replays nor those of /repo
    other = "" if REPO == Path("/repo") else "-" + hashlib.sha1(str(REPO).encode()).hexdigest()[:8]
    p = REPLAYS / f"{prop}-seed{seed}{other}-{idx}.json"
    p.write_text(json.dumps(payload, indent=1, default=repr))
    return p


def write_evidence(prop, tier, seed, coverage, assumptions, wall_s, violations, level="proof"):
    global EVIDENCE
    if REPO != Path("/repo"):
        # runs against another tree (seeded mutations, candidate fixes) must not overwrite the evidence of /repo
        EVIDENCE = Path(tempfile.gettempdir()) / "verif-evidence-other-tree"
    EVIDENCE.mkdir(exist_ok=True)
    ev = dict(
        property_id=prop,
        tier=tier,
        seed=seed,
        level=level,
        coverage=coverage,
        assumptions=assumptions,
        wall_s=round(wall_s, 2),
        violations=violations,
    )
    (EVIDENCE / f"{prop}.json").write_text(json.dumps(ev, indent=1, default=repr) + "\n")


TRUSTED_BASE = [
    "Lean 4.33.0 kernel; axioms per theorem audited with #print axioms, subset of {propext, Classical.choice, Quot.sound}",
    "no sorry/admit/axiom/native_decide/bv_decide/implemented_by/unsafe in model, proof or driver files (grep on comment-stripped sources)",
    "hand-written Lean model tied to the code by the behavioural correspondence of this run (harness/props/*.py + Driver/*.lean): generators, canonicalisation and diff are trusted",
    "Lean compiler + C toolchain for the driver executable (the driver runs the same definitions the theorems are about)",
]


def run_check(prop: str, mod, tier: str, seed: int, replay_path: str | None):
    t0 = time.time()
    known = load_known()
    scratch = Path(tempfile.mkdtemp(prefix=f"verif-{prop}-"))
    ctx = Ctx(prop=prop, tier=tier, seed=seed, scratch=scratch)
    if replay_path:
        ctx.replay = json.loads(Path(replay_path).read_text())
    violations = []  # (replay_path, suffix)
    known_lines = {}
    try:
        if hasattr(mod, "prepare"):
            # e.g. regenerate lean/JoblibModel/Generated/Tables.lean from the live VERIF_REPO objects, so that the
            # table-level theorems are re-proved against what the code says now
            mod.prepare(ctx)
        proof = audit(prop, list(getattr(mod, "REQUIRED_THEOREMS", [])), tuple(getattr(mod, "EXTRA_LEAN_MODULES", ())),
                      tuple(getattr(mod, "EXTRA_LEAN_TARGETS", ())))
        try:
            res: Result = mod.run(ctx)
        except InfraError:
            raise
        proof_broken = proof["discharged"] != proof["obligations"] or not proof["build_ok"]

        unlisted = []
        for f in res.oracle_failures:
            k = match_known(prop, f["signature"], known)
            if k:
                known_lines.setdefault(k["signature"], (k, f))
            else:
                unlisted.append(f)

        searched = None
        if (proof_broken or res.divergences) and not unlisted and hasattr(mod, "search"):
            # failing-input search: same oracle, enlarged budget, biased around the differing cases
            searched = mod.search(ctx, res)
            for f in searched.oracle_failures:
                k = match_known(prop, f["signature"], known)
                if k:
                    known_lines.setdefault(k["signature"], (k, f))
                else:
                    unlisted.append(f)
            res.evaluations += searched.evaluations
            res.nontrivial |= searched.nontrivial

        idx = 0
        seen_sig = set()
        for f in unlisted:
            if f["signature"] in seen_sig:
                continue
            seen_sig.add(f["signature"])
            rp = write_replay(prop, seed, idx, dict(kind="failing-input", property=prop, **f,
                                                    replay_cmd=f"./check {prop} --replay <this file>"))
            idx += 1
            violations.append((rp, ""))
        if not unlisted and (proof_broken or res.divergences):
            what = []
            if proof_broken:
                what.append(dict(broken="proof", theorems=proof["failed"], log=proof["log"][-3000:]))
            if res.divergences:
                what.append(dict(broken="correspondence", divergences=res.divergences[:10]))
            rp = write_replay(prop, seed, idx, dict(
                kind="no-failing-input-found", property=prop, no_longer_checks=what,
                search=dict(ran=searched is not None,
                            evaluations=(searched.evaluations if searched else 0))))
            violations.append((rp, " no-failing-input-found"))

        for sig, (k, f) in known_lines.items():
            print(f"KNOWN-FINDING: property={prop} {k['what']} [{sig}]")
        for rp, suffix in violations:
            print(f"VIOLATION property={prop} replay={rp}{suffix}")

        coverage = dict(
            obligations=proof["obligations"],
            discharged=proof["discharged"],
            checker_cmd=f"cd lean && lake build JoblibProofs.{prop} drv_{prop.lower()} && lake env lean <generated #print axioms file>",
            trusted_base=TRUSTED_BASE + list(getattr(mod, "TRUSTED_EXTRA", [])),
            theorems=proof["theorems"],
            axioms=proof["axioms"],
            proof_failures=[list(x) for x in proof["failed"]],
            evaluations=res.evaluations,
            distinct_nontrivial=len(res.nontrivial),
            rule=res.rule,
            samples=res.samples or ["<none>"],
            traces_validated_against_impl=res.traces_validated,
            divergences=len(res.divergences),
            oracle_failures=len(res.oracle_failures),
            known_findings_hit=sorted(known_lines),
            input_distribution=res.dist,
            repo=str(REPO),
            notes=res.notes,
            **res.extra,
        )
        write_evidence(prop, tier, seed, coverage, res.assumptions, time.time() - t0, len(violations))
        return 1 if violations else 0
    except InfraError as e:
        print(f"INFRA-ERROR property={prop}: {e}", file=sys.stderr)
        return 2
    except subprocess.TimeoutExpired as e:
        print(f"INFRA-ERROR property={prop}: timeout {e}", file=sys.stderr)
        return 2
    except Exception:
        traceback.print_exc()
        print(f"INFRA-ERROR property={prop}: harness crashed", file=sys.stderr)
        return 2
    finally:
        shutil.rmtree(scratch, ignore_errors=True)
