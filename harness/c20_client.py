"""C20 — the CLIENT side of the resource-tracker protocol (which requests joblib sends, and when).

Model: lean/JoblibModel/TrackerClient.lean (`stepOp` / `eof`, composed with `Tracker.step`); theorems: C20.client_tracker_composed,
client_requests_wellformed, refcount_matches_users, never_deleted_while_held(_partial), extra_reference_released_twice_counterexample,
eventually_deleted … in JoblibProofs/C20.lean; driver: `C …` requests of Driver/C20.lean.  Called from harness/props/c20.py.

Request-level correspondence.  One *program* = one real "main" process (python3-vt, numpy) holding real
`Parallel` objects (loky and multiprocessing backends), a real resource tracker started by it (`ensure_running`), and
stand-in worker processes that share the tracker pipe exactly as loky's workers do.  No task is ever submitted (loky
therefore starts no worker of its own): the program drives the code that decides about tracker requests directly —
`LokyBackend.configure` → `get_memmapping_executor` (executor and manager reuse), `Parallel._reducer_callback` +
`ArrayMemmapForwardReducer.__call__` through loky's own pickler, `load_temporary_memmap` + finalizers in the workers
(`del` + `gc.collect()`), `LokyBackend.terminate` / `abort_everything`, `MemmappingExecutor.terminate`,
`MemmappingPool` creation/terminate, interpreter exit (atexit callbacks), SIGKILL of workers and of the main process.
Interception: `ResourceTracker._send` is wrapped in every process (the request is logged, then really sent; the real
tracker runs).  After every operation the tracker is synchronised (sentinel) and compared with the Lean model:
  status (ok / skip / loadfail), the request sequence (paths mapped to symbolic names), every folder/file on disk,
  and the model's own monitor (`bad`: files that left the disk while in use; `dup`: a clean-up released an extra
  reference that was not held) against what the oracle saw.
Independent oracle (no model): a file some live worker holds a memmap of exists; the harness's own files are never
touched; after the last process is gone nothing is left under the temp root.
"""

from __future__ import annotations

import base64
import concurrent.futures as cf
import hashlib
import json
import os
import re
import select
import signal
import subprocess
import time
from pathlib import Path

from . import core

WORKER = Path(__file__).resolve().parent / "c20_client_worker.py"
MAX_NBYTES = 4096
KNOWN_SIG = "client:deleted-while-held:extra-reference-released-twice"  # F45


class Gone(Exception):
    pass


class Proc:
    """A python3-vt process talking JSON lines."""

    def __init__(self, args, repo, stderr, pass_fds=(), extra_env=None):
        env = dict(os.environ, PYTHONPATH=str(repo), PYTHONDONTWRITEBYTECODE="1", JOBLIB_MULTIPROCESSING="1")
        env.pop("PYTHONHASHSEED", None)
        if extra_env:
            env.update(extra_env)
        self.p = subprocess.Popen([core.PY_NUMPY, str(WORKER), *args], stdin=subprocess.PIPE, stdout=subprocess.PIPE,
                                  stderr=stderr, bufsize=0, env=env, pass_fds=list(pass_fds))
        self.buf = b""

    def readline(self, timeout=120.0):
        t_end = time.time() + timeout
        while b"\n" not in self.buf:
            left = t_end - time.time()
            if left <= 0:
                raise core.InfraError("c20 client: process did not answer")
            r, _, _ = select.select([self.p.stdout], [], [], left)
            if r:
                chunk = os.read(self.p.stdout.fileno(), 1 << 16)
                if not chunk:
                    raise Gone()
                self.buf += chunk
        line, self.buf = self.buf.split(b"\n", 1)
        return json.loads(line)

    def send(self, obj):
        self.p.stdin.write(json.dumps(obj).encode() + b"\n")

    def wait(self, timeout=60):
        try:
            self.p.wait(timeout)
        except subprocess.TimeoutExpired:
            self.p.kill()
            self.p.wait(30)
            return False
        finally:
            for f in (self.p.stdin, self.p.stdout):
                try:
                    f.close()
                except OSError:
                    pass
        return True


class SendLog:
    def __init__(self, path):
        self.path = path
        self.off = 0
        open(path, "a").close()

    def new(self):
        with open(self.path, "rb") as f:
            f.seek(self.off)
            data = f.read()
        if not data.endswith(b"\n"):
            data = data[: data.rfind(b"\n") + 1]
        self.off += len(data)
        return [tuple(json.loads(x)) for x in data.splitlines()]


_FOLDER = re.compile(r"joblib_memmapping_folder_(\d+)_([0-9a-f]+)_([0-9a-f]+)$")


class Canon:
    """Real paths → the symbolic names of the model (`/d` + m×`m` + `_` + ctx×`k`, + `/` + a×`a`)."""

    def __init__(self, tmp, pids):
        self.tmp = tmp
        self.mgr = {}
        self.ctx = {v: int(k) + 1 for k, v in pids.items()}
        self.base = {}

    def folder(self, path, learn=False):
        m = _FOLDER.match(os.path.basename(path))
        if not m or os.path.dirname(path) != self.tmp:
            return "?" + os.path.basename(path)
        if m.group(2) not in self.mgr:
            if not learn:
                return "?mgr"
            self.mgr[m.group(2)] = len(self.mgr)
        return "/d" + "m" * self.mgr[m.group(2)] + "_" + "k" * self.ctx.get(m.group(3), 0)

    def file(self, path):
        b = os.path.basename(path)
        return self.folder(os.path.dirname(path)) + "/" + ("a" * self.base[b] if b in self.base else "?" + b[-12:])

    def request(self, r):
        cmd, name, rtype = r
        if rtype == "folder":
            return f"{cmd}:{self.folder(name, learn=(cmd == 'REGISTER'))}:folder"
        return f"{cmd}:{self.file(name)}:{rtype}"

    def disk(self):
        folders, files = [], []
        for d in sorted(os.listdir(self.tmp)):
            p = os.path.join(self.tmp, d)
            folders.append(self.folder(p))
            if os.path.isdir(p):
                for f in sorted(os.listdir(p)):
                    files.append(self.file(os.path.join(p, f)))
        return sorted(folders), sorted(files)


def _norm_reqs(reqs):
    """`os.listdir` order is the OS's: runs of consecutive same-command requests about files are compared as sets."""
    out, run = [], []
    for r in reqs:
        key = r.split(":")[0] if r.endswith(":file") else None
        if run and (key is None or key != run[0].split(":")[0]):
            out += sorted(run)
            run = []
        if key is None:
            out.append(r)
        else:
            run.append(r)
    return out + sorted(run)


# ------------------------------------------------------------------------------------------ running one program


class Run:
    def __init__(self, spec, scratch, repo):
        self.spec = spec
        self.scratch = Path(scratch)
        self.repo = repo
        self.tmp = str(self.scratch / "tmp")
        for d in ("tmp", "own", "sync", "logs"):
            (self.scratch / d).mkdir(parents=True, exist_ok=True)
        self.steps = []  # dict(op, status, reqs, folders, files)
        self.fails = []  # (signature, detail)
        self.children = []  # dict(proc, mgr, alive, log)
        self.inflight = []  # dict(data, mgr)
        self.holdings = []  # dict(child, hid, filename)
        self.nhid = 0
        self.nsync = 0
        self.parent_alive = False
        self.release_count = {}  # real file name -> number of non-forced clean-ups that sent MAYBE_UNLINK for it
        self.released_before = set()
        self.final = None
        self.own_seen = set()

    # -- plumbing
    def sync(self):
        self.nsync += 1
        s = str(self.scratch / "sync" / f"o{self.nsync}")
        open(s, "w").close()
        os.write(self.w, f"REGISTER:{s}:file\nMAYBE_UNLINK:{s}:file\n".encode())
        t_end = time.time() + 30
        while os.path.exists(s):
            if time.time() > t_end:
                raise core.InfraError("c20 client: tracker does not answer")
            time.sleep(0.0005)

    def start(self):
        self.errf = open(self.scratch / "logs" / "parent.err", "wb")
        self.plog = SendLog(str(self.scratch / "logs" / "parent.sends"))
        self.parent = Proc(["parent", str(self.scratch), self.plog.path], self.repo, self.errf,
                           extra_env=dict(JOBLIB_TEMP_FOLDER=self.tmp))
        self.parent.send(dict(max_nbytes=self.spec["max_nbytes"], n_parallel=self.spec["n_parallel"], pool_ks=self.spec["pool_ks"]))
        hello = self.parent.readline(180)
        self.tracker_pid = hello["tracker_pid"]
        self.w = os.open(f"/proc/{self.parent.p.pid}/fd/{hello['fd']}", os.O_WRONLY)
        self.canon = Canon(self.tmp, hello["pids"])
        self.parent_alive = True
        self.plog.new()

    def spawn_child(self, mgr):
        i = len(self.children)
        log = SendLog(str(self.scratch / "logs" / f"child{i}.sends"))
        cerr = open(self.scratch / "logs" / f"child{i}.err", "wb")
        p = Proc(["child", str(self.w), str(self.tracker_pid), log.path], self.repo, cerr, pass_fds=[self.w])
        p.readline(180)
        self.children.append(dict(proc=p, mgr=mgr, alive=True, log=log, err=cerr))

    def child_cmd(self, c, obj):
        ch = self.children[c]
        ch["proc"].send(obj)
        return ch["proc"].readline()

    def end_child(self, c, kill):
        """-> requests the child sent while leaving."""
        ch = self.children[c]
        if not ch["alive"]:
            return []
        ch["alive"] = False
        if kill:
            ch["proc"].p.send_signal(signal.SIGKILL)
        else:
            ch["proc"].send(dict(op="exit"))
            ch["proc"].readline()
        ch["proc"].wait()
        ch["err"].close()
        self.holdings = [h for h in self.holdings if h["child"] != c]
        return ch["log"].new()

    def parent_cmd(self, obj):
        """-> (reply, raw requests in the order they reached the pipe)."""
        self.parent.send(obj)
        reqs = []
        while True:
            r = self.parent.readline()
            mine = self.plog.new()
            reqs += mine
            if obj["op"] in ("terminate", "poolTerminate", "execTerminate"):
                for cmd, name, rtype in mine:  # the extra references this clean-up releases
                    if cmd == "MAYBE_UNLINK" and rtype == "file":
                        self.release_count[name] = self.release_count.get(name, 0) + 1
            if "cb" in r:
                cb = r["cb"]
                for c, ch in enumerate(self.children):
                    if ch["alive"] and ch["mgr"] == cb["end_workers"]:
                        reqs += self.end_child(c, cb["kill"])
                self.inflight = [i for i in self.inflight if i["mgr"] != cb["end_workers"]]
                self.parent.send(dict(ack=True))
                continue
            return r, reqs

    # -- one operation
    def do(self, op):
        name = op["op"]
        status, reqs = "ok", []
        if not self.parent_alive and name not in ("load", "drop", "childExit", "childKill"):
            status = "skip"
        elif name in ("configure", "poolConfigure", "terminate", "poolTerminate", "abort", "execTerminate"):
            r, reqs = self.parent_cmd(op)
            status = r["status"]
        elif name == "spawn":
            r, reqs = self.parent_cmd(op)
            status = r["status"]
            if status == "ok":
                self.spawn_child(r["mgr"])
        elif name == "reduce":
            r, reqs = self.parent_cmd(dict(op="reduce", k=op["k"], a=op["a"]))
            status = r["status"]
            if status == "ok":
                if r.get("basename"):
                    self.canon.base[r["basename"]] = op["a"]["id"]
                if r["temp_memmap"]:
                    self.inflight.append(dict(data=r["data"], mgr=r["mgr"]))
        elif name == "load":
            c, i = op["c"], op["i"]
            if not (c < len(self.children) and self.children[c]["alive"] and i < len(self.inflight)
                    and self.inflight[i]["mgr"] == self.children[c]["mgr"]):
                status = "skip"
            else:
                it = self.inflight.pop(i)
                self.nhid += 1
                r = self.child_cmd(c, dict(op="load", data=it["data"], hid=str(self.nhid)))
                if r.get("ok") and r.get("filename"):
                    self.holdings.append(dict(child=c, hid=str(self.nhid), filename=r["filename"]))
                elif r.get("err") == "FileNotFoundError":
                    status = "loadfail"
                else:
                    status = "load:" + str(r.get("err") or r.get("kind"))
                reqs = self.children[c]["log"].new()
        elif name == "drop":
            if op["i"] >= len(self.holdings):
                status = "skip"
            else:
                h = self.holdings.pop(op["i"])
                self.child_cmd(h["child"], dict(op="drop", hid=h["hid"]))
                reqs = self.children[h["child"]]["log"].new()
        elif name in ("childExit", "childKill"):
            c = op["c"]
            if not (c < len(self.children) and self.children[c]["alive"]):
                status = "skip"
            else:
                reqs = self.end_child(c, name == "childKill")
        elif name == "exitParent":
            for c in range(len(self.children)):
                reqs += self.end_child(c, False)
            self.inflight = []
            self.parent.send(dict(op="exit"))
            try:
                self.parent.readline()
            except Gone:
                pass
            self.parent.wait()
            self.parent_alive = False
            reqs += self.plog.new()
        elif name == "killParent":
            self.parent.p.send_signal(signal.SIGKILL)
            self.parent.wait()
            self.parent_alive = False
            self.inflight = []
            self.plog.new()
        else:
            raise core.InfraError(f"c20 client: op {name}")
        self.sync()
        creqs = [self.canon.request(r) for r in reqs]
        folders, files = self.canon.disk()
        held = sorted({self.canon.file(h["filename"]) for h in self.holdings if self.children[h["child"]]["alive"]})
        self.steps.append(dict(op=op, status=status, reqs=creqs, folders=folders, files=files, held=held))
        self.oracle(op)

    def oracle(self, op):
        """No model here: a file a live worker holds a memmap of must exist; the harness's own files are never touched."""
        for c, ch in enumerate(self.children):
            if not ch["alive"] or not any(h["child"] == c for h in self.holdings):
                continue
            r = self.child_cmd(c, dict(op="check"))
            for hid, (fn, exists, _same) in r["held"].items():
                if not exists and fn not in self.released_before:
                    self.released_before.add(fn)
                    # F45: the file's extra reference has been released more than once (one MAYBE_UNLINK per clean-up
                    # that found the file, but at most one extra REGISTER per file name)
                    sig = KNOWN_SIG if self.release_count.get(fn, 0) >= 2 else "client:deleted-while-held"
                    self.fails.append((sig, dict(step=len(self.steps) - 1, op=op, file=self.canon.file(fn), worker=c)))
        have = set(os.listdir(self.scratch / "own"))
        if not (self.own_seen <= have):
            self.fails.append(("client:deleted-foreign-path", dict(files=sorted(self.own_seen - have))))
        self.own_seen |= have

    def run(self):
        try:
            self.start()
            for op in self.spec["ops"]:
                self.do(op)
            self.finish()
        finally:
            self.teardown()
        return self

    def finish(self):
        if self.parent_alive:
            self.do(dict(op="killParent"))
        for c in range(len(self.children)):
            self.end_child(c, True)
        os.close(self.w)
        self.w = None
        t_end = time.time() + 30
        while not _pid_gone(self.tracker_pid) and time.time() < t_end:
            time.sleep(0.003)
        if not _pid_gone(self.tracker_pid):
            self.fails.append(("tracker:hang-after-eof", "tracker still alive 30 s after the last client left"))
            return
        self.final = sorted(os.listdir(self.tmp))
        if self.final:
            self.fails.append(("client:leak-after-eof", dict(left=[self.canon.folder(os.path.join(self.tmp, d)) for d in self.final])))

    def teardown(self):
        for ch in self.children:
            if ch["alive"]:
                ch["proc"].p.kill()
                ch["proc"].wait()
        if getattr(self, "parent", None) is not None and self.parent.p.poll() is None:
            self.parent.p.kill()
            self.parent.wait()
        if getattr(self, "w", None) is not None:
            os.close(self.w)
        if getattr(self, "tracker_pid", None):
            t_end = time.time() + 10
            while not _pid_gone(self.tracker_pid) and time.time() < t_end:
                time.sleep(0.01)
            if not _pid_gone(self.tracker_pid):
                try:
                    os.kill(self.tracker_pid, signal.SIGKILL)
                except OSError:
                    pass
        if getattr(self, "errf", None):
            self.errf.close()
            self.stderr = (self.scratch / "logs" / "parent.err").read_text(errors="replace")
        else:
            self.stderr = ""


def _pid_gone(pid):
    try:
        with open(f"/proc/{pid}/stat") as f:
            st = f.read()
    except OSError:
        return True
    return st.rsplit(")", 1)[1].split()[0] in ("Z", "X")


# ------------------------------------------------------------------------------------------ the model side


def model_requests(spec, fix):
    mx = spec["max_nbytes"]
    out = [" ".join(["C RESET", "1" if fix else "0", "-" if mx is None else str(mx), str(spec["n_parallel"])]
                    + [str(k) for k in spec["pool_ks"]])]
    for op in spec["ops"]:
        n = op["op"]
        if n in ("configure", "spawn", "terminate", "poolConfigure", "poolTerminate"):
            out.append(f"C {n} {op['k']}")
        elif n == "reduce":
            a = op["a"]
            out.append(f"C reduce {op['k']} {a['id']} {int(a['memmap_backed'])} {int(a['hasobject'])} {a['nbytes']}")
        elif n == "load":
            out.append(f"C load {op['c']} {op['i']}")
        elif n == "drop":
            out.append(f"C drop {op['i']}")
        elif n in ("childExit", "childKill"):
            out.append(f"C {n} {op['c']}")
        elif n == "abort":
            out.append(f"C abort {op['k']} {int(op['ensure_ready'])}")
        elif n == "execTerminate":
            out.append(f"C execTerminate {int(op['kill'])}")
        elif n in ("exitParent", "killParent"):
            out.append(f"C {n}")
        else:
            raise core.InfraError(f"op {n}")
    return out


def _parse_step(rep):
    parts = [p.strip() for p in rep.split("|")]
    if len(parts) != 6 or parts[5] not in ("0", "1"):
        raise core.InfraError(f"c20 client: driver reply {rep!r}")
    return dict(status=parts[0], reqs=[x for x in parts[1].split(";") if x], folders=sorted(x for x in parts[2].split(",") if x),
                files=sorted(x for x in parts[3].split(",") if x), bad=sorted(x for x in parts[4].split(",") if x), dup=parts[5] == "1")


_HAS_FIX_PROBE = r"""
import os, sys, tempfile
import joblib._memmapping_reducer as mr
calls = []
class _RT:
    def register(self, *a): pass
    def unregister(self, *a): pass
    def maybe_unlink(self, name, rtype): calls.append(name)
mr.resource_tracker = _RT()
d = tempfile.mkdtemp(prefix="verif-hasfix-")
m = mr.TemporaryResourcesManager(temp_folder_root=d)
folder = m.resolve_temp_folder_name()
os.makedirs(folder, exist_ok=True)
open(os.path.join(folder, "1-2-x.pkl"), "w").close()
m._clean_temporary_resources(force=False, allow_non_empty=False)
m._clean_temporary_resources(force=False, allow_non_empty=False)
print(len(calls))
"""


def has_fix(repo):
    """Which variant of the code the MODEL must follow (before / after the F45 repair), decided by behaviour, not by the source
    text: a context holding one file is cleaned twice without force and the MAYBE_UNLINK requests are counted (1 = each extra
    reference is released once = repaired, 2 = released at every clean-up).  Anything else: the current tree's variant."""
    import subprocess
    try:
        p = subprocess.run([core.PY, "-B", "-c", _HAS_FIX_PROBE], env=dict(os.environ, PYTHONPATH=str(repo)), capture_output=True,
                           text=True, timeout=60)
        n = p.stdout.strip().splitlines()[-1] if p.stdout.strip() else ""
        if n == "2":
            return False
    except Exception:  # noqa: BLE001 - a probe never turns a changed tree into an infrastructure error
        pass
    return True


def judge(run, replies, res, idx):
    spec = run.spec
    desc = dict(client_program=spec, idx=idx)
    for sig, detail in run.fails:
        res.fail(sig, desc, detail)
    if replies[0].strip() != "ok":
        raise core.InfraError("c20 client: driver out of step")
    nontrivial = False
    # what the oracle saw: (step, file) of every "deleted while a live worker maps it", and whether it classified it as F45
    seen = {}
    for sig, detail in run.fails:
        if sig.startswith("client:deleted-while-held"):
            seen.setdefault(detail["step"], {})[detail["file"]] = sig == KNOWN_SIG
    flagged = set()
    for i, st in enumerate(run.steps):
        m = _parse_step(replies[1 + i])
        res.evaluations += 1
        impl = dict(status=st["status"], reqs=_norm_reqs(st["reqs"]), folders=st["folders"], files=st["files"])
        mod = dict(status=m["status"], reqs=_norm_reqs(m["reqs"]), folders=m["folders"], files=m["files"])
        if impl != mod:
            diff = {k: (impl[k], mod[k]) for k in impl if impl[k] != mod[k]}
            res.diverge("client-step", desc, dict(step=i, op=st["op"], **{k: v[0] for k, v in diff.items()}),
                        dict(step=i, **{k: v[1] for k, v in diff.items()}))
            break
        # the model's monitor against the oracle: what the oracle saw deleted under a live memmap the model must have
        # recorded at the same step (with `dup` set when the oracle counted two releases); what the model recorded and
        # a live worker still maps afterwards the oracle must have seen
        o_now = seen.get(i, {})
        flagged |= set(o_now)
        missed = sorted(f for f in o_now if f not in m["bad"])
        unseen = sorted(f for f in m["bad"] if f in st.get("held", []) and f not in flagged)
        nodup = sorted(f for f, known in o_now.items() if known and not m["dup"])
        if missed or unseen or nodup:
            res.diverge("client-monitor", desc, dict(step=i, op=st["op"], oracle=sorted(o_now), held=st.get("held", [])),
                        dict(step=i, bad=m["bad"], dup=m["dup"], missed=missed, unseen=unseen, nodup=nodup))
            break
        if m["bad"]:
            res.count("model-monitor:deleted-while-in-use", len(m["bad"]))
        res.count("cop:" + st["op"]["op"] + ("" if st["status"] == "ok" else ":" + st["status"]))
        for r in st["reqs"]:
            res.count("creq:" + r.split(":")[0] + ":" + r.rsplit(":", 1)[1])
            if r.startswith("MAYBE_UNLINK") or r.startswith("UNREGISTER"):
                nontrivial = True
    else:
        if run.final is not None:
            eof = replies[1 + len(run.steps)].split("|")
            left = [x for x in (eof[2].strip() + "," + eof[3].strip()).split(",") if x]
            if left or run.final:
                res.diverge("client-eof", desc, dict(left=run.final), dict(left=left))
    nk = len(re.findall(r"^KeyError", run.stderr, re.M))
    res.count("tracker-keyerror-reports", nk)
    unk = [ln for ln in run.stderr.splitlines() if ln.strip() and not (
        ln.startswith(("Traceback", "  ", "KeyError")) or "UserWarning: resource_tracker: There appear to be" in ln
        or "warnings.warn(" in ln or re.search(r"resource_tracker: \S+: FileNotFoundError\(", ln))]
    if unk:
        res.fail("client:stderr-unclassified", desc, [u[-200:] for u in unk[:4]])
    res.traces_validated += 1
    if nontrivial:
        res.nontrivial.add("client:" + hashlib.sha1(json.dumps(spec, sort_keys=True).encode()).hexdigest())
    res.sample(dict(client_program=[o["op"] for o in spec["ops"]][:14]), cap=8)


# ------------------------------------------------------------------------------------------ generating programs


class _Gen:
    """Program generator with a light bookkeeping of what is enabled (so that most generated operations do something).
    NOT the model: a wrong guess only produces an operation that both sides skip."""

    def __init__(self, rng):
        self.rng = rng
        self.n_par = 4
        self.pool_ks = [3] if rng.random() < 0.3 else []
        self.loky_ks = [k for k in range(self.n_par) if k not in self.pool_ks]
        self.hot = rng.sample(self.loky_ks, rng.choice([1, 2, 2, 3]))
        self.mx = MAX_NBYTES
        self.ops = []
        self.backend = {}  # k -> manager token
        self.mgr = {}  # token -> dict(shutdown, pool, default_args)
        self.executor = None
        self.last_args = None
        self.children = []  # [token, alive]
        self.inflight = []  # token
        self.holdings = []  # child
        self.ntok = 0
        self.arrays = {}
        self.alive = True

    def new_mgr(self, pool=False, default_args=False):
        self.ntok += 1
        self.mgr[self.ntok] = dict(shutdown=False, pool=pool, default_args=default_args)
        return self.ntok

    def shut(self, tok):
        self.mgr[tok]["shutdown"] = True
        for c, ch in enumerate(self.children):
            if ch[1] and ch[0] == tok:
                ch[1] = False
                self.holdings[:] = [h for h in self.holdings if h != c]
        self.inflight[:] = [t for t in self.inflight if t != tok]

    def array(self):
        rng, mx = self.rng, self.mx
        if self.arrays and rng.random() < 0.6:
            return rng.choice(list(self.arrays.values()))
        aid = len(self.arrays) + 1
        r = rng.random()
        if r < 0.74:
            a = dict(id=aid, memmap_backed=False, hasobject=False, nbytes=mx + rng.choice([1, 8, 1000]))
        elif r < 0.82:
            a = dict(id=aid, memmap_backed=False, hasobject=False, nbytes=rng.choice([mx, mx - 1, 8]))
        elif r < 0.90:
            a = dict(id=aid, memmap_backed=False, hasobject=True, nbytes=mx * 2)
        elif r < 0.95:
            a = dict(id=aid, memmap_backed=False, hasobject=False, nbytes=2000000)  # above the 1e6 of a re-configured executor
        else:
            a = dict(id=aid, memmap_backed=True, hasobject=False, nbytes=mx * 2)
        self.arrays[aid] = a
        return a

    def live_backends(self):
        return [k for k, t in self.backend.items() if not self.mgr[t]["shutdown"]]

    def n_alive(self, tok=None):
        return sum(1 for ch in self.children if ch[1] and (tok is None or ch[0] == tok))

    # -- one operation of each kind (returns False when it cannot be produced now)
    def configure(self, k=None):
        rng = self.rng
        if not self.alive:
            return False
        if k is None:
            k = rng.choice(self.hot) if rng.random() < 0.8 else rng.choice(self.loky_ks)
        args = ("args", k % 2)
        reuse = self.last_args is None or self.last_args == args
        self.last_args = args
        e = self.executor
        if e is None or self.mgr[e]["shutdown"] or not reuse:
            if e is not None:
                self.shut(e)
            self.executor = self.new_mgr()
        self.backend[k] = self.executor
        self.ops.append(dict(op="configure", k=k))
        return True

    def pool_configure(self):
        if not self.alive or not self.pool_ks:
            return False
        k = self.pool_ks[0]
        self.backend[k] = self.new_mgr(pool=True)
        self.ops.append(dict(op="poolConfigure", k=k))
        return True

    def spawn(self, k=None):
        lb = self.live_backends()
        if not self.alive or not lb:
            return False
        if k is None or k not in lb:
            k = self.rng.choice(lb)
        self.children.append([self.backend[k], True])
        self.ops.append(dict(op="spawn", k=k))
        return True

    def reduce(self, k=None, a=None):
        lb = self.live_backends()
        if not self.alive or not lb:
            return False
        if k is None or k not in lb:
            k = self.rng.choice(lb)
        a = a or self.array()
        t = self.backend[k]
        lim = 1000000 if self.mgr[t]["default_args"] else self.mx
        if not a["memmap_backed"] and not a["hasobject"] and a["nbytes"] > lim:
            self.inflight.append(t)
        self.ops.append(dict(op="reduce", k=k, a=a))
        return True

    def load(self):
        rng = self.rng
        pairs = [(c, i) for c, ch in enumerate(self.children) if ch[1] for i, t in enumerate(self.inflight) if t == ch[0]]
        if not pairs:
            return False
        if rng.random() < 0.04:
            c, i = rng.randrange(len(self.children)), rng.randrange(len(self.inflight) + 1)
        else:
            c, i = rng.choice(pairs)
            self.inflight.pop(i)
            self.holdings.append(c)  # (a load that fails leaves no holding: then a later `drop` is skipped by both sides)
        self.ops.append(dict(op="load", c=c, i=i))
        return True

    def drop(self):
        if not self.holdings:
            return False
        i = self.rng.randrange(len(self.holdings))
        self.holdings.pop(i)
        self.ops.append(dict(op="drop", i=i))
        return True

    def child_end(self, kill):
        cs = [c for c, ch in enumerate(self.children) if ch[1]]
        if not cs:
            return False
        c = self.rng.choice(cs)
        self.children[c][1] = False
        self.holdings[:] = [h for h in self.holdings if h != c]
        self.ops.append(dict(op="childKill" if kill else "childExit", c=c))
        return True

    def terminate(self, k=None):
        if not self.alive or not self.backend:
            return False
        if k is None or k not in self.backend:
            k = self.rng.choice(list(self.backend))
        t = self.backend.pop(k)
        if self.mgr[t]["pool"]:
            self.shut(t)
            self.ops.append(dict(op="poolTerminate", k=k))
        else:
            self.ops.append(dict(op="terminate", k=k))
        return True

    def abort(self, k=None):
        ks = [k2 for k2, t in self.backend.items() if not self.mgr[t]["pool"]]
        if not self.alive or not ks:
            return False
        if k is None or k not in ks:
            k = self.rng.choice(ks)
        er = self.rng.random() < 0.6
        self.shut(self.backend.pop(k))
        if er:  # re-configured with P[k]'s own arguments (/repo 7487594; with bare defaults before)
            self.last_args = ("args", k % 2)
            self.executor = self.new_mgr()
            self.backend[k] = self.executor
        self.ops.append(dict(op="abort", k=k, ensure_ready=er))
        return True

    def exec_terminate(self):
        if not self.alive or self.executor is None:
            return False
        kill = self.rng.random() < 0.5
        self.shut(self.executor)
        self.ops.append(dict(op="execTerminate", kill=kill))
        return True

    def parent_end(self, kill):
        if not self.alive:
            return False
        self.alive = False
        if not kill:
            for ch in self.children:
                ch[1] = False
            self.holdings[:] = []
        self.inflight[:] = []
        self.ops.append(dict(op="killParent" if kill else "exitParent"))
        return True

    def noise(self):
        """One operation drawn from everything that is possible now."""
        cands = [(self.load, 5), (self.drop, 2.5), (lambda: self.child_end(False), 0.3), (lambda: self.child_end(True), 0.3)]
        if self.alive:
            cands += [(self.configure, 3 if not self.backend else 1.0), (self.pool_configure, 0.5),
                      (self.spawn, 1.5 if self.n_alive() < 3 else 0.2), (self.reduce, 4), (self.terminate, 2.0), (self.abort, 0.4),
                      (self.exec_terminate, 0.25), (lambda: self.parent_end(False), 0.2), (lambda: self.parent_end(True), 0.12)]
        f = self.rng.choices([c[0] for c in cands], [c[1] for c in cands])[0]
        return f()

    def result(self):
        return dict(max_nbytes=self.mx, n_parallel=self.n_par, pool_ks=self.pool_ks, ops=self.ops)


def gen_program(rng, big=False):
    g = _Gen(rng)
    if rng.random() < 0.4:  # free interleaving
        n_ops = rng.choice([8, 14, 20, 28, 36] + ([50, 70] if big else []))
        tries = 0
        while len(g.ops) < n_ops and tries < 4 * n_ops:
            tries += 1
            g.noise()
        return g.result()
    # call-structured: what a sequence of Parallel calls does, with disturbances
    n_calls = rng.choice([2, 3, 4, 5] + ([7, 9] if big else []))
    for _ in range(n_calls):
        if not g.alive:
            break
        use_pool = g.pool_ks and rng.random() < 0.3
        if use_pool:
            g.pool_configure()
            k = g.pool_ks[0]
        else:
            k = rng.choice(g.hot) if rng.random() < 0.85 else rng.choice(g.loky_ks)
            g.configure(k)
        while g.n_alive(g.backend.get(k)) < rng.choice([1, 2, 2]):
            g.spawn(k)
        for _ in range(rng.choice([1, 2, 3, 4])):
            g.reduce(k)
            if rng.random() < 0.85:
                g.load()
            if rng.random() < 0.55:
                g.drop()
            if rng.random() < 0.12:
                g.noise()
        r = rng.random()
        if r < 0.08:
            g.abort(k)
        elif r < 0.12:
            g.child_end(True)
            g.abort(k)
        elif r < 0.92:
            g.terminate(k)
        if rng.random() < 0.4:
            g.drop()
        if rng.random() < 0.15:
            g.noise()
    while g.holdings and rng.random() < 0.7:
        g.drop()
    r = rng.random()
    if r < 0.45:
        g.parent_end(False)
    elif r < 0.65:
        g.parent_end(True)
        while rng.random() < 0.6 and (g.drop() or g.child_end(rng.random() < 0.5)):
            pass
    return g.result()


def gen_shared_program(rng, big=False):
    """Several `Parallel` objects with equal executor arguments: ONE reusable executor, ONE manager, one context (folder) per
    object; their calls interleave, workers keep memmaps of earlier calls (of any context) across later calls, the same
    object is called again while files of its earlier calls are still mapped.  What the manager remembers per manager
    (`_released_files`, `_cached_temp_folders`) and the reducer per executor (`_temporary_memmaped_filenames`) is exercised
    across contexts here; the free and the call-structured programs mostly stay inside one context at a time."""
    g = _Gen(rng)
    par = rng.choice([0, 0, 1])
    ks = [k for k in g.loky_ks if k % 2 == par]
    if len(ks) < 2:
        par, ks = 0, [0, 2]
    g.hot = ks
    if rng.random() < 0.5:  # all objects enter first (nested / long-lived managed blocks), calls follow
        for k in ks:
            g.configure(k)
    n_calls = rng.choice([3, 4, 5, 6] + ([8, 10] if big else []))
    for _ in range(n_calls):
        if not g.alive:
            break
        k = rng.choice(ks)
        if k not in g.backend or rng.random() < 0.8:
            g.configure(k)
        want = rng.choice([1, 1, 2])
        for _ in range(want):
            if g.n_alive(g.backend.get(k)) < want:
                g.spawn(k)
        for _ in range(rng.choice([1, 1, 2, 3])):
            if rng.random() < 0.5:  # an array no other call has sent yet
                aid = len(g.arrays) + 1
                a = dict(id=aid, memmap_backed=False, hasobject=False, nbytes=g.mx + rng.choice([1, 8, 1000]))
                g.arrays[aid] = a
                g.reduce(k, a)
            else:
                g.reduce(k)
            if rng.random() < 0.9:
                g.load()
            if rng.random() < 0.3:
                g.drop()
        r = rng.random()
        if r < 0.9:
            g.terminate(k)
        elif r < 0.94:
            g.exec_terminate()
        if rng.random() < 0.25:
            g.drop()
        if rng.random() < 0.08:
            g.noise()
    while g.holdings and rng.random() < 0.7:
        g.drop()
    r = rng.random()
    if r < 0.5:
        g.parent_end(False)
    elif r < 0.65:
        g.parent_end(True)
    return g.result()


def _cfg(k):
    return dict(op="configure", k=k)


def _arr(i, nbytes=MAX_NBYTES + 8, **kw):
    return dict(id=i, memmap_backed=kw.get("backed", False), hasobject=kw.get("obj", False), nbytes=nbytes)


def corpus_programs():
    """Hand-written regression programs, run first."""
    A, B = _arr(1), _arr(2)
    P = lambda ops, pool=(): dict(max_nbytes=MAX_NBYTES, n_parallel=4, pool_ks=list(pool), ops=ops)  # noqa: E731
    red = lambda k, a: dict(op="reduce", k=k, a=a)  # noqa: E731
    ld = lambda c, i: dict(op="load", c=c, i=i)  # noqa: E731
    return [
        # the ordinary call: reduce twice for two workers, both drop, terminate -> file then folder gone
        P([_cfg(0), dict(op="spawn", k=0), dict(op="spawn", k=0), red(0, A), red(0, A), ld(0, 0), ld(1, 0), dict(op="drop", i=0),
           dict(op="drop", i=0), dict(op="terminate", k=0), dict(op="exitParent")]),
        # F45: a worker keeps the memmap across calls; the context is terminated again
        P([_cfg(0), dict(op="spawn", k=0), red(0, A), ld(0, 0), dict(op="terminate", k=0), _cfg(0), dict(op="terminate", k=0),
           dict(op="drop", i=0), dict(op="exitParent")]),
        # the same array in a later call of the same Parallel (no extra reference the second time)
        P([_cfg(0), dict(op="spawn", k=0), red(0, A), ld(0, 0), dict(op="drop", i=0), dict(op="terminate", k=0), _cfg(0), red(0, A),
           ld(0, 0), dict(op="drop", i=0), red(0, A), ld(0, 0), dict(op="terminate", k=0), dict(op="drop", i=0), dict(op="killParent")]),
        # two Parallel objects sharing the reusable executor: one manager, two folders
        P([_cfg(0), _cfg(2), dict(op="spawn", k=0), red(0, A), red(2, A), red(2, B), ld(0, 0), ld(0, 0), ld(0, 0), dict(op="terminate", k=0),
           dict(op="drop", i=0), dict(op="terminate", k=2), dict(op="drop", i=0), dict(op="drop", i=0), dict(op="terminate", k=2),
           dict(op="exitParent")]),
        # one manager, two contexts, clean-ups interleaved while a worker keeps a file of the first: clean 0 (extra reference of A
        # given back, the worker's stays), a whole call of 2 (its file comes and goes / stays), 0 entered and cleaned again
        P([_cfg(0), _cfg(2), dict(op="spawn", k=0), red(0, A), ld(0, 0), dict(op="terminate", k=0), red(2, B), ld(0, 0),
           dict(op="drop", i=1), dict(op="terminate", k=2), _cfg(0), dict(op="terminate", k=0), _cfg(2), dict(op="terminate", k=2),
           _cfg(0), dict(op="terminate", k=0), dict(op="drop", i=0), dict(op="exitParent")]),
        P([_cfg(1), dict(op="spawn", k=1), red(1, A), ld(0, 0), dict(op="terminate", k=1), _cfg(3), red(3, A), red(3, B), ld(0, 0),
           dict(op="terminate", k=3), _cfg(1), red(1, B), dict(op="terminate", k=1), dict(op="drop", i=1), _cfg(3),
           dict(op="terminate", k=3), _cfg(1), dict(op="terminate", k=1), dict(op="drop", i=0), dict(op="killParent")]),
        # arguments change: the executor is replaced, its workers leave; the stale backend terminates on the old manager
        P([_cfg(0), dict(op="spawn", k=0), red(0, A), ld(0, 0), _cfg(1), dict(op="spawn", k=1), red(1, A), ld(1, 0),
           dict(op="terminate", k=0), dict(op="terminate", k=1), dict(op="childKill", c=1), dict(op="exitParent")]),
        # abort: workers killed, pending pickle lost, force clean-up, re-configured with the Parallel object's arguments
        P([_cfg(0), dict(op="spawn", k=0), red(0, A), red(0, B), ld(0, 0), dict(op="abort", k=0, ensure_ready=True), red(0, A),
           dict(op="spawn", k=0), red(0, _arr(3, 2000000)), ld(1, 0), dict(op="terminate", k=0), dict(op="drop", i=0), dict(op="exitParent")]),
        P([_cfg(0), dict(op="spawn", k=0), red(0, A), ld(0, 0), dict(op="childKill", c=0), dict(op="abort", k=0, ensure_ready=False),
           dict(op="terminate", k=0), _cfg(0), red(0, A), dict(op="killParent")]),
        # MemmappingExecutor.terminate with and without kill_workers
        P([_cfg(0), dict(op="spawn", k=0), red(0, A), ld(0, 0), red(0, B), dict(op="execTerminate", kill=False), _cfg(0), red(0, A),
           dict(op="execTerminate", kill=True), dict(op="exitParent")]),
        # the branches that must send nothing
        P([_cfg(0), red(0, _arr(1, MAX_NBYTES)), red(0, _arr(2, 8)), red(0, _arr(3, MAX_NBYTES * 2, obj=True)),
           red(0, _arr(4, MAX_NBYTES * 2, backed=True)), red(0, _arr(5, MAX_NBYTES + 1)), dict(op="terminate", k=0), dict(op="exitParent")]),
        # multiprocessing backend: MemmappingPool, unlink_on_gc_collect=False
        P([dict(op="poolConfigure", k=3), dict(op="spawn", k=3), red(3, A), red(3, A), ld(0, 0), red(3, B), dict(op="drop", i=0),
           dict(op="poolTerminate", k=3), dict(op="poolConfigure", k=3), red(3, A), dict(op="exitParent")], pool=[3]),
        # workers outlive a killed main process
        P([_cfg(0), dict(op="spawn", k=0), dict(op="spawn", k=0), red(0, A), red(0, A), ld(0, 0), ld(1, 0), dict(op="killParent"),
           dict(op="drop", i=0), dict(op="childExit", c=1), dict(op="childKill", c=0)]),
    ]


# ------------------------------------------------------------------------------------------ entry points


def explore(ctx, res, programs, salt, workers=8):
    repo = str(core.REPO)
    fix = has_fix(repo)
    res.extra["client_variant"] = "F45-repaired" if fix else "pinned"

    def one(args):
        idx, spec = args
        return Run(spec, ctx.scratch / f"cl-{salt}-{idx}", repo).run()

    with cf.ThreadPoolExecutor(max_workers=workers) as ex:
        runs = list(ex.map(one, list(enumerate(programs))))
    reqs, spans = [], []
    for r in runs:
        q = model_requests(dict(r.spec, ops=[s["op"] for s in r.steps]), fix) + ["C EOF"]
        spans.append((len(reqs), len(q)))
        reqs += q
    replies = ctx.driver().run(reqs) if reqs else []
    for idx, (r, (a, n)) in enumerate(zip(runs, spans)):
        judge(r, replies[a:a + n], res, idx)
    return res


def programs_for(ctx, n, salt, big=False):
    rng = ctx.rng("client-" + salt)
    return [gen_program(rng, big=big) for _ in range(n)]


def shared_programs_for(ctx, n, salt, big=False):
    rng = ctx.rng("client-shared-" + salt)
    return [gen_shared_program(rng, big=big) for _ in range(n)]
