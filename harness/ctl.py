"""Deterministic driver for `joblib.Parallel` through public APIs only (DESIGN 2.3, `ctlbackend`).

Everything runs on ONE thread.  A scenario is data:
  * a configuration (n_jobs, batch size script, pre_dispatch, return_as, timeout, managed, abort policy),
  * a sequence of calls on one Parallel object (task count, failing tasks, failing iterator step, consumer ops),
  * a schedule: at every *hook point* the scheduler may deliver completions of parked batches by invoking
    their completion callbacks inline (the Parallel lock is an RLock and is not held at hook points).

Hook points (the places where, in a real run, other threads' callbacks can get in between two actions of the
caller): `backend.configure`, `backend.compute_batch_size` when called by the caller (not from inside a callback),
the retrieval loop's `time.sleep`, consumer-side pauses between `next()` calls, `backend.abort_everything` (while the
backend cancels, batches in flight may still complete), and between two calls / after the last call on the object.

The event log (`pull`, `submit`, `exec`, `yield`, `ret`, `raise`, `abort`, `start_call`, …) is compared with the log
the Lean model (lean/JoblibModel/ParallelProto.lean) produces for the same scenario.
"""

from __future__ import annotations

import gc
import weakref
import threading
import warnings
from dataclasses import dataclass, field

from . import core


class TaskBoom(Exception):
    pass


class IterBoom(Exception):
    pass


class HangDetected(BaseException):
    pass


class LenBoom(Exception):
    """raised by the `__len__` of the harness-owned input (start-up fault 1)"""


class ConfigureBoom(Exception):
    """raised by `backend.configure` (start-up fault 2; in `__enter__` for the scenario-level enter fault)"""


class StartCallBoom(Exception):
    """raised by `backend.start_call` (start-up fault 4)"""


class IterInitBoom(Exception):
    """raised by the `__iter__` of the harness-owned input (start-up fault 5)"""


# the same four as direct subclasses of BaseException (like KeyboardInterrupt / SystemExit): fault_cls = 1
class LenBoomB(BaseException):
    pass


class ConfigureBoomB(BaseException):
    pass


class StartCallBoomB(BaseException):
    pass


class IterInitBoomB(BaseException):
    pass


def _boom(kind, cls):
    return {1: (LenBoom, LenBoomB), 2: (ConfigureBoom, ConfigureBoomB), 4: (StartCallBoom, StartCallBoomB),
            5: (IterInitBoom, IterInitBoomB)}[kind][1 if cls == 1 else 0]()


# start-up faults of one call (lean/JoblibModel/ParallelStartup.lean): kind -> what raises
FAULT_KINDS = {1: "len(iterable)", 2: "backend.configure", 3: "n_jobs == 0", 4: "backend.start_call", 5: "iter(iterable)",
               6: "pre_dispatch resolution", 7: "islice(iterator, pre_dispatch)"}


# ---------------------------------------------------------------- scenario data


@dataclass
class Call:
    n: int  # number of tasks
    fail: tuple = ()  # positions (0-based within the call) of tasks that raise
    iterfail: int = -1  # position at which the input iterator raises (-1: never)
    cons: tuple = ()  # consumer ops for generator modes: 1 next, 2 close, 3 drop, 4 call-again, 5 pause(hook), 6 leave the with-block
    fault: int = 0  # start-up fault of this call (FAULT_KINDS; 0 none)
    fault_cls: int = 0  # kind 6: class the resolution raises (1 ValueError 2 TypeError 3 ZeroDivisionError 4 OverflowError), as
    #                     predicted by the harness's own table (m1.BAD_PD); kinds 1, 2, 4, 5: 1 = the exception is a direct subclass
    #                     of BaseException; else 0
    fault_pd: object = None  # kinds 6, 7: the value assigned to `Parallel.pre_dispatch` for this call
    # the configuration of THIS call (lean/JoblibModel/ParallelReconf.lean): (nj, bs_auto, bs, pd_mode, pd, pd_expr, timeout),
    # assigned through the public surface immediately before the call: `p.n_jobs` + the backend's `effective_n_jobs()` /
    # `configure()` answer, `p.batch_size`, `p.pre_dispatch`, `p.timeout`.  () = the scenario's configuration.  Either every
    # call of a scenario has one or none has.
    reconf: tuple = ()


@dataclass
class Scenario:
    nj: int = 2
    bs_auto: bool = True
    bs: tuple = (1,)  # auto: scripted compute_batch_size values (last one repeats); fixed: (k,)
    pd_mode: int = 0  # 0 int, 1 'all', 2 expression string
    pd: int = 2  # value pre_dispatch evaluates to (for mode 2: what the harness computed independently)
    pd_expr: str = ""
    ra: int = 0  # 0 list, 1 generator, 2 generator_unordered
    timeout: int = -1  # -1 None, else ticks
    managed: bool = False
    abort_drops: bool = True
    calls: tuple = (Call(4),)
    sched: tuple = ()  # one entry per hook occurrence: tuple of parked indices to complete
    # bytecode-level pre-emption points (oracle-only runs, finer than the Lean model): ((k, how), ...) — at the k-th
    # INSTRUCTION event of the caller inside joblib/parallel.py (lock not held), deliver completions: how = -1 all parked,
    # else parked[how % len]
    instr: tuple = ()
    # further oracle-only features (not in the Lean model):
    midpull_close: tuple = ()  # (call_no, j): the consumer closes the generator while a callback delivered at a consumer
    #                            pause is inside its j-th pull from the input iterable
    verbose: int = 0           # Parallel(verbose=...): progress printing must not change behaviour (output is discarded)
    reenter: str = ""          # oracle-only: "configure" | "start_call" | "bs": at the first occurrence of that backend call the
    #                            same Parallel object is called AGAIN (from the same thread, inside the unfinished call)
    warn_error: bool = False   # oracle-only: the early-exit warning of an abandoned generator is escalated to an error (-W error,
    #                            pytest filterwarnings=error): closing must still stop dispatch and leave the object clean
    sized: bool = False        # the input of every call is an object with __len__ (and a lazy __iter__), not a bare generator:
    #                            whether the input has a length must not change what is pulled when (in the model: no field)
    start_guard: bool = True   # model switch only: which code variant the MODEL follows (True: /repo as it is, with the guard of
    #                            `Parallel.__call__` around `_start_call`; False: the code before the F52 repair). Chosen by a probe.
    enter_cls: int = 0
    enter_fault: int = 0       # 2: `backend.configure` raises in `__enter__` (managed only): the with statement fails, the calls are
    #                            then made on the object outside any block
    probe_wait: bool = False   # evaluate Parallel._wait_retrieval() at every bytecode of completion callbacks delivered
    #                            while the caller sleeps in the retrieval loop (what the caller would see if it ran there)

    # completions delivered INSIDE `backend.submit` (oracle-only; round 5): ((k, how), ...) — during the k-th `submit` of the
    # run (0-based, the caller's and the callbacks' submits counted together), before it returns and while the dispatching
    # thread holds `Parallel._lock`, completion callbacks run re-entrantly: how = -1 the batch being submitted itself (a
    # future-style backend whose future is already done when the callback is attached: `add_done_callback` runs it inline),
    # -2 every parked batch oldest first, how >= 0 parked[how % len] (a backend whose `submit` drives its own event loop)
    insub: tuple = ()
    # the batch sizes come from the REAL `AutoBatchingMixin` mixed into the controllable backend (oracle-only; round 5): it
    # reads the real Parallel object, keeps its statistics between the calls of a managed object and resets them in
    # `terminate()` like the loky / multiprocessing backends; the fake clock then counts microseconds: one tick (sleep) =
    # ab_tick_us, every `time.time()` call advances it by ab_eps_us (so that every batch has a duration > 0)
    real_ab: bool = False
    ab_tick_us: int = 0
    ab_eps_us: int = 100

    def oracle_only(self):
        return bool(self.instr or self.midpull_close or self.probe_wait or self.reenter or self.warn_error or self.insub
                    or self.real_ab)

    def tokens(self):
        """Flat integer encoding for the Lean driver."""
        t = [self.nj, int(self.bs_auto), len(self.bs), *self.bs, self.pd_mode, self.pd, self.ra, self.timeout,
             int(self.managed), int(self.abort_drops), len(self.calls)]
        for c in self.calls:
            t += [c.n, len(c.fail), *c.fail, c.iterfail, len(c.cons), *c.cons]
        t.append(len(self.sched))
        for e in self.sched:
            t += [len(e), *e]
        if self.has_faults() or not self.start_guard or self.has_reconf():
            # optional tail (scenarios without start-up faults keep their old encoding)
            t += [int(self.start_guard), self.enter_fault, self.enter_cls if self.enter_fault else 0]
            for c in self.calls:
                t += [c.fault, c.fault_cls]
        if self.has_reconf():
            # second optional section: the configuration of every call
            for c in self.calls:
                nj, auto, bs, pd_mode, pd, _expr, to = c.reconf
                t += [nj, int(auto), len(bs), *bs, pd_mode, pd, to]
        return t

    def has_reconf(self):
        return any(c.reconf for c in self.calls)

    def for_call(self, cno):
        """The scenario with the configuration in force during call `cno` (oracles)."""
        c = self.calls[cno]
        if not c.reconf:
            return self
        import dataclasses
        nj, auto, bs, pd_mode, pd, expr, to = c.reconf
        return dataclasses.replace(self, nj=nj, bs_auto=bool(auto), bs=tuple(bs), pd_mode=pd_mode, pd=pd, pd_expr=expr, timeout=to)

    def has_faults(self):
        return bool(self.enter_fault or any(c.fault for c in self.calls))

    def line(self):
        return " ".join(str(x) for x in self.tokens())

    def to_json(self):
        return dict(nj=self.nj, bs_auto=self.bs_auto, bs=list(self.bs), pd_mode=self.pd_mode, pd=self.pd,
                    pd_expr=self.pd_expr, ra=self.ra, timeout=self.timeout, managed=self.managed,
                    abort_drops=self.abort_drops,
                    calls=[dict(n=c.n, fail=list(c.fail), iterfail=c.iterfail, cons=list(c.cons),
                                **(dict(fault=c.fault, fault_cls=c.fault_cls, fault_pd=c.fault_pd) if c.fault else {}),
                                **(dict(reconf=[c.reconf[0], bool(c.reconf[1]), list(c.reconf[2]), *c.reconf[3:]]) if c.reconf else {}))
                           for c in self.calls],
                    start_guard=self.start_guard, enter_fault=self.enter_fault, enter_cls=self.enter_cls,
                    sched=[list(e) for e in self.sched], instr=[list(e) for e in self.instr],
                    midpull_close=list(self.midpull_close), probe_wait=self.probe_wait, verbose=self.verbose,
                    sized=self.sized, reenter=self.reenter, warn_error=self.warn_error,
                    **(dict(insub=[list(e) for e in self.insub]) if self.insub else {}),
                    **(dict(real_ab=True, ab_tick_us=self.ab_tick_us, ab_eps_us=self.ab_eps_us) if self.real_ab else {}))

    @staticmethod
    def from_json(d):
        return Scenario(nj=d["nj"], bs_auto=d["bs_auto"], bs=tuple(d["bs"]), pd_mode=d["pd_mode"], pd=d["pd"],
                        pd_expr=d.get("pd_expr", ""), ra=d["ra"], timeout=d["timeout"], managed=d["managed"],
                        abort_drops=d["abort_drops"],
                        calls=tuple(Call(c["n"], tuple(c["fail"]), c["iterfail"], tuple(c["cons"]), int(c.get("fault", 0)),
                                         int(c.get("fault_cls", 0)), c.get("fault_pd"),
                                         (lambda r: (r[0], bool(r[1]), tuple(r[2]), *r[3:]) if r else ())(c.get("reconf")))
                                    for c in d["calls"]),
                        start_guard=bool(d.get("start_guard", True)), enter_fault=int(d.get("enter_fault", 0)), enter_cls=int(d.get("enter_cls", 0)),
                        sched=tuple(tuple(e) for e in d["sched"]), instr=tuple(tuple(e) for e in d.get("instr", ())),
                        midpull_close=tuple(d.get("midpull_close", ())), probe_wait=bool(d.get("probe_wait", False)), verbose=int(d.get("verbose", 0)),
                        sized=bool(d.get("sized", False)), reenter=str(d.get("reenter", "")), warn_error=bool(d.get("warn_error", False)),
                        insub=tuple(tuple(e) for e in d.get("insub", ())), real_ab=bool(d.get("real_ab", False)),
                        ab_tick_us=int(d.get("ab_tick_us", 0)), ab_eps_us=int(d.get("ab_eps_us", 100)))


class _Sized:
    """An input with a length whose items are still produced lazily (a dataset-like object)."""

    def __init__(self, gen, n):
        self._gen, self._n = gen, n

    def __len__(self):
        return self._n

    def __iter__(self):
        return self._gen


class _FaultyInput:
    """The harness-owned input of a call with start-up fault 1 (`__len__` raises) or 5 (`__iter__` raises)."""

    def __init__(self, gen, n, fault, cls):
        self._gen, self._n, self._fault, self._cls = gen, n, fault, cls

    def __iter__(self):
        if self._fault == 5:
            raise _boom(5, self._cls)
        return self._gen


class _FaultyInputSized(_FaultyInput):
    def __len__(self):
        if self._fault == 1:
            raise _boom(1, self._cls)
        return self._n


def _faulty_input(gen, n, fault, cls, sized):
    return (_FaultyInputSized if (fault == 1 or sized) else _FaultyInput)(gen, n, fault, cls)


# ---------------------------------------------------------------- the run


class _FakeTime:
    """Replaces the `time` module inside joblib.parallel: integer ticks, sleep = one tick + a hook."""

    def __init__(self, run):
        self.run = run
        self.now = 1000
        self.us = 0  # real_ab scenarios: microseconds elapsed

    def time(self):
        sc = self.run.sc
        if sc.real_ab:
            self.us += sc.ab_eps_us
            return self.us / 1e6
        return self.now

    def sleep(self, _dt):
        self.now += 1
        self.us += self.run.sc.ab_tick_us
        r = self.run
        r.first_sleep_at.setdefault(r.cur_call, len(r.log))
        before = len(r.log)
        had_parked = any(p[3] == r.cur_call for p in r.parked)
        r.sleeping = True
        try:
            r.hook("sleep")
        finally:
            r.sleeping = False
        # how long the caller has been waiting for ONE result: consecutive sleeps with the same batch at the head of the job queue
        try:
            head = id(r.par._jobs[0]) if r.par is not None and len(r.par._jobs) else None
        except Exception:  # noqa: BLE001 - accounting only
            head = None
        if head is not None and head == getattr(r, "_wait_head", None):
            r._wait_run += 1
        else:
            r._wait_head, r._wait_run = head, 1 if head is not None else 0
        c0 = r.cur_call
        r.max_wait_same_head[c0] = max(r.max_wait_same_head.get(c0, 0), r._wait_run)
        if any(e.startswith("complete") for e in r.log[before:]) or not had_parked:
            r.idle_run = 0
        else:
            r.idle_run += 1
            c = r.cur_call
            r.max_idle_with_parked[c] = max(r.max_idle_with_parked.get(c, 0), r.idle_run)


class Run:
    HANG_IDLE = 60

    def __init__(self, sc: Scenario):
        self.sc = sc
        self.log = []
        self.parked = []  # (func, callback, ids, call_no)
        self.sched = list(sc.sched)
        self.in_cb = 0
        self.bs_i = 0
        self.idle = 0
        self.exec_count = {}
        self.pulled_by_call = {}
        self.cur_call = -1
        self.reentered = False
        self.in_next = False
        self.max_parked = 0
        self.hang_at = None
        self.instr_count = 0
        self.instr = dict(sc.instr)
        self.par = None
        self.instr_fired = []
        self.sleeping = False
        self.at_pause = False
        self.cur_gen = None
        self.cb_pulls_at_pause = 0
        self.early_exit_seen = []   # (execs so far, where) : _wait_retrieval() false while a callback is mid-way
        self.n_exec = 0
        self.idle_run = 0
        self.max_idle_with_parked = {}
        self.max_wait_same_head = {}
        self.reentered_call = False
        self.reenter_result = None
        self.in_call = False
        self._wait_head, self._wait_run = None, 0
        self.exited = False
        self._in_probe = False
        self.midpull_closed = False
        self.first_sleep_at = {}
        self.cur_fault = 0     # start-up fault of the call being made (0 outside `par(...)`)
        self.cur_cls = 0
        self.entering = False  # inside `par.__enter__()`
        self.cur_nj, self.cur_bs, self.cur_timeout = sc.nj, sc.bs, sc.timeout  # configuration in force (per-call `reconf`)
        self.n_submit = 0      # submits so far (index of the `insub` entries)
        self.insub = dict(sc.insub)
        self.insub_fired = []
        self.ab_ops = []       # real_ab: ("c", value, n_tasks, n_dispatched, n_workers) | ("d", batch_size, duration_us) | ("r",) | ("n", call)

    def ev(self, s):
        self.log.append(s)

    # --- scheduler
    def hook(self, where):
        if self.in_cb:
            return
        if self.sched:
            entry = self.sched.pop(0)
            for idx in entry:
                if self.parked:
                    self.deliver(idx % len(self.parked))
            if where == "sleep":
                self.idle = 0
        elif where == "sleep":
            if self.parked:
                self.idle = 0
                self.deliver(0)
            else:
                self.idle += 1
                if self.idle > self.HANG_IDLE + max(self.cur_timeout, 0):
                    if self.hang_at is None:
                        self.hang_at = len(self.log)
                    raise HangDetected()

    def reenter_here(self, where):
        """Scenario option `reenter`: call the same Parallel object again from inside its unfinished call."""
        if self.sc.reenter != where or self.reentered_call or self.in_cb or self.par is None or not self.in_call:
            return
        self.reentered_call = True
        import joblib

        try:
            out = self.par(joblib.delayed(int)(k) for k in (7, 8))
            out = list(out) if not isinstance(out, list) else out
            self.ev("reenter-accepted")
            self.reenter_result = ("accepted", out)
        except RuntimeError:
            self.ev("reenter-rejected")
            self.reenter_result = ("rejected",)
        except BaseException as e:  # noqa: BLE001
            self.ev("reenter-raised " + type(e).__name__)
            self.reenter_result = ("raised", type(e).__name__)

    def deliver(self, k):
        func, cb, ids, call_no = self.parked.pop(k)
        self.in_cb += 1
        try:
            self.ev("complete " + ",".join(map(str, ids)))
            try:
                out = func()
            except BaseException as e:  # noqa: BLE001
                out = e
            cb(out)
        finally:
            self.in_cb -= 1

    # --- the run itself
    def execute(self):
        joblib = core.use_repo()
        import joblib.parallel as jp
        from joblib._parallel_backends import ParallelBackendBase

        run = self
        sc = self.sc

        class Ctl(ParallelBackendBase):
            supports_retrieve_callback = True
            uses_threads = True
            supports_sharedmem = True

            def effective_n_jobs(self, n_jobs):
                return 0 if run.cur_fault == 3 else run.cur_nj

            def configure(self, n_jobs=1, parallel=None, **kw):
                self.parallel = parallel
                run.ev("configure")
                run.reenter_here("configure")
                run.hook("configure")
                if run.cur_fault == 2:
                    raise _boom(2, run.cur_cls)
                if run.entering and sc.enter_fault == 2:
                    raise _boom(2, sc.enter_cls)
                return 0 if run.cur_fault == 3 else run.cur_nj

            def start_call(self):
                run.ev("start_call")
                run.reenter_here("start_call")
                if run.cur_fault == 4:
                    raise _boom(4, run.cur_cls)

            def stop_call(self):
                run.ev("stop_call")

            def terminate(self):
                run.ev("terminate")

            def compute_batch_size(self):
                v = run.cur_bs[min(run.bs_i, len(run.cur_bs) - 1)]
                run.bs_i += 1
                run.reenter_here("bs")
                run.hook("bs")
                return v

            def submit(self, func, callback=None):
                ids = [a[0] for (_, a, _) in func.items]
                run.ev("submit " + ",".join(map(str, ids)) + (" @cb" if run.in_cb else ""))
                run.parked.append((func, callback, ids, run.cur_call))
                run.max_parked = max(run.max_parked, len(run.parked))
                k = run.n_submit
                run.n_submit += 1
                how = run.insub.get(k)
                if how is not None:
                    # the completion callback(s) run inline, before `submit` returns (the dispatching thread holds the RLock)
                    run.insub_fired.append((k, how, bool(run.in_cb)))
                    if how == -1:
                        run.deliver(len(run.parked) - 1)
                    elif how == -2:
                        while run.parked:
                            run.deliver(0)
                    else:
                        run.deliver(how % len(run.parked))
                return object()

            def retrieve_result_callback(self, out):
                if isinstance(out, BaseException):
                    raise out
                return out

            def abort_everything(self, ensure_ready=True):
                run.ev(f"abort {int(bool(ensure_ready))}")
                run.hook("abort")  # batches still in flight may complete while the backend cancels them
                if sc.abort_drops:
                    run.parked.clear()

        if sc.real_ab:
            from joblib._parallel_backends import AutoBatchingMixin

            class CtlAuto(AutoBatchingMixin, Ctl):
                """the real auto-batching state machine on the controllable backend"""

                def compute_batch_size(self):
                    v = AutoBatchingMixin.compute_batch_size(self)
                    p = self.parallel
                    run.ab_ops.append(("c", v, getattr(p, "n_tasks", None), getattr(p, "n_dispatched_tasks", 0), sc.nj))
                    run.bs_i += 1
                    run.hook("bs")
                    return v

                def batch_completed(self, batch_size, duration):
                    run.ab_ops.append(("d", batch_size, int(round(duration * 1e6))))
                    return AutoBatchingMixin.batch_completed(self, batch_size, duration)

                def terminate(self):
                    run.ev("terminate")
                    run.ab_ops.append(("r",))
                    self.reset_batch_stats()  # what LokyBackend / MultiprocessingBackend.terminate do

            Ctl = CtlAuto  # noqa: F811

        def task(tid, fails):
            run.exec_count[tid] = run.exec_count.get(tid, 0) + 1
            run.ev(f"exec {tid}")
            run.n_exec += 1
            if fails:
                raise TaskBoom(tid)
            return tid

        def src(call_no, base, call):
            for i in range(call.n):
                if run.in_next:
                    run.reentered = True
                run.in_next = True
                try:
                    if i == call.iterfail:
                        run.ev("pull-raise" + (" @cb" if run.in_cb else ""))
                        raise IterBoom(base + i)
                    run.ev(f"pull {base + i}" + (" @cb" if run.in_cb else ""))
                    if run.in_cb and run.at_pause and sc.midpull_close and sc.midpull_close[0] == call_no:
                        run.cb_pulls_at_pause += 1
                        if run.cb_pulls_at_pause == sc.midpull_close[1] and run.cur_gen is not None:
                            run.ev("close-during-pull")
                            try:
                                run.cur_gen.close()
                            except Warning:
                                pass  # warn_error: the escalated early-exit warning
                            run.ev("closed")
                            run.midpull_closed = True
                    run.pulled_by_call.setdefault(call_no, []).append(base + i)
                finally:
                    run.in_next = False
                yield joblib.delayed(task)(base + i, i in call.fail)
            if call.iterfail == call.n:
                run.ev("pull-raise" + (" @cb" if run.in_cb else ""))
                raise IterBoom(base + call.n)

        ft = _FakeTime(self)
        saved_time = jp.time
        jp.time = ft
        import io as _io
        import sys as _sys
        saved_out = (_sys.stdout, _sys.stderr)
        if sc.verbose:
            _sys.stdout, _sys.stderr = _io.StringIO(), _io.StringIO()
        mon_on = self._monitor_start(jp) if (sc.instr or self.count_instr or sc.probe_wait) else None
        self.outcomes = []
        try:
            with warnings.catch_warnings():
                warnings.simplefilter("ignore")
                if sc.warn_error:
                    warnings.filterwarnings("error", message=".*adjusting the input task iterator.*")
                be = Ctl(nesting_level=0)
                kw = {}
                if sc.timeout >= 0:
                    kw["timeout"] = sc.timeout
                pd = "all" if sc.pd_mode == 1 else (sc.pd_expr if sc.pd_mode == 2 else sc.pd)
                par = joblib.Parallel(
                    n_jobs=sc.nj, backend=be, batch_size=("auto" if sc.bs_auto else sc.bs[0]), pre_dispatch=pd,
                    return_as=["list", "generator", "generator_unordered"][sc.ra], verbose=sc.verbose, **kw)
                self.par = par
                if sc.managed:
                    self.entering = True
                    try:
                        par.__enter__()
                        self.ev("enter")
                    except (ConfigureBoom, ConfigureBoomB) as e:
                        # the with statement failed: neither its body nor __exit__ run; the calls below are made on the
                        # object outside any block
                        self.ev("raise " + _exc_name(e))
                        self.exited = True
                    finally:
                        self.entering = False
                base = 0
                try:
                    for cno, call in enumerate(sc.calls):
                        if cno >= 1:
                            self.hook("between")  # late completions of earlier calls, before _reset_run_tracking
                        self.cur_call = cno
                        self.idle_run = 0
                        self.midpull_closed = False
                        self.ev(f"call {cno}")
                        self.ab_ops.append(("n", cno))
                        self.run_call(par, cno, base, call, src)
                        base += call.n
                except HangDetected:
                    del self.log[self.hang_at:]
                    self.ev("hang")
                    self.outcomes.append(("hang",))
                    return self
                self.hook("between")  # late completions after the last call
                if sc.managed and not self.exited:
                    par.__exit__(None, None, None)
                    self.ev("exit")
        finally:
            jp.time = saved_time
            _sys.stdout, _sys.stderr = saved_out
            if mon_on:
                self._monitor_stop(mon_on)
        return self

    count_instr = False
    MONITORED = ("_start", "dispatch_one_batch", "_retrieve", "_wait_retrieval", "_get_outputs", "__call__",
                 "_reset_run_tracking", "_abort", "_terminate_and_reset", "_raise_error_fast", "_dispatch", "__exit__", "__enter__")

    def _monitor_start(self, jp):
        import sys
        mon = sys.monitoring
        tool = mon.DEBUGGER_ID
        try:
            mon.use_tool_id(tool, "verif-ctl")
        except ValueError:
            mon.free_tool_id(tool)
            mon.use_tool_id(tool, "verif-ctl")
        codes = [getattr(jp.Parallel, n).__code__ for n in self.MONITORED if hasattr(jp.Parallel, n)]
        codes += [getattr(jp.BatchCompletionCallBack, n).__code__ for n in ("get_status", "get_result", "_return_or_raise")]
        codeset = set(codes)
        cb_codes = []
        if self.sc.probe_wait:
            cb_codes = [getattr(jp.BatchCompletionCallBack, n).__code__ for n in
                        ("__call__", "_dispatch_new", "_retrieve_result", "_register_outcome")]
            cb_codes += [getattr(jp.Parallel, n).__code__ for n in ("dispatch_next", "dispatch_one_batch", "_dispatch", "_register_new_job")]
        cbset = set(cb_codes)

        def on_instr(code, off):
            if self._in_probe or self.par is None:
                return
            if self.in_cb:
                if self.sleeping and code in cbset and not self.par._aborting:
                    self._in_probe = True
                    try:
                        if not self.par._wait_retrieval():
                            self.early_exit_seen.append((len(self.log), self.cur_call, code.co_name, off))
                    except Exception:  # noqa: BLE001
                        pass
                    finally:
                        self._in_probe = False
                return
            if code not in codeset:
                return
            lock = getattr(self.par, "_lock", None)
            if lock is not None and lock._is_owned():
                return
            k = self.instr_count
            self.instr_count += 1
            how = self.instr.get(k)
            if how is None or not self.parked:
                return
            self.instr_fired.append((k, code.co_name, off))
            if how < 0:
                while self.parked:
                    self.deliver(0)
            else:
                self.deliver(how % len(self.parked))

        mon.register_callback(tool, mon.events.INSTRUCTION, on_instr)
        codes = list(set(codes) | cbset)
        for c in codes:
            mon.set_local_events(tool, c, mon.events.INSTRUCTION)
        return (mon, tool, codes)

    def _monitor_stop(self, h):
        mon, tool, codes = h
        for c in codes:
            mon.set_local_events(tool, c, 0)
        mon.register_callback(tool, mon.events.INSTRUCTION, None)
        mon.free_tool_id(tool)

    def run_call(self, par, cno, base, call, src):
        sc = self.sc
        try:
            self.in_call = True
            saved_pd = par.pre_dispatch
            try:
                if call.fault in (1, 5):
                    inp = _faulty_input(src(cno, base, call), call.n, call.fault, call.fault_cls, sc.sized)
                else:
                    inp = _Sized(src(cno, base, call), call.n) if sc.sized else src(cno, base, call)
                if call.reconf:
                    # the object is reconfigured through its public surface; the backend answers with the new worker count
                    nj, auto, bs, pd_mode, pd, expr, to = call.reconf
                    self.cur_nj, self.cur_bs, self.cur_timeout = nj, tuple(bs), to
                    par.n_jobs = nj
                    par.batch_size = "auto" if auto else bs[0]
                    par.pre_dispatch = "all" if pd_mode == 1 else (expr if pd_mode == 2 else pd)
                    par.timeout = None if to < 0 else to
                if call.fault in (6, 7):
                    par.pre_dispatch = call.fault_pd  # the public attribute `__call__` reads
                self.cur_fault, self.cur_cls = call.fault, call.fault_cls
                out = par(inp)
            finally:
                self.cur_fault = 0
                self.in_call = False
                par.pre_dispatch = saved_pd
        except HangDetected:
            raise
        except BaseException as e:  # noqa: BLE001
            self.ev("raise " + _exc_name(e))
            self.outcomes.append(("raise", _exc_name(e), []))
            return
        if sc.ra == 0:
            self.ev("ret " + ",".join(map(str, out)))
            self.outcomes.append(("ret", list(out)))
            return
        got = []
        g = out
        self.cur_gen = g
        ops = list(call.cons)
        closed = False
        try:
            while True:
                op = ops.pop(0) if ops else 1
                if op == 1:
                    self.ev("next")
                    try:
                        v = next(g)
                    except StopIteration:
                        self.ev("stop")
                        break
                    self.ev(f"yield {v}")
                    got.append(v)
                elif op == 2:
                    try:
                        g.close()
                    except Warning:
                        self.ev("close-warned")  # warn_error: the early-exit warning, raised as an exception
                    self.ev("closed")
                    closed = True
                    break
                elif op == 3:
                    wr = weakref.ref(g)
                    self.cur_gen = None
                    del g
                    out = None
                    gc.collect()
                    if wr() is not None:
                        # harness artefact: callbacks run on the caller's stack here, so a traceback kept by joblib
                        # (iterator error) can pin the frame of Parallel.__call__ and with it the generator
                        try:
                            wr().close()
                        except Warning:
                            self.ev("close-warned")
                    self.ev("dropped")
                    closed = True
                    break
                elif op == 4:
                    try:
                        r = par(iter(()))
                        if sc.ra != 0:
                            list(r)
                        self.ev("recall-ok")
                    except RuntimeError:
                        self.ev("recall-RuntimeError")
                    except HangDetected:
                        raise
                    except BaseException as e:  # noqa: BLE001
                        self.ev("recall-raise " + _exc_name(e))
                elif op == 5:
                    self.at_pause = True
                    try:
                        self.hook("pause")
                    finally:
                        self.at_pause = False
                    if self.midpull_closed:
                        closed = True
                        break
                elif op == 6:
                    if self.sc.managed and not self.exited:
                        par.__exit__(None, None, None)
                        self.exited = True
                        self.ev("exit")
        except HangDetected:
            raise
        except BaseException as e:  # noqa: BLE001
            self.ev("raise " + _exc_name(e))
            self.outcomes.append(("raise", _exc_name(e), got))
            return
        self.outcomes.append(("closed" if closed else "gen", got))


def _exc_name(e):
    if isinstance(e, (TaskBoom, IterBoom)):
        return f"{type(e).__name__}({e.args[0]})"
    if isinstance(e, RuntimeError) and "already running" not in str(e):
        return "RuntimeError:" + "-".join(str(e).split()[:4])
    return type(e).__name__


def run_scenario(sc: Scenario) -> Run:
    return Run(sc).execute()


def count_instructions(sc: Scenario) -> int:
    r = Run(sc)
    r.count_instr = True
    r.execute()
    return r.instr_count
