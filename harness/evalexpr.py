"""C09 — `_utils.eval_expr` and the `pre_dispatch` resolution of `Parallel.__call__` against the Lean model
(lean/JoblibModel/EvalExpr.lean, requests `evalexpr` / `amount` / `parse` / `subst` / `predispatch` of lean/Driver/C09.lean).

Streams (all seeded from ctx.rng):
  evalexpr     random ASTs (type-directed, mostly valid arithmetic) and a malformed stream (every other `ast.expr` class, the
               six unsupported binary and three unsupported unary operators, injection attempts) are unparsed with
               `ast.unparse`; the text goes to the real `eval_expr`; the AST that `ast.parse` gives back for that text goes
               to the model.  Compared: outcome class and the exact value (ints exactly; floats exactly too: the model
               computes binary64 values, a float is sent as `m·2^e`; where the model abstains — `untracked` — nothing is
               compared and only the oracles below judge the case).
  amount       the same texts through `itertools.islice(iter(()), int(eval_expr(text)))` (the three calls the code makes)
               against `amount <AST>`.
  parse        texts (unparsed ASTs with spacing variants, literal forms, token soup) → `ast.parse` vs the model's parser
               (`abstain` = outside the sub-grammar: nothing compared).
  subst        `text.replace("n_jobs", str(n_jobs))` vs `substitute` (any n_jobs, any code points).
  predispatch  END TO END: `Parallel(n_jobs=k, pre_dispatch=pd)` on the controllable backend of harness/ctl.py, no completion
               delivered before the caller waits: number of items pulled before the first completion (and
               `_pre_dispatch_amount`) vs `predispatch <pd> <n_jobs>`.

Oracles (never look at the model):
  * `eval-call:<name>`            while `eval_expr` evaluates (after `ast.parse` returned) nothing is called but
                                  `eval_`, `isinstance` and the eight operator functions (sys.setprofile call/c_call events);
  * `eval-accepts-non-arithmetic` the parsed AST contains a node outside {Constant, BinOp with + - * / // % **, UnaryOp -}
                                  and `eval_expr` returned a value;
  * `eval-leaks:<Class>`          `eval_expr` raised something other than ValueError / ZeroDivisionError / OverflowError;
  * `eval-wrong-value`            arithmetic AST: value/type differs from plain Python evaluation of the same expression,
                                  or an exception class differs (TypeError of plain Python ↔ ValueError);
  * `predispatch-amount`          items pulled before the first completion ≠ min(n, int(plain Python arithmetic on the
                                  substituted text)); `predispatch-all-not-eager`; `predispatch-error-class`.
"""

from __future__ import annotations

import ast
import itertools
import math
import operator
import sys
import warnings

from . import core

SUPPORTED_BIN = (ast.Add, ast.Sub, ast.Mult, ast.Div, ast.FloorDiv, ast.Mod, ast.Pow)
UNSUPPORTED_BIN = (ast.MatMult, ast.LShift, ast.RShift, ast.BitOr, ast.BitXor, ast.BitAnd)
PY_OPS = {ast.Add: operator.add, ast.Sub: operator.sub, ast.Mult: operator.mul, ast.Div: operator.truediv,
          ast.FloorDiv: operator.floordiv, ast.Mod: operator.mod, ast.Pow: operator.pow}

OTHER_KINDS = ["Name", "Call", "Attribute", "Subscript", "Compare", "BoolOp", "IfExp", "Lambda", "Tuple", "List", "Set",
               "Dict", "ListComp", "SetComp", "DictComp", "GeneratorExp", "Await", "Yield", "YieldFrom", "JoinedStr",
               "FormattedValue", "NamedExpr", "Starred", "Slice"]

# ------------------------------------------------------------------------------------------------ serialisation


def enc_seq(cps):
    return ".".join(str(c) for c in cps) or "e"


def enc_text(s):
    return enc_seq(ord(c) for c in s)


def enc_float(x):
    if math.isnan(x):
        return "F nan"
    if math.isinf(x):
        return "F inf" if x > 0 else "F -inf"
    n, d = x.as_integer_ratio()
    if n == 0:
        return "F 0 0"
    e = 0
    if d > 1:
        e = -(d.bit_length() - 1)
    else:
        while n % 2 == 0:
            n //= 2
            e += 1
    return f"F {n} {e}"


def enc_const(v):
    if v is True:
        return "B 1"
    if v is False:
        return "B 0"
    if v is None:
        return "N"
    if v is Ellipsis:
        return "E"
    if isinstance(v, int):
        return f"I {v}"
    if isinstance(v, float):
        return enc_float(v)
    if isinstance(v, complex):
        return "C"
    if isinstance(v, str):
        return "S " + enc_text(v)
    if isinstance(v, bytes):
        return "Y " + enc_seq(v)
    raise TypeError(type(v))


def enc_ast(node):
    if isinstance(node, ast.Constant):
        return enc_const(node.value)
    if isinstance(node, ast.BinOp):
        return f"b {type(node.op).__name__} {enc_ast(node.left)} {enc_ast(node.right)}"
    if isinstance(node, ast.UnaryOp):
        return f"u {type(node.op).__name__} {enc_ast(node.operand)}"
    return "O " + type(node).__name__


def is_arith(node):
    if isinstance(node, ast.Constant):
        return True
    if isinstance(node, ast.BinOp):
        return isinstance(node.op, SUPPORTED_BIN) and is_arith(node.left) and is_arith(node.right)
    if isinstance(node, ast.UnaryOp):
        return isinstance(node.op, ast.USub) and is_arith(node.operand)
    return False


def py_parse(text):
    """-> ('ok', body) | ('syntax-error',) | ('skip', why)"""
    try:
        with warnings.catch_warnings():
            warnings.simplefilter("ignore")
            return ("ok", ast.parse(text, mode="eval").body)
    except SyntaxError:
        return ("syntax-error",)
    except (ValueError, RecursionError, MemoryError) as e:
        return ("skip", type(e).__name__)


# ------------------------------------------------------------------------------------------------ plain Python arithmetic


class TooBig(Exception):
    pass


MAX_BITS = 6000
MAX_SEQ = 4000


def _size_guard(op, a, b):
    if op is ast.Pow and isinstance(a, int) and isinstance(b, int) and b > 0:
        if abs(a) > 1 and a.bit_length() * b > MAX_BITS:
            raise TooBig
    if op is ast.Mult:
        for x, y in ((a, b), (b, a)):
            if isinstance(x, (str, bytes)) and isinstance(y, int) and len(x) * max(y, 0) > MAX_SEQ:
                raise TooBig
            if isinstance(x, (str, bytes)) and isinstance(y, int) and abs(y) > 2 ** 40:
                raise TooBig
    for x in (a, b):
        if isinstance(x, int) and x.bit_length() > 4 * MAX_BITS:
            raise TooBig


def plain_eval(node):
    """Plain Python arithmetic on an ARITHMETIC AST, left to right.  -> value; raises the Python exception, or TooBig."""
    if isinstance(node, ast.Constant):
        return node.value
    if isinstance(node, ast.BinOp):
        a = plain_eval(node.left)
        b = plain_eval(node.right)
        _size_guard(type(node.op), a, b)
        return PY_OPS[type(node.op)](a, b)
    if isinstance(node, ast.UnaryOp):
        return -plain_eval(node.operand)
    raise AssertionError("not arithmetic")


def cost_ok(node):
    """Every arithmetic sub-expression (also those below / beside a rejected node: `eval_` may reach them before it
    rejects) is cheap to evaluate."""
    if is_arith(node):
        try:
            plain_eval(node)
        except TooBig:
            return False
        except Exception:  # noqa: BLE001  (arithmetic errors are fine)
            pass
        # sub-expressions evaluated before an error are covered by the recursion of plain_eval up to the error; check all
        for ch in ast.iter_child_nodes(node):
            if isinstance(ch, ast.expr) and not cost_ok(ch):
                return False
        return True
    return all(cost_ok(ch) for ch in ast.iter_child_nodes(node) if isinstance(ch, ast.expr))


def same_value(a, b):
    if type(a) is not type(b):
        return False
    if isinstance(a, float):
        return (math.isnan(a) and math.isnan(b)) or a == b
    if isinstance(a, complex):
        return repr(a) == repr(b)
    return a == b


# ------------------------------------------------------------------------------------------------ generators

INT_POOL = [0, 1, 2, 3, 4, 5, 7, 8, 10, 16, 100, 255, 1000, 2 ** 31, 2 ** 53, 2 ** 53 + 1, 2 ** 62, 2 ** 63 - 1, 2 ** 63, 2 ** 64,
            10 ** 18, 10 ** 30, 3 ** 40]
FLOAT_POOL = [0.0, 0.5, 1.0, 1.5, 2.0, 0.25, 0.1, 0.2, 0.3, 0.4, 0.9, 1.1, 2.5, 3.75, 1e3, 1e16, 1e22, 1e23, 1e-5, 1e300, 1e308,
              1.7976931348623157e308, 5e-324, 2.2250738585072014e-308, 1e-320, 4503599627370496.0, 9007199254740992.0,
              0.30000000000000004, 123456.789, float("inf")]


def gen_int(rng):
    r = rng.random()
    if r < 0.55:
        return rng.randint(0, 12)
    if r < 0.85:
        return rng.choice(INT_POOL)
    if r < 0.95:
        return rng.randint(0, 10 ** rng.randint(1, 25))
    return rng.choice(INT_POOL) + rng.choice([-1, 1])


def gen_float(rng):
    r = rng.random()
    if r < 0.6:
        return rng.choice(FLOAT_POOL)
    if r < 0.8:
        return rng.randint(0, 4096) / 2 ** rng.randint(0, 12)      # dyadic
    if r < 0.9:
        return round(rng.uniform(0, 100), rng.randint(1, 6))        # decimal
    return rng.uniform(0, 1) * 10.0 ** rng.randint(-320, 308)


def gen_const(rng, exotic=0.06):
    r = rng.random()
    if r < exotic:
        return ast.Constant(rng.choice([True, False, None, Ellipsis, 1j, 2.5j, "a", "", "12", " 7 ", "%d", "ab", b"a", b"3",
                                        "1_0", "x" * 3, "٣"]))
    if r < exotic + 0.2:
        return ast.Constant(gen_float(rng))
    return ast.Constant(gen_int(rng))


def gen_arith(rng, depth, exotic=0.06):
    """An AST in the arithmetic fragment (Constants may be non-numeric with probability `exotic`)."""
    if depth <= 0 or rng.random() < 0.3:
        return gen_const(rng, exotic)
    r = rng.random()
    if r < 0.14:
        return ast.UnaryOp(ast.USub(), gen_arith(rng, depth - 1, exotic))
    op = rng.choice([ast.Add, ast.Sub, ast.Mult, ast.Mult, ast.Div, ast.FloorDiv, ast.FloorDiv, ast.Mod, ast.Pow])
    left = gen_arith(rng, depth - 1, exotic)
    if op is ast.Pow:
        k = rng.random()
        if k < 0.7:
            e = rng.choice([0, 1, 2, 2, 3, 4, 5, 8, 10, 31, 62, 63, 64])
            right = ast.Constant(e)
        elif k < 0.85:
            right = ast.UnaryOp(ast.USub(), ast.Constant(rng.choice([1, 2, 3, 10, 1074, 1100])))
        else:
            right = ast.Constant(rng.choice([0.5, 2.0, -1.0, 0.0, 3.0, 1.5, float("inf"), 1e3]))
    elif op in (ast.Div, ast.FloorDiv, ast.Mod) and rng.random() < 0.08:
        right = ast.Constant(rng.choice([0, 0.0, False]))
    else:
        right = gen_arith(rng, depth - 1, exotic)
    return ast.BinOp(left, op(), right)


INJECTIONS = [
    "__import__('os').system('x')", "(1).__class__", "n_jobs.real", "f'{1}'", "f'abc'", "(x := 3)", "1 < 2", "1 == 1",
    "1 if 1 else 2", "lambda: 1", "[1, 2]", "(1, 2)", "()", "{1}", "{1: 2}", "[x for x in (1,)]", "{x for x in (1,)}",
    "{x: x for x in (1,)}", "(x for x in (1,))", "1 and 2", "1 or 2", "not 1", "x[0]", "x[1:2]", "print(1)", "eval('1')",
    "open('/etc/passwd').read()", "(1).__class__.__bases__[0].__subclasses__()", "int", "n_jobs", "abs(-1)", "2 .real",
    "__builtins__", "exit()", "[].append(1)", "''.join(())", "(lambda: 1)()", "*x", "x.y.z", "1 @ 2", "1 << 2", "1 >> 2",
    "1 | 2", "1 ^ 2", "1 & 2", "~1", "+1", "+-1", "1 in (1,)", "1 is 1", "x if y else z", "(yield)", "(yield from x)",
    "(await x)", "[*x]", "f'{x!r:>{y}}'", "1 if (x := 2) else 3", "__import__('subprocess').call(['x'])",
    "().__class__.__mro__", "globals()", "1 .__add__(2)", "getattr(1, 'real')",
]


def gen_other_node(rng):
    """One AST of every non-arithmetic `ast.expr` class (valid Python where the class can stand alone in an expression)."""
    src = rng.choice(INJECTIONS)
    got = py_parse(src)
    if got[0] == "ok":
        return got[1]
    return ast.Name("x", ast.Load())


def gen_malformed(rng, depth):
    """An AST with at least one node outside the arithmetic fragment, at a random position."""
    r = rng.random()
    if depth <= 0 or r < 0.3:
        k = rng.random()
        if k < 0.65:
            return gen_other_node(rng)
        if k < 0.85:
            return ast.BinOp(gen_arith(rng, 1), rng.choice(UNSUPPORTED_BIN)(), gen_arith(rng, 1))
        return ast.UnaryOp(rng.choice([ast.UAdd, ast.Not, ast.Invert])(), gen_arith(rng, 1))
    if r < 0.4:
        return ast.UnaryOp(ast.USub(), gen_malformed(rng, depth - 1))
    op = rng.choice(SUPPORTED_BIN + ((ast.MatMult, ast.BitOr) if rng.random() < 0.1 else ()))
    if rng.random() < 0.5:
        return ast.BinOp(gen_malformed(rng, depth - 1), op(), gen_arith(rng, depth - 1))
    # the bad node on the RIGHT: the left operand is evaluated first (an arithmetic error there wins)
    left = gen_arith(rng, depth - 1)
    if rng.random() < 0.25:
        left = ast.BinOp(ast.Constant(1), rng.choice([ast.Div, ast.FloorDiv, ast.Mod])(), ast.Constant(0))
    return ast.BinOp(left, op(), gen_malformed(rng, depth - 1))


def unparse(node):
    return ast.unparse(ast.fix_missing_locations(ast.Expression(body=node)))


SPACING_SAFE = set("0123456789+-*/%(). ")


def respace(rng, text):
    """Spacing variants that keep the token sequence (only for texts made of digits, operators, parentheses)."""
    if not set(text) <= SPACING_SAFE or rng.random() < 0.4:
        return text
    k = rng.random()
    if k < 0.5:
        return text.replace(" ", "")
    if k < 0.7:
        return text.replace(" ", "  ")
    if k < 0.85:
        return text.replace(" ", "\t")
    return text + rng.choice([" ", "  ", "\t", " # c", "#"])


LITERALS = ["0", "00", "0_0", "01", "0_1", "1_000", "1__0", "1_", "_1", "0x10", "0X1f", "0x", "0x_1", "0x1_", "0xg", "0o17", "0o8",
            "0b101", "0b2", "0b1_0", "1.", ".5", "1.5", "1.e3", "1e3", "1E3", "1e+3", "1e-3", "1e", "1e+", "1.5e300", "1e308",
            "1e309", "1e-400", "5e-324", "2e-324", "0.1", "0.2", "0.30000000000000004", "1_0.0_1e1_0", "012.5", "012e1", "012j",
            "1j", "1.5J", "1e3j", "1.real", "1..real", "1 .real", "1.2.3", "1..2", "9007199254740993.0", "1e22", "1e23",
            "123456789012345678901234567890", "0.1e1", "4x", "4if 1 else 2", "4and 5", "4or 5", "1_e3", "1e_3", "1e3_", ".e1", ".",
            "..", "...", "1 2", "1 +", "+", "(", ")", "(1", "1)", "((1))", "(1)(2)", "1(2)", "x(1)", "x.y", "x.1", "x .y", "True",
            "False", "None", "True + True", "-True", "None + 1", "not", "nota", "iff", "lambda", "_", "__", "a1", "1a", "1f", "1n",
            "1o", "1i", "1b", "0b", "0o", "2**3**2", "-2**2", "2**-1", "- -2", "--2", "~-1", "-~1", "+ +1", "1--1", "1+-+-1",
            "1//2", "1 / / 2", "1 * * 2", "1**2", "1***2", "1////2", "1%%2", "1<<2", "1<2", "1>>2", "1>2", "1@2", "1&2", "1|2",
            "1^2", "1=2", "1==2", "1!=2", "1,2", "1;2", "1:2", "[1]", "{1}", "'1'", '"1"', "`1`", "$1", "?1", "!1", "1\\", "#", "",
            " ", "\t", " 1", "\t1", "1 ", "1\t", "1#c", "1 # c ' [", "#1", " #1", "1\n", "\n1", "1\n+2", "(1\n+2)", "1\r", "\x0c1",
            "﻿1", "١", "1 +2", "ａ", "all", " all", "all ", "ALL", "1" + "+1" * 80, "(" * 30 + "1" + ")" * 30,
            "-" * 60 + "1", "1" * 300, "1" * 401, "2*" * 150 + "1", "0." + "0" * 350 + "1", "1e2000", "1e2001", "1e-2000"]

SOUP = ["1", "2", "0", "10", "n_jobs", "n_jobs", "+", "-", "*", "/", "//", "%", "**", "(", ")", " ", " ", ".", "_", "e", "x", "0x",
        "j", "~", "@", "<<", "|", "&", "^", "1.5", ".5", "1e3", "00", "01", "a", "if", "not ", "'", ",", "<", "[", "]", "True",
        "None", "#", "\t", "=", ">>", "0b1", "E", "J", "and", "or"]


def gen_text(rng):
    """A text for the parse / predispatch streams."""
    r = rng.random()
    if r < 0.35:
        return respace(rng, unparse(gen_arith(rng, rng.randint(1, 4), exotic=0.0)))
    if r < 0.45:
        return unparse(gen_malformed(rng, rng.randint(0, 2)))
    if r < 0.7:
        return rng.choice(LITERALS)
    if r < 0.8:
        a, b = rng.choice(LITERALS), rng.choice(LITERALS)
        return a + rng.choice(["+", " * ", "**", "-", " // ", "%", "/", " ", "", "(", "."]) + b
    return "".join(rng.choice(SOUP) for _ in range(rng.randint(1, 8)))


PD_TEXTS = ["n_jobs", "2*n_jobs", "2 * n_jobs", "3*n_jobs", "1.5*n_jobs", "0.4*n_jobs", "0.5*n_jobs", ".5*n_jobs", "n_jobs/2",
            "n_jobs//2", "3 * n_jobs // 2", "n_jobs+1", "n_jobs-1", "n_jobs - n_jobs", "0*n_jobs", "n_jobs*0", "n_jobs**2",
            "2**n_jobs", "2**n_jobs//2", "-1+n_jobs*2", "n_jobs%2", "n_jobs % 3", "-n_jobs", "- n_jobs", "2*-n_jobs",
            "n_jobs - 2*n_jobs", "n_jobs//n_jobs - 1", "n_jobs//n_jobs - 2", "-0.5", "-0.9*n_jobs/n_jobs", "-1", "-1.0", "-1.5",
            "0", "0.0", "-0", "-0.0", "1", "7", "1.9", "2**63", "2**63-1", "2**63 - 2", "2**64", "n_jobs*2**62", "n_jobs*2**61",
            "1e3", "1e18", "1e19", "9.3e18", "1e999", "1e999-1e999", "-1e999", "n_jobs/0", "n_jobs//0", "n_jobs%0", "0**-1",
            "2.0**10000", "2**10000*1.0", "2**10000/2**9999", "10**400/10**399", "n_jobsx", "xn_jobs", "n_jobs2", "1n_jobs",
            "n_jobs.5", "n_jobs.", ".n_jobs", "n_jobs_n_jobs", "n_n_jobsjobs", "n_jobsn_jobs", "n_jobs n_jobs", "N_JOBS",
            "n_jobs ", " n_jobs", "n_jobs\t", "n_jobse1", "n_jobsE2", "n_jobsj", "0xn_jobs", "0bn_jobs", "n_jobs_", "_n_jobs",
            "n_jobs__1", "n_jobs_1", "(n_jobs)", "((n_jobs))*2", "(n_jobs", "n_jobs)", "n_jobs if 1 else 2", "n_jobs and 1",
            "__import__('os').system('x')", "(1).__class__", "n_jobs.real", "(n_jobs).real", "f'{n_jobs}'", "(x:=n_jobs)",
            "n_jobs<3", "n_jobs,", "[n_jobs]", "all", "all ", " all", "ALL", "'all'", "'3'", "' 1_0 '", "'1'*n_jobs",
            "'n_jobs'", "b'7'", "'a'*n_jobs", "'%d' % n_jobs", "None", "True", "False", "True*n_jobs", "...", "1j", "n_jobs*1j",
            "(-n_jobs)**0.5", "n_jobs**0.5", "4**0.5", "n_jobs**-1", "2**-1", "1/3*3", "0.1*3", "0.1+0.2", "1e-320*n_jobs",
            "n_jobs*1e308*10", "7//-2", "7%-2", "-7//2", "-7%2", "7.5//2", "-7.5//2", "7.5%-2", "1e300%7", "-1%1e999", "+n_jobs",
            "~n_jobs", "not n_jobs", "n_jobs@2", "n_jobs<<1", "n_jobs|1", "", " ", "#", "n_jobs#x", "n_jobs # 2*", "2*\nn_jobs",
            "(2*\nn_jobs)", "n_jobs\n", "٢*n_jobs", "2×n_jobs", "n_jobs" * 3, "n_jobs+" * 20 + "1", "1_000", "0x10",
            "0o17", "0b11", "012", "1__0", "1.e0", "00"]


# ------------------------------------------------------------------------------------------------ the implementation side


_ALLOWED_C = None
_UTILS = None


def _utils_mod():
    """joblib._utils of VERIF_REPO (core.use_repo() once: it extends PYTHONPATH at every call)."""
    global _UTILS
    if _UTILS is None:
        core.use_repo()
        from joblib import _utils
        _UTILS = _utils
    return _UTILS


def _allowed_c():
    global _ALLOWED_C
    if _ALLOWED_C is None:
        _ALLOWED_C = {id(f): f for f in (operator.add, operator.sub, operator.mul, operator.truediv, operator.floordiv,
                                        operator.mod, operator.pow, operator.neg, isinstance)}
    return _ALLOWED_C


def traced_eval_expr(text):
    """Runs the real `eval_expr(text)`; records every call made while it EVALUATES (outside `ast.parse`).
    -> (('ok', value) | ('raise', exception), [names of calls that are not allowed])"""
    _utils = _utils_mod()

    allowed_py = {_utils.eval_expr.__code__, _utils.eval_.__code__}
    parse_code = ast.parse.__code__
    allowed_c = _allowed_c()
    state = {"in_parse": 0, "bad": []}

    def prof(frame, event, arg):
        if event == "call":
            if frame.f_code is parse_code:
                state["in_parse"] += 1
            elif not state["in_parse"] and frame.f_code not in allowed_py:
                state["bad"].append(frame.f_code.co_name)
        elif event == "return":
            if frame.f_code is parse_code:
                state["in_parse"] -= 1
        elif event == "c_call":
            if not state["in_parse"] and id(arg) not in allowed_c and arg is not sys.setprofile:
                state["bad"].append(getattr(arg, "__name__", repr(arg)))

    with warnings.catch_warnings():
        warnings.simplefilter("ignore")
        sys.setprofile(prof)
        try:
            try:
                out = ("ok", _utils.eval_expr(text))
            except BaseException as e:  # noqa: BLE001
                out = ("raise", e)
        finally:
            sys.setprofile(None)
    return out, state["bad"]


def impl_outcome(out):
    if out[0] == "ok":
        try:
            return "ok " + enc_const(out[1])
        except TypeError:
            return "ok ?" + type(out[1]).__name__
    return "raise " + type(out[1]).__name__


def impl_amount(text):
    """The three calls of `Parallel.__call__` after the substitution, on the real functions."""
    eval_expr = _utils_mod().eval_expr
    try:
        with warnings.catch_warnings():
            warnings.simplefilter("ignore")
            n = int(eval_expr(text))
        itertools.islice(iter(()), n)
        return f"amount {n}"
    except BaseException as e:  # noqa: BLE001
        return "raise " + type(e).__name__


# ------------------------------------------------------------------------------------------------ oracles


def judge_eval(res, text, tree, out, bad_calls):
    """Oracles on one `eval_expr(text)` run; `tree` = what ast.parse gives for the text (None = SyntaxError)."""
    case = dict(kind="evalexpr", text=text)
    for name in bad_calls[:1]:
        res.fail("eval-call:" + name, case, dict(calls=bad_calls[:10]))
    if out[0] == "raise":
        cls = type(out[1]).__name__
        if cls not in ("ValueError", "ZeroDivisionError", "OverflowError"):
            res.fail("eval-leaks:" + cls, case, dict(exception=repr(out[1])[:200]))
    if tree is None:
        if out[0] == "ok":
            res.fail("eval-accepts-non-arithmetic", case, dict(why="SyntaxError", value=repr(out[1])[:100]))
        elif type(out[1]).__name__ != "ValueError":
            res.fail("eval-rejection-class", case, dict(why="SyntaxError", got=type(out[1]).__name__))
        return
    if not is_arith(tree):
        if out[0] == "ok":
            res.fail("eval-accepts-non-arithmetic", case, dict(ast=enc_ast(tree)[:300], value=repr(out[1])[:100]))
        return
    try:
        want = ("ok", plain_eval(tree))
    except TooBig:
        return
    except TypeError:
        want = ("raise", "ValueError")
    except (ValueError, ZeroDivisionError, OverflowError) as e:
        want = ("raise", type(e).__name__)
    if want[0] == "ok":
        good = out[0] == "ok" and same_value(out[1], want[1])
    else:
        good = out[0] == "raise" and type(out[1]).__name__ == want[1]
    if not good:
        res.fail("eval-wrong-value", case, dict(want=repr(want)[:200], got=impl_outcome(out)[:200]))


def plain_amount(pd, nj):
    """What plain Python arithmetic gives for the amount (None: no opinion).  -> ('all',) | ('amount', n) | ('raise', cls)"""
    if isinstance(pd, str):
        if pd == "all":
            return ("all",)
        text = pd.replace("n_jobs", str(nj))
        got = py_parse(text)
        if got[0] == "syntax-error":
            return ("raise", "ValueError")
        if got[0] != "ok":
            return None
        tree = got[1]
        if not is_arith(tree):
            return ("reject",)          # must raise; ValueError unless an arithmetic error comes first
        try:
            v = plain_eval(tree)
        except TooBig:
            return None
        except TypeError:
            return ("raise", "ValueError")
        except (ValueError, ZeroDivisionError, OverflowError) as e:
            return ("raise", type(e).__name__)
    else:
        if isinstance(pd, bytes):
            return ("raise", "TypeError")
        v = pd
    try:
        n = int(v)
    except (TypeError, ValueError, OverflowError) as e:
        return ("raise", type(e).__name__)
    if n < 0 or n > sys.maxsize:
        return ("raise", "ValueError")
    return ("amount", n)


# ------------------------------------------------------------------------------------------------ streams


def _driver(ctx):
    return core.Driver("C09")


def stream_evalexpr(ctx, res, n, salt="evalexpr", texts=None):
    rng = ctx.rng(salt)
    cases = []
    if texts is None:
        texts = list(INJECTIONS) + [t for t in PD_TEXTS if "n_jobs" not in t and "\n" not in t]
        while len(texts) < n:
            if rng.random() < 0.7:
                node = gen_arith(rng, rng.randint(1, 5), exotic=rng.choice([0.0, 0.06, 0.2]))
                label = "arith"
            else:
                node = gen_malformed(rng, rng.randint(0, 3))
                label = "malformed"
            if not cost_ok(node):
                res.count("evalexpr:skipped-too-big")
                continue
            try:
                texts.append((label, unparse(node)))
            except Exception:  # noqa: BLE001
                continue
    for t in texts:
        label, text = t if isinstance(t, tuple) else ("corpus", t)
        got = py_parse(text)
        if got[0] == "skip":
            continue
        tree = got[1] if got[0] == "ok" else None
        if tree is not None and not cost_ok(tree):
            res.count("evalexpr:skipped-too-big")
            continue
        cases.append((label, text, tree))
    lines = []
    for _, text, tree in cases:
        if tree is not None:
            lines.append("evalexpr " + enc_ast(tree))
            lines.append("amount " + enc_ast(tree))
    reps = iter(_driver(ctx).run(lines)) if lines else iter(())
    for label, text, tree in cases:
        res.evaluations += 1
        out, bad = traced_eval_expr(text)
        judge_eval(res, text, tree, out, bad)
        impl = impl_outcome(out)
        res.count(f"evalexpr:{label}")
        res.count("evalexpr-impl:" + (impl.split()[0] + " " + impl.split()[1] if impl.startswith(("raise", "ok ?")) else "ok " + impl.split()[1]))
        if tree is None:
            continue
        model = next(reps)
        model_amount = next(reps)
        if model == "untracked":
            res.count("evalexpr:model-untracked")
        else:
            res.traces_validated += 1
            if model != impl:
                res.diverge("evalexpr", dict(kind="evalexpr", text=text, ast=enc_ast(tree)[:400]), impl[:300], model[:300])
            elif is_arith(tree) and len(enc_ast(tree).split()) > 3:
                res.nontrivial.add(("evalexpr", text))
        ia = impl_amount(text)
        if model_amount == "untracked":
            res.count("amount:model-untracked")
        else:
            res.traces_validated += 1
            if model_amount != ia:
                res.diverge("amount", dict(kind="evalexpr", text=text, ast=enc_ast(tree)[:400]), ia[:300], model_amount[:300])
        res.sample(dict(stream="evalexpr", text=text[:120], impl=impl[:80], model=model[:80]), cap=8)


def stream_parse(ctx, res, n, salt="parse", texts=None):
    rng = ctx.rng(salt)
    if texts is None:
        texts = list(LITERALS) + [t.replace("n_jobs", "4") for t in PD_TEXTS]
        while len(texts) < n:
            texts.append(gen_text(rng))
    cases, lines = [], []
    for text in texts:
        if any(0xD800 <= ord(c) <= 0xDFFF for c in text):
            continue
        got = py_parse(text)
        if got[0] == "skip":
            continue
        cases.append((text, got))
        lines.append("parse " + enc_text(text))
    for (text, got), rep in zip(cases, _driver(ctx).run(lines)):
        res.evaluations += 1
        impl = "ok " + enc_ast(got[1]) if got[0] == "ok" else "syntax-error"
        if rep == "abstain":
            res.count("parse:model-abstains")
            continue
        res.traces_validated += 1
        res.count("parse:" + ("ok" if got[0] == "ok" else "syntax-error"))
        if rep != impl:
            res.diverge("parse", dict(kind="evalexpr-parse", text=text), impl[:300], rep[:300])
        elif got[0] == "ok" and len(text) > 3:
            res.nontrivial.add(("parse", text))


def stream_subst(ctx, res, n, salt="subst"):
    rng = ctx.rng(salt)
    cases = [(t, nj) for t in PD_TEXTS for nj in (2, -13)]
    frag = ["n_jobs", "n_jobs", "n_job", "_jobs", "n", "_", "s", "n_", "jobs", "n_jobsn_jobs", "n_n_jobs", "N_JOBS", " ", "2*", "x",
            "é", "\U0001f600", "n_jo", "bs", "0"]
    while len(cases) < n:
        text = "".join(rng.choice(frag) for _ in range(rng.randint(0, 7)))
        nj = rng.choice([1, 2, 3, 4, 10, 16, 128, 0, -1, -2, 10 ** 20, -(10 ** 9), rng.randint(-50, 200)])
        cases.append((text, nj))
    lines = [f"subst {enc_text(t)} {nj}" for t, nj in cases]
    for (t, nj), rep in zip(cases, _driver(ctx).run(lines)):
        res.evaluations += 1
        res.traces_validated += 1
        impl = enc_text(t.replace("n_jobs", str(nj)))
        if rep != impl:
            res.diverge("subst", dict(kind="evalexpr-subst", text=t, n_jobs=nj), impl[:300], rep[:300])
        elif "n_jobs" in t:
            res.nontrivial.add(("subst", t, nj))


def enc_pd(pd):
    if isinstance(pd, str):
        return "T " + enc_text(pd)
    if pd is True or pd is False:
        return "B 1" if pd else "B 0"
    if isinstance(pd, int):
        return f"I {pd}"
    if isinstance(pd, float):
        return enc_float(pd)
    if isinstance(pd, bytes):
        return "Y"
    return "O"


def run_predispatch(pd, nj, n, bs):
    """END TO END on the controllable backend: -> dict(outcome=…, pulled_before_first_completion=…, amount_attr=…)."""
    from . import ctl
    sc = ctl.Scenario(nj=nj, bs_auto=len(bs) > 1, bs=tuple(bs), pd_mode=2 if isinstance(pd, str) else 0, pd=pd,
                      pd_expr=pd if isinstance(pd, str) else "", ra=0, calls=(ctl.Call(n),), sched=())
    if isinstance(pd, str) and pd == "all":
        sc.pd_mode = 1
    with warnings.catch_warnings():
        warnings.simplefilter("ignore")
        run = ctl.run_scenario(sc)
    log = run.log
    first_c = next((i for i, e in enumerate(log) if e.startswith("complete")), len(log))
    pulled = sum(1 for e in log[:first_c] if e.startswith("pull "))
    raised = next((e[6:] for e in log if e.startswith("raise ")), None)
    ret = next((e for e in log if e.startswith("ret")), None)
    return dict(raised=raised, pulled=pulled, ret=ret, amount_attr=getattr(run.par, "_pre_dispatch_amount", None),
                orig_none=getattr(run.par, "_original_iterator", "?") is None, total_pulled=sum(1 for e in log if e.startswith("pull ")),
                cb_pulls=sum(1 for e in log if e.startswith("pull ") and e.endswith("@cb")))


def gen_pd(rng):
    r = rng.random()
    if r < 0.45:
        return rng.choice(PD_TEXTS)
    if r < 0.7:
        # an arithmetic AST in which some integer constants become `n_jobs`
        node = gen_arith(rng, rng.randint(1, 3), exotic=0.0)
        for sub in ast.walk(node):
            if isinstance(sub, ast.Constant) and isinstance(sub.value, int) and rng.random() < 0.5:
                sub.value = _NJ
        if not cost_ok(_with_nj(node, 16)):
            return "2*n_jobs"
        return respace(rng, unparse(node)).replace(repr(_NJ), "n_jobs")
    if r < 0.8:
        return gen_text(rng).replace("4", "n_jobs", 1)
    if r < 0.9:
        return rng.choice([0, 1, 2, 3, 5, 8, 100, -1, -7, 2 ** 63 - 1, 2 ** 63, 2 ** 70, True, False])
    if r < 0.97:
        return rng.choice([0.0, 0.4, 0.99, 1.0, 1.9, 2.5, -0.5, -0.99, -1.0, -1.5, 1e18, 1e19, 9.3e18, float("inf"), float("-inf"),
                           float("nan"), 5e-324])
    return rng.choice([None, b"2*n_jobs", b"3"])


_NJ = 987654321123456789


def _with_nj(node, nj):
    import copy
    node = copy.deepcopy(node)
    for sub in ast.walk(node):
        if isinstance(sub, ast.Constant) and sub.value == _NJ and isinstance(sub.value, int):
            sub.value = nj
    return node


def stream_predispatch(ctx, res, n, salt="predispatch", cases=None):
    rng = ctx.rng(salt)
    if cases is None:
        cases = []
        corpus = [(t, 2) for t in PD_TEXTS] + [("2*n_jobs", 3), ("1.5*n_jobs", 3), ("0.4*n_jobs", 2), ("n_jobs", 7)]
        for pd, nj in corpus:
            cases.append(dict(pd=pd, nj=nj, n=rng.choice([0, 3, 11, 23]), bs=[rng.choice([1, 1, 2, 3])]))
        while len(cases) < n:
            nj = rng.choice([2, 2, 3, 4, 4, 7, 10, 16])
            pd = gen_pd(rng)
            bs = [rng.choice([1, 1, 2, 3, 5])] if rng.random() < 0.6 else [rng.choice([1, 2, 3, 4]) for _ in range(rng.randint(2, 4))]
            want = plain_amount(pd, nj)
            if want and want[0] == "amount" and want[1] <= 40 and rng.random() < 0.8:
                nitems = rng.choice([0, max(want[1] - 1, 0), want[1], want[1] + 1, want[1] + nj * max(bs) + 1, 2 * want[1] + 3])
            else:
                nitems = rng.choice([0, 1, 5, 12, 30])
            cases.append(dict(pd=pd, nj=nj, n=nitems, bs=bs))
    ok_cases, lines = [], []
    for c in cases:
        pd = c["pd"]
        if isinstance(pd, str) and any(0xD800 <= ord(ch) <= 0xDFFF for ch in pd):
            continue
        if isinstance(pd, str):
            got = py_parse(pd.replace("n_jobs", str(c["nj"])))
            if got[0] == "skip" or (got[0] == "ok" and not cost_ok(got[1])):
                continue
        ok_cases.append(c)
        lines.append(f"predispatch {enc_pd(pd)} {c['nj']}")
    reps = _driver(ctx).run(lines) if lines else []
    for i, (c, rep) in enumerate(zip(ok_cases, reps)):
        if i % 2000 == 1999:
            dedupe_pythonpath()
        res.evaluations += 1
        pd, nj, n = c["pd"], c["nj"], c["n"]
        case = dict(kind="evalexpr-predispatch", pd=pd if isinstance(pd, (str, int, float, bool, type(None))) else repr(pd),
                    pd_type=type(pd).__name__, nj=nj, n=n, bs=c["bs"])
        try:
            obs = run_predispatch(pd, nj, n, c["bs"])
        except Exception as e:  # noqa: BLE001
            res.fail("harness-run-crashed:" + type(e).__name__, case, repr(e))
            continue
        # ---- oracle: plain Python arithmetic
        want = plain_amount(pd, nj)
        if want is not None:
            if want[0] == "raise":
                if obs["raised"] != want[1]:
                    res.fail("predispatch-error-class", case, dict(want=want[1], observed=obs))
            elif want[0] == "reject":
                if obs["raised"] not in ("ValueError", "ZeroDivisionError", "OverflowError"):
                    res.fail("predispatch-accepts-non-arithmetic", case, dict(observed=obs))
            elif want[0] == "all":
                if obs["raised"] or obs["pulled"] != n or obs["cb_pulls"]:
                    res.fail("predispatch-all-not-eager", case, dict(observed=obs))
            else:
                if obs["raised"] or obs["pulled"] != min(n, want[1]):
                    res.fail("predispatch-amount", case, dict(want=min(n, want[1]), observed=obs))
        # ---- correspondence with the model
        if obs["raised"]:
            impl = "raise " + obs["raised"]
        elif obs["orig_none"] and obs["amount_attr"] == 0 and obs["pulled"] == n and not obs["cb_pulls"] and isinstance(pd, str) and pd == "all":
            impl = "all"
        else:
            impl = f"amount {obs['amount_attr']}"
        res.count("predispatch-impl:" + " ".join(impl.split()[:2] if impl.startswith("raise") else impl.split()[:1]))
        res.count("predispatch-pd:" + type(pd).__name__)
        if rep == "untracked":
            res.count("predispatch:model-untracked")
            continue
        res.traces_validated += 1
        bad = rep != impl
        if not bad and rep.startswith("amount "):
            bad = obs["pulled"] != min(n, int(rep.split()[1]))
        if bad:
            res.diverge("predispatch", case, dict(impl=impl, pulled_before_first_completion=obs["pulled"]), rep)
        elif rep.startswith("amount") and n > 0:
            res.nontrivial.add(("predispatch", repr(pd), nj, n))
        res.sample(dict(stream="predispatch", pd=repr(pd)[:80], n_jobs=nj, items=n, impl=impl, pulled=obs["pulled"], model=rep), cap=12)


RULE = ("; eval_expr streams: ASTs = type-directed arithmetic (ints boundary-biased around 2^31/2^53/2^63/2^64, dyadic and decimal "
        "floats, inf, small exponents, zero divisors, 0-20% non-numeric constants) + malformed (every other ast.expr class, "
        "unsupported operators, injection texts at random positions); non-trivial = model and implementation agree on an "
        "arithmetic AST with at least one operator / a parsed text of more than 3 characters / a substitution with an "
        "occurrence / an end-to-end run with items and a model amount; distinct by text")


STREAMS = ("evalexpr", "amount", "parse", "subst", "predispatch")


def dedupe_pythonpath():
    """core.use_repo() prepends VERIF_REPO to PYTHONPATH at EVERY call (ctl.run_scenario calls it per scenario): after some
    thousand scenarios the variable exceeds the 128 KiB limit of one environment string and starting the driver fails with
    E2BIG.  Keep one copy of each entry."""
    import os
    pp = os.environ.get("PYTHONPATH")
    if pp:
        seen, out = set(), []
        for e in pp.split(os.pathsep):
            if e not in seen:
                seen.add(e)
                out.append(e)
        os.environ["PYTHONPATH"] = os.pathsep.join(out)


def run_streams(ctx, res, scale=1, salt=""):
    """Quick tier: ~5 s."""
    if ctx.thorough:
        scale *= 12
    dedupe_pythonpath()
    stream_evalexpr(ctx, res, 6000 * scale, "evalexpr" + salt)
    stream_parse(ctx, res, 8000 * scale, "parse" + salt)
    stream_subst(ctx, res, 2000 * scale, "subst" + salt)
    stream_predispatch(ctx, res, 2500 * scale, "predispatch" + salt)
    dedupe_pythonpath()
    res.rule = (res.rule or "") + RULE
    res.assumptions = list(res.assumptions) + [
        "eval_expr: ast.parse, the operator functions on int/float/str and int() are CPython's (modelled, not verified); "
        "libm pow returns the exact result when it is a double (error < 1 ulp); 64-bit sys.maxsize; ASTs shallower than the "
        "recursion limit"]


def replay(ctx):
    res = core.Result()
    res.rule = "replay of one eval_expr / pre_dispatch case"
    c = ctx.replay["case"]
    k = c.get("kind")
    if k == "evalexpr":
        stream_evalexpr(ctx, res, 1, texts=[c["text"]])
    elif k == "evalexpr-parse":
        stream_parse(ctx, res, 1, texts=[c["text"]])
    elif k == "evalexpr-subst":
        rep = _driver(ctx).run([f"subst {enc_text(c['text'])} {c['n_jobs']}"])[0]
        impl = enc_text(c["text"].replace("n_jobs", str(c["n_jobs"])))
        res.evaluations = 1
        if rep != impl:
            res.diverge("subst", c, impl, rep)
    elif k == "evalexpr-predispatch":
        pd = c["pd"]
        if c.get("pd_type") == "bytes":
            pd = ast.literal_eval(pd)
        elif c.get("pd_type") == "float" and isinstance(pd, str):
            pd = float(pd)
        stream_predispatch(ctx, res, 1, cases=[dict(pd=pd, nj=c["nj"], n=c["n"], bs=c["bs"])])
    return res
