"""C03 helper — HISTORIES of dump / load operations in ONE process, with state changes in between.

Run as a script (`/venv/bin/python harness/c03_hist.py`, joblib from PYTHONPATH[0] = VERIF_REPO): reads one JSON job
`{"dir": scratch dir, "ops": [...]}` on stdin, executes the operations one after the other in this process, prints
one JSON list of records (one per operation).  A separate process per history because the operations change
process-wide state on purpose: module globals are re-bound (class statement executed again in the same module object,
`importlib.reload` of an edited file, the `sys.modules` entry replaced, attribute assigned), compressors are registered
with `joblib.register_compressor` between operations.

Operations
  ["rebind", g, mode, ver]                   re-bind global `g` (index into GLOBALS) to version `ver`;
                                             mode: exec | setattr | newmodule | reload | reimport
  ["dump", slot, spec, compress, proto, tk]  build the object `spec` from the CURRENT bindings and dump it;
                                             tk: path | pathlib | file | bytesio
  ["load", slot, lk]                         lk: path | file | bytesio
  ["reg", name, prefix_hex, ext, key]        joblib.register_compressor(name, wrapper, force=True)

The oracle does not use the model: at every `load` the reference is `pickle.loads(<pickle.dumps of the dumped object,
taken when it was dumped>)` evaluated AT THE SAME INSTANT, and the loaded object must have the same types (`type(a) is
type(b)` at every node), the same values, the same globals (`is`) and the same identity structure.
"""

from __future__ import annotations

import collections  # noqa: F401  (used by the generated sources)
import enum
import importlib
import io
import json
import os
import pathlib
import pickle
import sys
import types
import warnings

SYN = "c03hist_syn"
FMOD = "c03hist_filemod"

# (module, qualified name, shape)
GLOBALS = [
    (SYN, "Alpha", "plain"),
    (SYN, "Beta", "dataclass"),
    (FMOD, "Gamma", "slots"),
    (FMOD, "Delta", "namedtuple"),
    ("__main__", "Interval", "plain"),
    ("__main__", "helper_fn", "function"),
    (SYN, "Outer.Inner", "nested"),
    (FMOD, "Shade", "enum"),
]
INSTANCE_SHAPES = ("plain", "dataclass", "slots", "namedtuple", "nested")

PRELUDE = "import collections, dataclasses, enum\n"


def source(g, ver):
    _, qual, shape = GLOBALS[g]
    n = qual.split(".")[0]
    if shape == "plain":
        return (f"class {n}:\n    VERSION = {ver}\n    def __init__(self, a=None, b=None):\n        self.a = a\n        self.b = b\n"
                f"    def __eq__(self, other):\n        return type(other) is type(self) and self.__dict__ == other.__dict__\n"
                f"    __hash__ = None\n    def since(self):\n        return {ver}\n")
    if shape == "dataclass":
        return f"@dataclasses.dataclass\nclass {n}:\n    a: object = None\n    b: object = None\n{n}.VERSION = {ver}\n"
    if shape == "slots":
        return (f"class {n}:\n    __slots__ = ('a', 'b')\n    VERSION = {ver}\n    def __init__(self, a=None, b=None):\n"
                f"        self.a = a\n        self.b = b\n")
    if shape == "namedtuple":
        return f"{n} = collections.namedtuple('{n}', 'a b')\n{n}.VERSION = {ver}\n"
    if shape == "enum":
        return f"class {n}(enum.Enum):\n    A = 1\n    B = 'b'\n{n}.VERSION = {ver}\n"
    if shape == "function":
        return f"def {n}(x=None):\n    return ({ver}, x)\n{n}.VERSION = {ver}\n"
    if shape == "nested":
        return (f"class {n}:\n    class Inner:\n        VERSION = {ver}\n        def __init__(self, a=None, b=None):\n"
                f"            self.a = a\n            self.b = b\n")
    raise ValueError(shape)


class State:
    def __init__(self, d):
        self.dir = pathlib.Path(d)
        self.dir.mkdir(parents=True, exist_ok=True)
        self.ver = [0] * len(GLOBALS)
        self.slots = {}
        self.regver = {}
        sys.path.insert(0, str(self.dir))
        syn = types.ModuleType(SYN)
        sys.modules[SYN] = syn
        exec(PRELUDE, syn.__dict__)
        exec(PRELUDE, sys.modules["__main__"].__dict__)
        for g, (mod, _, _) in enumerate(GLOBALS):
            if mod != FMOD:
                exec(source(g, 0), sys.modules[mod].__dict__)
        self.write_filemod()
        importlib.import_module(FMOD)

    def write_filemod(self):
        src = PRELUDE + "".join(source(g, self.ver[g]) for g, (m, _, _) in enumerate(GLOBALS) if m == FMOD)
        (self.dir / (FMOD + ".py")).write_text(src)
        importlib.invalidate_caches()


def current(g):
    mod, qual, _ = GLOBALS[g]
    o = sys.modules[mod]
    for part in qual.split("."):
        o = getattr(o, part)
    return o


def rebind(st, g, mode, ver):
    mod, qual, _ = GLOBALS[g]
    st.ver[g] = ver
    top = qual.split(".")[0]
    if mod == FMOD:
        st.write_filemod()
        if mode == "reimport":
            del sys.modules[FMOD]
            importlib.import_module(FMOD)
        else:
            importlib.reload(sys.modules[FMOD])
        return
    m = sys.modules[mod]
    if mode == "setattr":
        ns = {"__name__": mod}
        exec(PRELUDE + source(g, ver), ns)
        setattr(m, top, ns[top])
    elif mode == "newmodule" and mod == SYN:
        new = types.ModuleType(SYN)
        exec(PRELUDE, new.__dict__)
        for h, (m2, _, _) in enumerate(GLOBALS):
            if m2 == SYN:
                exec(source(h, st.ver[h]), new.__dict__)
        sys.modules[SYN] = new
    else:
        exec(source(g, ver), m.__dict__)


# ----------------------------------------------------------------------------- objects


def build(spec, made):
    k = spec[0]
    if k == "n":
        return None
    if k in ("i", "s"):
        return spec[1]
    if k == "b":
        return bytes.fromhex(spec[1])
    if k == "l":
        out = []
        made.append(out)
        out.extend(build(x, made) for x in spec[1])
        return out
    if k == "t":
        return tuple(build(x, made) for x in spec[1])
    if k == "d":
        out = {}
        made.append(out)
        for kk, vv in spec[1]:
            out[build(kk, made)] = build(vv, made)
        return out
    if k == "inst":
        cls = current(spec[1])
        if GLOBALS[spec[1]][2] == "namedtuple":
            return cls(build(spec[2], made), build(spec[3], made))
        o = cls()
        made.append(o)
        o.a = build(spec[2], made)
        o.b = build(spec[3], made)
        return o
    if k == "enum":
        return current(spec[1])[spec[2]]
    if k == "glob":
        return current(spec[1])
    if k == "ref":
        return made[spec[1] % len(made)] if made else None
    raise ValueError(k)


def same(a, b, ab, ba, path="x"):
    """None when `a` and `b` are the same object graph (types by identity, values, globals by identity, sharing);
    else (kind, path)."""
    if type(a) is not type(b):
        return ("type", path)
    t = type(a)
    if a is None or t in (int, str, bytes, bool, float):
        return None if a == b else ("value", path)
    if isinstance(a, (enum.Enum, type, types.FunctionType)):
        return None if a is b else ("global-identity", path)
    track = not isinstance(a, tuple)
    if track:
        if id(a) in ab:
            return None if ab[id(a)] == id(b) else ("identity-structure", path)
        if id(b) in ba:
            return ("identity-structure", path)
        ab[id(a)] = id(b)
        ba[id(b)] = id(a)
    if isinstance(a, (list, tuple)):
        if len(a) != len(b):
            return ("value", path)
        for i, (x, y) in enumerate(zip(a, b)):
            r = same(x, y, ab, ba, f"{path}[{i}]")
            if r:
                return r
        return None
    if isinstance(a, dict):
        if len(a) != len(b):
            return ("value", path)
        for (k1, v1), (k2, v2) in zip(a.items(), b.items()):
            r = same(k1, k2, ab, ba, path + ".key") or same(v1, v2, ab, ba, f"{path}[{k1!r}]")
            if r:
                return r
        return None
    names = list(getattr(t, "__slots__", ())) or sorted(getattr(a, "__dict__", {}))
    if not hasattr(t, "__slots__") and sorted(a.__dict__) != sorted(b.__dict__):
        return ("value", path)
    for n in names:
        r = same(getattr(a, n, None), getattr(b, n, None), ab, ba, f"{path}.{n}")
        if r:
            return r
    return None


def which_global(obj):
    t = type(obj)
    for g in range(len(GLOBALS)):
        try:
            if current(g) is t:
                return g
        except AttributeError:
            pass
    return "stale"


# ----------------------------------------------------------------------------- a user-registered compressor


def make_file_class(prefix, key):
    class HistFile(io.RawIOBase):
        """Magic number + the payload XORed with a key byte."""

        PREFIX = prefix

        def __init__(self, filename, mode="rb", compresslevel=3):
            super().__init__()
            self._own = isinstance(filename, (str, bytes, os.PathLike))
            self._fp = open(filename, mode) if self._own else filename
            self._w = mode.startswith("w")
            if self._w:
                self._fp.write(prefix)
            else:
                head = self._fp.read(len(prefix))
                if head != prefix:
                    raise OSError("bad magic number")
                self._buf = bytes(c ^ key for c in self._fp.read())
                self._pos = 0

        def readable(self):
            return not self._w

        def writable(self):
            return self._w

        def seekable(self):
            return not self._w

        def write(self, b):
            self._fp.write(bytes(c ^ key for c in bytes(b)))
            return len(b)

        def readinto(self, b):
            chunk = self._buf[self._pos:self._pos + len(b)]
            b[:len(chunk)] = chunk
            self._pos += len(chunk)
            return len(chunk)

        def tell(self):
            return self._pos if not self._w else self._fp.tell()

        def seek(self, off, whence=0):
            if whence == 0:
                self._pos = off
            elif whence == 1:
                self._pos += off
            else:
                self._pos = len(self._buf) + off
            return self._pos

        def close(self):
            if not self.closed:
                if self._own:
                    self._fp.close()
                elif self._w:
                    self._fp.flush()
            super().close()

    return HistFile


# ----------------------------------------------------------------------------- running a history


def dec(j):
    if not isinstance(j, dict):
        return j
    if j["t"] == "tuple":
        return tuple(dec(x) for x in j["v"])
    if j["t"] == "list":
        return [dec(x) for x in j["v"]]
    return object()


def run(job):
    import joblib
    from joblib import compressor as jc

    st = State(job["dir"])
    out = []
    for i, op in enumerate(job["ops"]):
        kind = op[0]
        rec = dict(i=i, op=kind)
        try:
            if kind == "rebind":
                rebind(st, op[1], op[2], op[3])
                rec["out"] = "rebound"
            elif kind == "reg":
                _, name, pfx, ext, key = op
                w = jc.CompressorWrapper(make_file_class(bytes.fromhex(pfx), key), prefix=bytes.fromhex(pfx), extension=ext)
                joblib.register_compressor(name, w, force=True)
                st.regver[name] = st.regver.get(name, 0) + 1
                rec["out"] = "registered"
            elif kind == "dump":
                do_dump(joblib, st, op, rec)
            elif kind == "load":
                do_load(joblib, st, op, rec)
            else:
                rec["out"] = "bad-op"
        except Exception as e:  # noqa: BLE001
            rec["out"] = "harness-error"
            rec["detail"] = repr(e)[:300]
        out.append(rec)
    return out


def method_of(compress, slot, jc):
    """The registered non-builtin compressor this dump relies on (None: builtin / raw)."""
    names = [n for n in jc._COMPRESSORS if n.startswith("hist")]
    if isinstance(compress, tuple) and compress and compress[0] in names:
        return compress[0]
    if isinstance(compress, str) and compress in names:
        return compress
    if not isinstance(compress, (tuple, str)):
        for n in names:
            if slot.endswith(jc._COMPRESSORS[n].extension):
                return n
    return None


def do_dump(joblib, st, op, rec):
    from joblib import compressor as jc

    _, slot, spec, compress, proto, tk = op[:6]
    compress = dec(compress)
    obj = build(spec, [])
    p = pickle.DEFAULT_PROTOCOL if proto is None else proto
    try:
        std = pickle.dumps(obj, p)
        ok = same(pickle.loads(std), obj, {}, {}) is None
    except Exception as e:  # noqa: BLE001
        rec["out"] = "skip:not-picklable:" + type(e).__name__
        return
    if not ok:
        rec["out"] = "skip:pickle-not-faithful"
        return
    path = st.dir / slot
    before = path.read_bytes() if path.exists() else None
    prev = st.slots.get(slot)
    try:
        if tk == "path":
            joblib.dump(obj, str(path), compress=compress, protocol=proto)
            data = None
        elif tk == "pathlib":
            joblib.dump(obj, path, compress=compress, protocol=proto)
            data = None
        elif tk == "file":
            with open(path, "wb") as f:
                joblib.dump(obj, f, compress=compress, protocol=proto)
            data = None
        else:
            b = io.BytesIO()
            joblib.dump(obj, b, compress=compress, protocol=proto)
            data = b.getvalue()
            path.write_bytes(data)
    except Exception as e:  # noqa: BLE001
        rec["out"] = "err " + type(e).__name__
        rec["detail"] = repr(e)[:200]
        after = path.read_bytes() if path.exists() else None
        rec["file_unchanged"] = (after == before) or tk == "file"
        if after != before and prev is not None:
            prev["demanded"] = False
        return
    m = method_of(compress, slot, jc)
    st.slots[slot] = dict(std=std, demanded=True, codec=(m, st.regver.get(m)) if m else None, tag=spec[2][1] if spec[0] == "inst" and spec[2][0] == "i" else None)
    rec["out"] = "ok"
    rec["head"] = path.read_bytes()[:24].hex()


def do_load(joblib, st, op, rec):
    _, slot, lk = op
    s = st.slots.get(slot)
    path = st.dir / slot
    if s is None:
        rec["out"] = "nofile"
        return
    if s["codec"] is not None and st.regver.get(s["codec"][0]) != s["codec"][1]:
        s["demanded"] = False  # written through a registration that has been replaced since
    if not s["demanded"]:
        rec["out"] = "skip:not-demanded"
        return
    try:
        ref = pickle.loads(s["std"])
    except Exception as e:  # noqa: BLE001
        rec["out"] = "skip:pickle-raises-now:" + type(e).__name__
        return
    try:
        if lk == "path":
            got = joblib.load(str(path))
        elif lk == "file":
            with open(path, "rb") as f:
                got = joblib.load(f)
        else:
            got = joblib.load(io.BytesIO(path.read_bytes()))
    except Exception as e:  # noqa: BLE001
        rec["out"] = "raises"
        rec["exc"] = type(e).__name__
        rec["detail"] = repr(e)[:200]
        return
    r = same(got, ref, {}, {})
    rec["out"] = "ok"
    rec["mismatch"] = list(r) if r else None
    if r:
        rec["detail"] = dict(type_loaded=f"{type(got).__module__}.{type(got).__qualname__}@v{getattr(type(got), 'VERSION', '?')}",
                             type_pickle=f"{type(ref).__module__}.{type(ref).__qualname__}@v{getattr(type(ref), 'VERSION', '?')}",
                             same_type=type(got) is type(ref))
        try:
            rec["detail"]["eq"] = bool(got == ref)
        except Exception:  # noqa: BLE001
            pass
    rec["g"] = which_global(got)
    rec["ver"] = getattr(type(got), "VERSION", None)
    rec["tag"] = getattr(got, "a", None) if isinstance(getattr(got, "a", None), int) else None


if __name__ == "__main__":
    warnings.simplefilter("ignore")
    sys.dont_write_bytecode = True  # the edited module file is compiled from its source at every (re)import
    job = json.load(sys.stdin)
    res = run(job)
    sys.stdout.write(json.dumps(res))
