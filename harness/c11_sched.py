"""Deterministic scheduler for threads using one joblib cache directory (property C11; DESIGN 2.3/2.4 `detsched`).

`python c11_sched.py <spec.json>` runs N participant threads (call / reduce_size / clear workloads) of ONE process on a
shared cache directory. Exactly one participant runs at any time; control changes hands only at `sys.monitoring` LINE
events (Python 3.12, PEP 669) of the tracked source files — joblib's store/memory/disk/backports/numpy_pickle code and
the CPython helpers they call (`shutil`, `os`, `genericpath`, `posixpath`) — i.e. before any line that can issue a file
system call. The LINE callback runs in the thread about to execute the line and parks it on its own semaphore until the
scheduler grants it the next step.

The schedule is data (replayable):
  {"mode": "none"[, "trace": true]}                    run the participants one after the other (trace: also report the
                                                       (file, function) of every step, for the harness to aim its sweeps)
  {"mode": "switch", "points": [[t, n, u], ...]}       when participant t is about to make its n-th step: switch to u
                                                       (u runs until it finishes or hits its own switch point)
  {"mode": "prng", "seed": s, "max": m, "p": 0.02}     at each step switch to a random other live participant with
                                                       probability p, at most m times
  {"mode": "lines", "script": [[t, file_suffix, text, occurrence], ..., [t, "end"]]}
                                                       run participant t until it is about to execute, for the
                                                       occurrence-th time, a line of `file_suffix` containing `text`

Each participant first stats `<cache>/.who-<i>` so that the strace log (taken by the harness) can map kernel thread
ids to participants. One JSON line on stdout: outcomes, steps per participant, the switches made.
"""

from __future__ import annotations

import json
import linecache
import os
import random
import sys
import threading
import types

TRACKED_SUFFIXES = (
    "joblib/_store_backends.py", "joblib/memory.py", "joblib/disk.py", "joblib/backports.py",
    "joblib/numpy_pickle.py", "joblib/numpy_pickle_utils.py", "joblib/func_inspect.py",
    "/shutil.py", "/os.py", "/genericpath.py", "/posixpath.py",
    # CPython 3.12 freezes these modules: their code objects carry these file names
    "<frozen os>", "<frozen genericpath>", "<frozen posixpath>",
)


class Sched:
    def __init__(self, n, schedule):
        self.n = n
        self.schedule = schedule
        self.sems = [threading.Semaphore(0) for _ in range(n)]
        self.done = [False] * n
        self.steps = [0] * n
        self.current = None
        self.switches = []
        self.by_ident = {}
        self.rng = random.Random(schedule.get("seed", 0))
        self.budget = schedule.get("max", 0)
        self.points = {(t, k): u for t, k, u in schedule.get("points", [])}
        self.script = list(schedule.get("script", []))
        self.script_pos = 0
        self.line_hits = {}
        self.lock = threading.Lock()
        self.tracked = {}
        self.want_trace = bool(schedule.get("trace"))
        self.trace = [[] for _ in range(n)]
        self.fs_steps = [[] for _ in range(n)]  # trace mode: steps (tracked lines) of a participant that issue a file-system call

    # -- called by participant threads
    def wait_turn(self, i):
        self.sems[i].acquire()

    def finish(self, i):
        with self.lock:
            self.done[i] = True
            nxt = self._next_after_finish(i)
        if nxt is not None:
            self.current = nxt
            self.sems[nxt].release()

    def _live(self):
        return [j for j in range(self.n) if not self.done[j]]

    def _next_after_finish(self, i):
        live = self._live()
        if not live:
            return None
        if self.schedule.get("mode") == "lines":
            # continue with the script: the next directive whose participant is still alive
            while self.script_pos < len(self.script) and self.script[self.script_pos][0] == i:
                self.script_pos += 1
            while self.script_pos < len(self.script):
                t = self.script[self.script_pos][0]
                if not self.done[t]:
                    return t
                self.script_pos += 1
        return live[0]

    def _switch(self, i, u, why):
        self.switches.append([i, self.steps[i], u, why])
        self.current = u
        self.sems[u].release()
        self.sems[i].acquire()

    def on_line(self, code, line):
        fn = code.co_filename
        tr = self.tracked.get(fn)
        if tr is None:
            tr = fn.endswith(TRACKED_SUFFIXES)
            self.tracked[fn] = tr
        if not tr:
            return sys.monitoring.DISABLE
        i = self.by_ident.get(threading.get_ident())
        if i is None or self.done[i]:
            return None
        self.steps[i] += 1
        if self.want_trace:
            self.trace[i].append([os.path.basename(fn), code.co_name])
        mode = self.schedule.get("mode", "none")
        if mode == "switch":
            u = self.points.get((i, self.steps[i]))
            if u is not None and not self.done[u] and u != i:
                self._switch(i, u, "point")
        elif mode == "prng":
            if self.budget > 0 and self.rng.random() < self.schedule.get("p", 0.02):
                others = [j for j in self._live() if j != i]
                if others:
                    self.budget -= 1
                    self._switch(i, self.rng.choice(others), "prng")
        elif mode == "lines":
            while self.script_pos < len(self.script):
                d = self.script[self.script_pos]
                if d[0] != i or len(d) == 2:
                    break
                _, suffix, text, occ = d
                if fn.endswith(suffix) and text in linecache.getline(fn, line):
                    key = (self.script_pos,)
                    self.line_hits[key] = self.line_hits.get(key, 0) + 1
                    if self.line_hits[key] >= occ:
                        # this directive is fulfilled: hand over to the participant of the next directive
                        self.script_pos += 1
                        nxt = None
                        while self.script_pos < len(self.script):
                            t = self.script[self.script_pos][0]
                            if not self.done[t]:
                                nxt = t
                                break
                            self.script_pos += 1
                        if nxt is not None and nxt != i:
                            self._switch(i, nxt, "line")
                            continue
                break
        return None


_FS_FUNCS = ("stat", "lstat", "mkdir", "open", "rename", "replace", "unlink", "remove", "rmdir", "scandir", "listdir",
             "utime", "access", "fstat", "truncate", "link", "symlink", "readlink", "chmod")


def _record_fs_steps(sched):
    """Dry (trace) runs only: wrap the `os`-level file-system entry points (and `open`) so that the index of the tracked
    line that is executing when a participant issues a file-system call is recorded.  Pre-empting a participant at exactly
    these steps enumerates its interleavings at file-system-call granularity (between two calls every pre-emption point is
    equivalent).  The wrappers live in this (untracked) file: they add no step, so the indices are valid for the
    scheduled runs, which do not install them."""
    import builtins, functools, io

    def wrap(f):
        @functools.wraps(f)
        def w(*a, **k):
            i = sched.by_ident.get(threading.get_ident())
            if i is not None and not sched.done[i]:
                st = sched.steps[i]
                if not sched.fs_steps[i] or sched.fs_steps[i][-1] != st:
                    sched.fs_steps[i].append(st)
            return f(*a, **k)
        return w

    for name in _FS_FUNCS:
        f = getattr(os, name, None)
        if f is not None:
            setattr(os, name, wrap(f))
    builtins.open = wrap(builtins.open)
    io.open = builtins.open


def _load_func(moddir):
    """A fresh function object per participant (own entry in joblib's `_FUNCTION_HASHES`), same module name and file."""
    path = os.path.join(moddir, "wl_mod.py")
    m = types.ModuleType("wl_mod")
    m.__file__ = path
    exec(compile(open(path, encoding="utf-8").read(), path, "exec"), m.__dict__)
    return m


def main(spec):
    import warnings

    sys.path.insert(0, spec["repo"])
    sys.dont_write_bytecode = True
    import joblib  # noqa
    from joblib import Memory, expires_after
    import joblib.memory, joblib._store_backends, joblib.disk, joblib.backports, shutil  # noqa

    if not os.path.realpath(joblib.__file__).startswith(os.path.realpath(spec["repo"]) + os.sep):
        print(json.dumps(dict(infra="joblib imported from " + joblib.__file__)))
        return 3
    warnings.simplefilter("ignore")
    parts = spec["participants"]
    n = len(parts)
    sched = Sched(n, spec.get("schedule", {"mode": "none"}))
    results = [None] * n
    cache = spec["cache"]

    def body(i, p):
        sched.by_ident[threading.get_ident()] = i
        sched.wait_turn(i)
        try:
            try:
                os.stat(os.path.join(cache, f".who-{i}"))
            except OSError:
                pass
            try:
                moddir = spec.get("moddirs", {}).get(str(p.get("ver", 0)), spec["moddir"])
                if p["kind"] == "call":
                    mod = _load_func(moddir)
                    cb = {"none": None, "long": expires_after(days=1), "now": expires_after(seconds=-1)}[p.get("cb", "none")]
                    mem = Memory(cache, verbose=0)
                    cf = mem.cache(mod.f, cache_validation_callback=cb)
                    v = cf(p["a"])
                    results[i] = dict(outcome=["ok", v], executed=len(mod.CALLS))
                elif p["kind"] == "reduce":
                    mem = Memory(cache, verbose=0)
                    mem.reduce_size(items_limit=p.get("items_limit", 0))
                    results[i] = dict(outcome=["ok", None])
                elif p["kind"] == "clear":
                    mem = Memory(cache, verbose=0)
                    mem.clear(warn=False)
                    results[i] = dict(outcome=["ok", None])
                elif p["kind"] == "fclear":  # MemorizedFunc.clear()
                    mod = _load_func(moddir)
                    mem = Memory(cache, verbose=0)
                    mem.cache(mod.f).clear(warn=False)
                    results[i] = dict(outcome=["ok", None])
                elif p["kind"] == "iclear":  # MemorizedResult.clear() of the entry of argument a
                    from joblib.memory import MemorizedResult

                    mod = _load_func(moddir)
                    mem = Memory(cache, verbose=0)
                    cf = mem.cache(mod.f)
                    MemorizedResult(mem.store_backend, (cf.func_id, p["args_id"])).clear()
                    results[i] = dict(outcome=["ok", None])
            except BaseException as e:  # noqa: BLE001
                import traceback

                tb = traceback.extract_tb(e.__traceback__)
                where = [f"{os.path.basename(f.filename)}:{f.name}" for f in tb][-4:]
                results[i] = dict(outcome=["raise", type(e).__name__, str(e)[:160]], where=where)
        finally:
            sched.finish(i)

    # Inode numbers are an input the model does not have: ext4 hands the number of a directory that was just removed to
    # the next one created, and shutil.rmtree's lstat/open/fstat `samestat` check then cannot tell them apart. Keep every
    # removed directory's inode allocated for the rest of the run (an O_PATH handle taken at the `os.rmdir` audit event),
    # so that a re-created directory always is a different inode — as in the model, which never reuses a number.
    keep = []

    def audit(event, args):
        if event == "os.rmdir":
            try:
                path, dir_fd = args[0], args[1] if len(args) > 1 else None
                full = path if dir_fd is None else None
                if full is None or str(full).startswith(cache):
                    keep.append(os.open(path, os.O_PATH | os.O_DIRECTORY | os.O_NOFOLLOW, dir_fd=dir_fd))
            except OSError:
                pass

    sys.addaudithook(audit)
    if sched.want_trace:
        _record_fs_steps(sched)
    mon = sys.monitoring
    tool = mon.DEBUGGER_ID
    mon.use_tool_id(tool, "c11-detsched")
    mon.register_callback(tool, mon.events.LINE, sched.on_line)
    threads = [threading.Thread(target=body, args=(i, p), name=f"P{i}") for i, p in enumerate(parts)]
    for t in threads:
        t.start()
    mon.set_events(tool, mon.events.LINE)
    first = 0
    if sched.schedule.get("mode") == "lines" and sched.script:
        first = sched.script[0][0]
    sched.current = first
    sched.sems[first].release()
    for t in threads:
        t.join(spec.get("timeout", 60))
    mon.set_events(tool, 0)
    hung = [t.name for t in threads if t.is_alive()]
    print(json.dumps(dict(results=results, steps=sched.steps, switches=sched.switches, hung=hung,
                          trace=sched.trace if sched.want_trace else None,
                          fs_steps=sched.fs_steps if sched.want_trace else None)))
    sys.stdout.flush()
    if hung:
        os._exit(4)
    return 0


if __name__ == "__main__":
    sys.exit(main(json.loads(open(sys.argv[1]).read())))
