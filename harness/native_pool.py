"""Supporting probes for C04 / C09 on the REAL pool backends (`multiprocessing`, `loky`, `threading`); OS scheduling, oracles
only (no Lean model is involved: the statements are about what worker processes do).

C04 - "afterwards the same Parallel object - inside or outside a with block - can be called again and returns exactly the
results of the new tasks, with nothing left over from the failed call": inside a `with Parallel(...)` block the backend
re-builds its workers after a failed call (task error, timeout, error of the input iterator, abandoned output generator).
`config_probe`: a task that REPORTS how its worker is configured (marker left by the pool `initializer`, start method of the
worker process, `*_NUM_THREADS` environment, plus - observed on the pool object from the parent - idle time-out and temporary
folder) must give the same answer before and after the failed call, for every pool parameter given on the Parallel object or
through `parallel_config`.  With numpy (python3-vt sub-process, `memmap_subprocess`): `max_nbytes` / `temp_folder`, observed
as "is the array argument a memmap, and where does its file live".

C09 - "once a task has failed, no further items are taken [from the input]": `failure_probe` uses failures that do NOT
come from the task body - a result that cannot be pickled, an argument that cannot be pickled / cannot be rebuilt in the
worker, a worker that dies, a task exception whose class cannot be rebuilt in the parent - next to ordinary ones (Exception,
SystemExit, an application BaseException), on every real backend.  The input is an instrumented iterator; task 0 blocks on a
gate (a file) that is opened only when the call is over, task 1 fails, nothing else can complete before the failure: the
number of items pulled must stay within pre_dispatch + one look-ahead slice, SOME error must reach the caller before the gate
is opened by the watchdog (which class is C04's business: F34), and the object must be reusable.
"""

import json
import multiprocessing
import os
import signal
import subprocess
import sys
import threading
import time

from . import core

KIND_CONFIG = "native-pool-config"
KIND_FAILURE = "native-pool-failure"
LOKY_ENV = "VERIF_NATIVE_POOL_LOKY"  # =0 switches the loky rows of config_probe off (F56, repaired in /repo 7487594)


# ------------------------------------------------------------------------------------------ task functions (run in workers)

_WORKER = {}


def init_worker(tag):
    _WORKER["tag"] = tag


def report(i):
    """How is the worker that runs this task configured?  (canonical: no pids, no paths of the machine)"""
    return (i, _WORKER.get("tag"), multiprocessing.get_start_method(),
            os.environ.get("OMP_NUM_THREADS"), os.environ.get("OPENBLAS_NUM_THREADS"))


def wait_gate(gate, limit=120.0):
    t0 = time.monotonic()
    while not os.path.exists(gate) and time.monotonic() - t0 < limit:
        time.sleep(0.02)


def gated_report(i, gate):
    wait_gate(gate)
    return report(i)


def fail_at(i, bad):
    if i == bad:
        raise ValueError(i)
    return i


class AppStop(BaseException):
    """A picklable application BaseException."""


class NoRebuild(Exception):
    """Pickles (class + args) but cannot be rebuilt: __init__ needs two arguments and hands one to Exception."""

    def __init__(self, a, b):
        super().__init__(a)
        self.b = b


class Unpicklable:
    def __reduce__(self):
        raise RuntimeError("this object cannot be pickled")


def _boom():
    raise RuntimeError("this object cannot be rebuilt")


class UnUnpicklable:
    """Pickles, but raises when it is loaded in the worker."""

    def __reduce__(self):
        return (_boom, ())


def victim(i, gate, how, payload=None):
    """Task 0 blocks until the gate opens; task 1 fails in the way `how` says; the others are quick."""
    if i == 0:
        wait_gate(gate)
        return 0
    if i != 1:
        return i * 3
    if how == "raise:ValueError":
        raise ValueError(i)
    if how == "raise:SystemExit":
        raise SystemExit(i)
    if how == "raise:AppStop":
        raise AppStop(i)
    if how == "raise:no-rebuild":
        raise NoRebuild(i, "x")
    if how == "result-unpicklable":
        return threading.Lock()
    if how == "worker-exit":
        os._exit(3)
    if how == "worker-sigkill":
        os.kill(os.getpid(), signal.SIGKILL)
        time.sleep(60)
    return i * 3  # "arg-unpicklable" / "arg-ununpicklable": the failure is in the payload, never reached


def triple(i):
    return i * 3


# ------------------------------------------------------------------------------------------ helpers


class _Quiet:
    """Worker processes print task tracebacks on the inherited stderr."""

    def __enter__(self):
        self.saved = os.dup(2)
        self.null = os.open(os.devnull, os.O_WRONLY)
        os.dup2(self.null, 2)

    def __exit__(self, *a):
        os.dup2(self.saved, 2)
        os.close(self.saved)
        os.close(self.null)


def _outcome(fn):
    try:
        return ("returned", fn())
    except BaseException as e:  # noqa: BLE001
        return ("raised", type(e).__name__)


def _config_of(out):
    """The set of worker configurations seen by the tasks of one call (order and multiplicity dropped), or the failure."""
    if out[0] != "returned":
        return out
    rows = list(out[1])
    idx = [r[0] for r in rows]
    return ("returned", sorted({tuple("" if x is None else x for x in r[1:]) for r in rows}), idx == list(range(len(rows))))


def _pool_side(p):
    """What the parent can see of the pool's parameters without numpy (vendored loky executor / MemmappingPool)."""
    be = getattr(p, "_backend", None)
    w = getattr(be, "_workers", None)
    pool = getattr(be, "_pool", None)
    out = {}
    if w is not None:
        out["idle_worker_timeout"] = getattr(w, "_timeout", "?")
        out["initializer"] = getattr(getattr(w, "_initializer", None), "__name__", None)
    tm = getattr(w if w is not None else pool, "_temp_folder_manager", None)
    if tm is not None:
        out["temp_folder_root"] = getattr(tm, "_temp_folder_root", "?")
    return out


# ------------------------------------------------------------------------------------------ C04: re-built workers

# (backend, where the parameters are given, parameters)
CONFIG_ROWS = [
    ("multiprocessing", "parallel", ("initializer",)),
    ("multiprocessing", "parallel", ("context:spawn",)),
    ("multiprocessing", "parallel", ("initializer", "temp_folder")),
    ("multiprocessing", "parallel_config", ("initializer",)),
    ("loky", "parallel", ("initializer",)),
    ("loky", "parallel", ("idle_worker_timeout", "temp_folder")),
    ("loky", "parallel_config", ("inner_max_num_threads", "idle_worker_timeout", "initializer")),
    ("threading", "parallel", ()),
]
FAILURES = ("task-error", "timeout", "iterator-error", "generator-abandoned")


def _applicable(backend, failure):
    return not (backend == "multiprocessing" and failure == "generator-abandoned")


def config_cases(ctx):
    rng = ctx.rng("native-pool-config")
    loky_on = os.environ.get(LOKY_ENV, "1") != "0"
    cases = []
    for backend, where, params in CONFIG_ROWS:
        if backend == "loky" and where == "parallel" and not loky_on:
            continue
        fs = [f for f in FAILURES if _applicable(backend, f)]
        chosen = fs if ctx.thorough else [fs[rng.randrange(len(fs))]]
        if not ctx.thorough and "context:spawn" in params:
            chosen = ["task-error"]  # spawned workers are dear: one row
        for f in chosen:
            cases.append(dict(kind=KIND_CONFIG, backend=backend, where=where, params=list(params), failure=f))
    return cases


def run_config_case(ctx, res, case, joblib):
    backend, where, params, failure = case["backend"], case["where"], tuple(case["params"]), case["failure"]
    scratch = str(ctx.scratch)
    gate = os.path.join(scratch, f"np-gate-{time.monotonic_ns()}")
    kw = {}
    be_arg = backend
    if "initializer" in params:
        kw.update(initializer=init_worker, initargs=("configured",))
    if "idle_worker_timeout" in params:
        kw["idle_worker_timeout"] = 77
    if "temp_folder" in params:
        tf = os.path.join(scratch, "np-temp-folder")
        os.makedirs(tf, exist_ok=True)
        kw["temp_folder"] = tf
    if "inner_max_num_threads" in params:
        kw["inner_max_num_threads"] = 3
    if "context:spawn" in params:
        be_arg = multiprocessing.get_context("spawn")
    box = {}
    ra = "generator" if failure == "generator-abandoned" else "list"

    def calls(p):
        d = joblib.delayed
        box["before"] = _config_of(_outcome(lambda: list(p(d(report)(i) for i in range(4)))))
        box["pool_before"] = _pool_side(p)
        if failure == "task-error":
            box["failed"] = _outcome(lambda: list(p(d(fail_at)(i, 1) for i in range(4))))
        elif failure == "timeout":
            p.timeout = 1
            box["failed"] = _outcome(lambda: list(p(d(gated_report)(i, gate) for i in range(2))))
            p.timeout = None
        elif failure == "iterator-error":
            def src():
                yield d(report)(0)
                yield d(report)(1)
                raise KeyError("input")
            box["failed"] = _outcome(lambda: list(p(src())))
        else:
            def abandon():
                g = p(d(gated_report)(i, gate) if i >= 2 else d(report)(i) for i in range(6))
                first = next(g)
                g.close()
                return first
            first = _outcome(abandon)
            box["failed"] = ("abandoned", first[0]) if first[0] == "returned" else first
        open(gate, "w").close()
        box["after"] = _config_of(_outcome(lambda: list(p(d(report)(i) for i in range(4)))))
        box["pool_after"] = _pool_side(p)
        box["after2"] = _config_of(_outcome(lambda: list(p(d(report)(i) for i in range(4)))))

    def body():
        try:
            if where == "parallel":
                with joblib.Parallel(n_jobs=2, backend=be_arg, return_as=ra, **kw) as p:
                    calls(p)
            else:
                with joblib.parallel_config(backend, **kw):
                    with joblib.Parallel(n_jobs=2, return_as=ra) as p:
                        calls(p)
            box["done"] = True
        except BaseException as e:  # noqa: BLE001
            box["crash"] = repr(e)[:200]
        finally:
            open(gate, "w").close()

    t = threading.Thread(target=body, daemon=True)
    t.start()
    t.join(150)
    open(gate, "w").close()
    res.evaluations += 1
    res.count("native-pool-config-runs")
    res.count(f"native-pool-config:{backend}:{failure}")
    tag = f"{backend}"
    if t.is_alive():
        res.fail("call-never-returns", case, dict(box=box, note="did not finish within 150 s"))
        return
    if "crash" in box:
        res.fail("with-block-raised:" + tag, case, dict(box=box))
        return
    before, failed, after, after2 = box.get("before"), box.get("failed"), box.get("after"), box.get("after2")
    if not before or before[0] != "returned":
        res.fail("first-call-failed:" + tag, case, dict(box=box))
        return
    # did the parameters take effect at all?  (otherwise the case says nothing)
    cfgs = before[1]
    took = len(cfgs) >= 1
    if "initializer" in params:
        took = took and all(c[0] == "configured" for c in cfgs)
    if "context:spawn" in params:
        took = took and all(c[1] == "spawn" for c in cfgs)
    if "inner_max_num_threads" in params:
        took = took and all(c[2] == "3" for c in cfgs)
    if "idle_worker_timeout" in params and backend == "loky":
        took = took and box["pool_before"].get("idle_worker_timeout") == 77
    wanted = dict(timeout="TimeoutError", **{"task-error": "ValueError", "iterator-error": "KeyError"})
    if failure == "generator-abandoned":
        failed_ok = failed == ("abandoned", "returned")
    else:
        failed_ok = failed == ("raised", wanted[failure])
    if took and failed_ok:
        res.nontrivial.add(("native-pool-config", backend, where, params, failure))
    else:
        res.count("native-pool-config:parameters-or-failure-did-not-take")
    if failure != "generator-abandoned" and (not failed or failed[0] != "raised"):
        res.fail("failure-not-surfaced", case, dict(failed=failed))
    elif failure != "generator-abandoned" and failed[1] != wanted[failure]:
        res.fail("wrong-exception:" + failed[1], case, dict(failed=failed, want=wanted[failure]))
    for name, got in (("after", after), ("after2", after2)):
        if not got or got[0] != "returned":
            res.fail("not-reusable-after-failure", case, dict(call=name, got=got, failed=failed))
            return
        if not got[2]:
            res.fail("wrong-results:call-after-failure", case, dict(call=name, got=got))
            return
        if got[1] != before[1]:
            res.fail("rebuilt-workers-configured-differently:" + tag, case,
                     dict(call=name, before=before[1], after=got[1], columns=["initializer marker", "start method", "OMP_NUM_THREADS",
                                                                            "OPENBLAS_NUM_THREADS"], failed=failed))
            return
    if box.get("pool_before") != box.get("pool_after"):
        res.fail("rebuilt-workers-configured-differently:" + tag, case,
                 dict(observed="on the pool object, from the parent", before=box.get("pool_before"), after=box.get("pool_after"),
                      failed=failed))


def config_probe(ctx, res, cases=None):
    joblib = core.use_repo()
    with _Quiet():
        for case in (config_cases(ctx) if cases is None else cases):
            run_config_case(ctx, res, case, joblib)


# -- max_nbytes / temp_folder, observed through numpy in a python3-vt sub-process

_MEMMAP_CHILD = r"""
import json, os, sys, threading
import numpy as np
import joblib
from joblib import Parallel, delayed
backend, tf, failure = sys.argv[1], sys.argv[2], sys.argv[3]

def where(a):
    fn = getattr(a, "filename", None)
    base = a
    while fn is None and getattr(base, "base", None) is not None:
        base = base.base
        fn = getattr(base, "filename", None)
    return ("memmap" if fn else "array", bool(fn) and os.path.realpath(fn).startswith(os.path.realpath(tf)), int(a.sum()))

def boom(a, i):
    if i == 1:
        raise ValueError(i)
    return 0

box = {}
def body():
    arr = np.arange(200, dtype=np.int64)
    with Parallel(n_jobs=2, backend=backend, max_nbytes=100, temp_folder=tf) as p:
        box["before"] = sorted(set(p(delayed(where)(arr + k) for k in range(3))))
        try:
            p(delayed(boom)(arr, i) for i in range(3))
            box["failed"] = "returned"
        except BaseException as e:
            box["failed"] = type(e).__name__
        box["after"] = sorted(set(p(delayed(where)(arr + k) for k in range(3))))
t = threading.Thread(target=body, daemon=True)
t.start(); t.join(120)
box["finished"] = not t.is_alive()
with open(sys.argv[4] + ".tmp", "w") as f:
    json.dump(box, f)
os.replace(sys.argv[4] + ".tmp", sys.argv[4])
if not box["finished"]:
    os._exit(1)
"""


def memmap_subprocess(ctx, res, backends):
    """max_nbytes=100 bytes and temp_folder on the Parallel object: a 1600-byte array argument reaches the task as a memmap
    whose file lives under temp_folder - before AND after the failed call."""
    script = os.path.join(str(ctx.scratch), "np_memmap_child.py")
    with open(script, "w") as f:
        f.write(_MEMMAP_CHILD)
    for backend in backends:
        tf = os.path.join(str(ctx.scratch), f"np-mm-{backend}")
        os.makedirs(tf, exist_ok=True)
        case = dict(kind=KIND_CONFIG, backend=backend, where="parallel", params=["max_nbytes", "temp_folder"], failure="task-error",
                    numpy=True)
        env = dict(os.environ, PYTHONPATH=str(core.REPO), JOBLIB_MULTIPROCESSING="1")
        out = os.path.join(str(ctx.scratch), f"np-mm-{backend}.json")
        try:
            # own session: whatever the child leaves behind (idle loky workers live on for a while) is killed with its group
            proc = subprocess.Popen([core.PY_NUMPY, script, backend, tf, "task-error", out], stdin=subprocess.DEVNULL,
                                    stdout=subprocess.DEVNULL, stderr=subprocess.DEVNULL, env=env, cwd=str(ctx.scratch),
                                    start_new_session=True)
        except OSError as e:
            res.count("native-pool-config:numpy-subprocess-unavailable")
            res.notes.append(f"native_pool.memmap_subprocess({backend}): {type(e).__name__}")
            continue
        try:
            proc.wait(240)
        except subprocess.TimeoutExpired:
            pass
        finally:
            try:
                os.killpg(proc.pid, signal.SIGKILL)
            except (ProcessLookupError, PermissionError):
                pass
            proc.wait()
        if not os.path.exists(out):
            res.count("native-pool-config:numpy-subprocess-unavailable")
            res.notes.append(f"native_pool.memmap_subprocess({backend}): no result (rc={proc.returncode})")
            continue
        with open(out) as f:
            box = json.load(f)
        res.evaluations += 1
        res.count("native-pool-config-runs:numpy")
        if not box.get("finished"):
            res.fail("call-never-returns", case, dict(box=box))
            continue
        before, after = box.get("before"), box.get("after")
        if before and all(b[0] == "memmap" and b[1] for b in before) and box.get("failed") == "ValueError":
            res.nontrivial.add(("native-pool-config-numpy", backend))
        if box.get("failed") != "ValueError":
            res.fail("wrong-exception:" + str(box.get("failed")), case, dict(box=box))
        if after is None:
            res.fail("not-reusable-after-failure", case, dict(box=box))
        elif [b[:2] for b in before] != [a[:2] for a in after] or [b[2] for b in before] != [a[2] for a in after]:
            res.fail("rebuilt-workers-configured-differently:" + backend, case,
                     dict(observed="array argument of a task: (memmap?, file under temp_folder?, checksum)", before=before, after=after))


# ------------------------------------------------------------------------------------------ C09: failures outside the task body

FAILURE_KINDS = {
    "threading": ("raise:ValueError", "raise:SystemExit", "raise:AppStop"),
    "multiprocessing": ("raise:ValueError", "raise:AppStop", "result-unpicklable", "arg-unpicklable", "arg-ununpicklable",
                        "worker-exit", "worker-sigkill", "raise:no-rebuild"),
    "loky": ("raise:ValueError", "raise:SystemExit", "result-unpicklable", "arg-unpicklable", "arg-ununpicklable",
             "worker-exit", "worker-sigkill", "raise:no-rebuild"),
}
# multiprocessing.Pool never reports these (the job is simply lost: CPython's Pool, not joblib): only `timeout=` ends the call
MP_LOST_JOB = ("arg-ununpicklable", "worker-exit", "worker-sigkill", "raise:no-rebuild")
N_ITEMS, PRE_DISPATCH, BATCH = 30, 2, 1


def failure_cases(ctx, few=False):
    rng = ctx.rng("native-pool-failure")
    cases = []
    if few:
        # C04, quick tier: the kinds the pool itself reports, judged for "raises promptly, reusable afterwards"
        for backend, k in (("multiprocessing", rng.choice(["result-unpicklable", "arg-unpicklable"])),
                           ("loky", rng.choice(["arg-ununpicklable", "worker-exit", "worker-sigkill", "raise:no-rebuild"]))):
            cases.append(dict(kind=KIND_FAILURE, backend=backend, failure=k, managed=rng.random() < 0.5, return_as="list", n=N_ITEMS,
                              pre_dispatch=PRE_DISPATCH, batch_size=BATCH))
        return cases
    for backend, kinds in FAILURE_KINDS.items():
        kinds = list(kinds)
        if not ctx.thorough:
            # the kinds that do not come from the task body first; quick tier: all of them on multiprocessing and loky that are
            # reported by the pool, one lost-job kind, one ordinary kind
            lost = [k for k in kinds if backend == "multiprocessing" and k in MP_LOST_JOB]
            keep = [k for k in kinds if k not in lost and not k.startswith("raise:")] + (lost and [lost[rng.randrange(len(lost))]])
            ordinary = [k for k in kinds if k.startswith("raise:") and k not in lost]
            keep.append(ordinary[rng.randrange(len(ordinary))])
            kinds = keep
        for k in kinds:
            managed = rng.random() < 0.5
            ra = "list" if backend == "multiprocessing" else rng.choice(["list", "list", "generator", "generator_unordered"])
            cases.append(dict(kind=KIND_FAILURE, backend=backend, failure=k, managed=managed, return_as=ra, n=N_ITEMS,
                              pre_dispatch=PRE_DISPATCH, batch_size=BATCH))
    return cases


def run_failure_case(ctx, res, case, joblib, prop):
    backend, how, managed, ra = case["backend"], case["failure"], case["managed"], case["return_as"]
    n, pd, bs = case["n"], case["pre_dispatch"], case["batch_size"]
    nj = 2
    bound = pd + nj * bs
    gate = os.path.join(str(ctx.scratch), f"np-gate-{time.monotonic_ns()}")
    lost = backend == "multiprocessing" and how in MP_LOST_JOB
    pulled = []
    box = {}
    over = threading.Event()  # the first call is over (returned or raised)

    def make(i):
        payload = None
        if i == 1 and how == "arg-unpicklable":
            payload = Unpicklable()
        if i == 1 and how == "arg-ununpicklable":
            payload = UnUnpicklable()
        return joblib.delayed(victim)(i, gate, how, payload)

    def src():
        for i in range(n):
            pulled.append(i)
            yield make(i)

    def body():
        p = joblib.Parallel(n_jobs=nj, backend=backend, pre_dispatch=pd, batch_size=bs, return_as=ra, timeout=5 if lost else 60)
        if managed:
            p.__enter__()
        try:
            t0 = time.monotonic()
            box["first"] = _outcome(lambda: list(p(src())))
            box["first_s"] = round(time.monotonic() - t0, 1)
            box["gate_was_open"] = os.path.exists(gate)
            box["pulled_at_end"] = len(pulled)
            over.set()
            open(gate, "w").close()
            p.timeout = 60
            box["second"] = _outcome(lambda: list(p(joblib.delayed(triple)(i) for i in range(4))))
            box["pulled_final"] = len(pulled)
        except BaseException as e:  # noqa: BLE001
            box["crash"] = repr(e)[:200]
        finally:
            over.set()
            open(gate, "w").close()
            if managed:
                try:
                    p.__exit__(None, None, None)
                except BaseException as e:  # noqa: BLE001
                    box["exit"] = repr(e)[:200]

    t = threading.Thread(target=body, daemon=True)
    t.start()
    # watchdog: open the gate when the call is over, when the bound is already exceeded, or after 75 s
    t0 = time.monotonic()
    opened_by = None
    while not over.wait(0.05):
        if len(pulled) > bound:
            opened_by = "bound-exceeded"
            break
        if time.monotonic() - t0 > 75:
            opened_by = "watchdog"
            break
    box["pulled_when_gate_opened"] = len(pulled)
    open(gate, "w").close()
    t.join(120)
    res.evaluations += 1
    res.count("native-pool-failure-runs")
    res.count(f"native-pool-failure:{backend}:{how}")
    sig_tail = f"{how}:{backend}"
    if t.is_alive():
        if prop == "C04":
            res.fail("call-never-returns", case, dict(box=box, opened_by=opened_by))
        elif len(pulled) > bound:
            res.fail("pull-after-failure:" + sig_tail, case, dict(pulled=len(pulled), bound=bound, box=box))
        return
    first = box.get("first")
    raised = bool(first) and first[0] == "raised"
    if raised and opened_by is None and len(pulled) <= bound:
        res.nontrivial.add(("native-pool-failure", backend, how, managed, ra))
    if prop == "C09":
        if box["pulled_when_gate_opened"] > bound or len(pulled) > bound:
            res.fail("pull-after-failure:" + sig_tail, case,
                     dict(pulled_when_gate_opened=box["pulled_when_gate_opened"], pulled_final=len(pulled), of=n, bound=bound,
                          first=first, opened_by=opened_by, note="task 0 blocks until the call is over, task 1 fails: nothing but the "
                          "failed task can complete, so only the pre-dispatched items (+ one look-ahead slice) may be taken"))
        elif not raised:
            res.fail("failure-not-surfaced:" + sig_tail, case, dict(first=first, opened_by=opened_by))
    else:
        if not raised:
            res.fail("failure-not-surfaced", case, dict(first=first, opened_by=opened_by))
        elif opened_by == "watchdog" or box.get("gate_was_open"):
            res.fail("error-waits-for-running-siblings", case, dict(first=first, opened_by=opened_by, seconds=box.get("first_s")))
        if box.get("second") != ("returned", [0, 3, 6, 9]):
            res.fail("not-reusable-after-failure", case, dict(first=first, second=box.get("second"), crash=box.get("crash")))


def failure_probe(ctx, res, prop, cases=None, few=False):
    joblib = core.use_repo()
    with _Quiet():
        for case in (failure_cases(ctx, few) if cases is None else cases):
            run_failure_case(ctx, res, case, joblib, prop)


# ------------------------------------------------------------------------------------------ entry points


def is_replay(ctx):
    return bool(ctx.replay) and ctx.replay.get("case", {}).get("kind") in (KIND_CONFIG, KIND_FAILURE)


def replay(ctx, prop):
    case = ctx.replay["case"]
    res = core.Result()
    if case["kind"] == KIND_CONFIG:
        res.rule = "replay of a native pool case: worker configuration before / after a failed call inside a with block"
        if case.get("numpy"):
            core.use_repo()
            memmap_subprocess(ctx, res, [case["backend"]])
        else:
            config_probe(ctx, res, cases=[case])
    else:
        res.rule = "replay of a native pool case: a failure that does not come from the task body (repeated 2 times: OS scheduling)"
        failure_probe(ctx, res, prop, cases=[case, case])
    return res


def probe(ctx, res, prop):
    """C04: config_probe (+ numpy sub-process) and the failure kinds judged for surfacing / reusability (a few);
    C09: the failure kinds judged for input consumption."""
    if prop == "C04":
        config_probe(ctx, res)
        loky_on = os.environ.get(LOKY_ENV, "1") != "0"
        memmap_subprocess(ctx, res, ["multiprocessing"] + (["loky"] if loky_on else []))
        failure_probe(ctx, res, "C04", few=not ctx.thorough)
    elif prop == "C09":
        failure_probe(ctx, res, "C09")
    return res
