"""C20 probe (oracle only): temporary locations given RELATIVE to the working directory.  "whatever is still registered when
the last client process exits, normally or by being killed, is deleted then" — the tracker is another process with its own
(fixed) working directory, so what the client registers must denote the same path there.

`python -B c20_relpath.py <base> <how>` runs the CLIENT (cwd <base>/A): starts the tracker, makes a TemporaryResourcesManager
whose location is relative (how = env: JOBLIB_TEMP_FOLDER=scratch; arg: temp_folder_root='scratch'), changes directory to
<base>/B, creates the context folder and a registered file in it as the reducer does, synchronises with the tracker, prints
the tracker's pid and sleeps; the harness kills it and looks for leftovers once the tracker has exited."""
import os
import sys
import time


def client(base, how):
    os.chdir(os.path.join(base, "A"))
    from joblib.externals.loky.backend import resource_tracker as rt
    from joblib._memmapping_reducer import TemporaryResourcesManager

    rt.ensure_running()
    manager = TemporaryResourcesManager() if how == "env" else TemporaryResourcesManager(temp_folder_root="scratch")
    os.chdir(os.path.join(base, "B"))
    folder = manager.resolve_temp_folder_name()
    os.makedirs(folder, exist_ok=True)
    filename = os.path.join(folder, "%d-array.pkl" % os.getpid())
    with open(filename, "w") as f:
        f.write("x")
    rt.register(filename, "file")
    sentinel = os.path.join(base, "sentinel")
    open(sentinel, "w").close()
    rt.register(sentinel, "file")
    rt.maybe_unlink(sentinel, "file")
    while os.path.exists(sentinel):
        time.sleep(0.01)
    print(rt._resource_tracker._pid, flush=True)
    print(folder, flush=True)
    time.sleep(600)


if __name__ == "__main__":
    client(sys.argv[1], sys.argv[2])
