"""C12 probe (oracle only): the wipe of a function's cache after a source change is INTERRUPTED (Ctrl-C, or an error of the
store) after some entries have gone and before the rest — and before the old func_code.py has gone.  In the next session
the edited function must still return its own values for every argument (the old entries must not be taken for its own).

`python -B c12_interrupt.py '<json spec>'` (PYTHONPATH = tree under test); spec: dir, phase (1|2|3), text, args, exc.
phase 1: cache f(a) for all args under the first text.  phase 2: new text; the first call wipes; the wipe is interrupted at the
first unlink inside an entry directory that comes after one whole entry directory was removed, provided func_code.py is still
there (otherwise: reported as `not-applicable`, that history is the known F39/F36 shape).  phase 3: new text, call all args.
One JSON line on stdout."""
import glob
import json
import os
import sys


def main(spec):
    import warnings

    warnings.simplefilter("ignore")
    d = spec["dir"]
    os.makedirs(d, exist_ok=True)
    sys.path.insert(0, d)
    with open(os.path.join(d, "c12int_mod.py"), "w") as f:
        f.write(spec["text"])
    from joblib import Memory
    import c12int_mod as m

    cache = os.path.join(d, "cache")
    mem = Memory(cache, verbose=0)
    cf = mem.cache(m.f)
    out = dict(phase=spec["phase"], steps=[], errors=[])
    if spec["phase"] == 2:
        state = dict(rmdirs=0, fired=False, note=None)
        real_unlink, real_rmdir = os.unlink, os.rmdir
        exc = {"KeyboardInterrupt": KeyboardInterrupt, "OSError": OSError}[spec.get("exc", "KeyboardInterrupt")]

        def code_there():
            return bool(glob.glob(os.path.join(cache, "joblib", "**", "func_code.py"), recursive=True))

        def unlink(path, *a, **k):
            name = os.path.basename(os.fspath(path))
            if not state["fired"] and state["rmdirs"] >= 1 and name in ("output.pkl", "metadata.json"):
                state["fired"] = True
                if code_there():
                    raise exc("injected: wipe interrupted")
                state["note"] = "not-applicable: func_code.py was removed before the entries"
            return real_unlink(path, *a, **k)

        def rmdir(path, *a, **k):
            r = real_rmdir(path, *a, **k)
            state["rmdirs"] += 1
            return r

        os.unlink, os.rmdir = unlink, rmdir
        try:
            try:
                out["steps"].append([spec["args"][0], cf(spec["args"][0])])
            except BaseException as e:  # noqa: BLE001
                out["interrupted"] = type(e).__name__
        finally:
            os.unlink, os.rmdir = real_unlink, real_rmdir
        out["fired"] = state["fired"]
        out["note"] = state["note"]
        out["entries_left"] = len(glob.glob(os.path.join(cache, "joblib", "**", "output.pkl"), recursive=True))
    else:
        for a in spec["args"]:
            try:
                got = cf(a)
            except BaseException as e:  # noqa: BLE001
                out["errors"].append([a, "raise:" + type(e).__name__])
                continue
            want = m.f(a)
            out["steps"].append([a, got, want])
            if got != want:
                out["errors"].append([a, "wrong-version-value", got, want])
    print(json.dumps(out))
    return 0


if __name__ == "__main__":
    sys.exit(main(json.loads(sys.argv[1])))
