"""numpy side of the C19 check. Runs under `python3-vt` (3.11 + numpy) with PYTHONPATH=$VERIF_REPO, as a
subprocess of harness/props/c19.py (which runs under /venv/bin/python, without numpy).

  python3-vt c19_worker.py run   <scratch> <seed> <tier> <part> [<replay.json>]   → JSON lines on stdout
  python3-vt c19_worker.py rebuild <json>     (isolated grandchild: may die of SIGSEGV, that is the point)

Output records (one JSON object per line):
  {"k":"corr", "stream", "case", "req", "impl"}   a request for the Lean driver and what the implementation did
  {"k":"fail", "sig", "case", "detail"}           the implementation violates the property (oracle, no model)
  {"k":"stats", "evaluations", "nontrivial", "dist", "samples"}
  {"k":"done"}

The file layout is parsed by an INDEPENDENT reader (`OracleUnpickler`: CPython's pure-Python unpickler plus the
documented payload format — wrapper pickle, one pad-length byte, 0xff padding to 16-byte alignment, raw bytes in
C or F order), never by joblib's `read_array`.
"""

from __future__ import annotations

import bz2
import gzip
import hashlib
import io
import json
import lzma
import os
import pickle
import random
import subprocess
import sys
import warnings
import zlib

import numpy as np

import joblib
from joblib import numpy_pickle as npk

warnings.simplefilter("ignore")
NATIVE = "<" if sys.byteorder == "little" else ">"
OUT = sys.stdout


def emit(rec):
    OUT.write(json.dumps(rec, default=repr) + "\n")


class Stats:
    def __init__(self):
        self.evaluations = 0
        self.nontrivial = set()
        self.dist = {}
        self.samples = []

    def count(self, k, n=1):
        self.dist[k] = self.dist.get(k, 0) + n


ST = Stats()


def fail(sig, case, detail):
    emit(dict(k="fail", sig=sig, case=case, detail=detail))


def corr(stream, case, req, impl):
    emit(dict(k="corr", stream=stream, case=case, req=req, impl=impl))


# ----------------------------------------------------------------------------- array generator

SIMPLE_DTYPES = [
    "?", "i1", "u1", "<i2", ">i2", "<u2", ">u2", "<i4", ">i4", "<u4", ">u4", "<i8", ">i8", "<u8", ">u8",
    "<f2", ">f2", "<f4", ">f4", "<f8", ">f8", "<g", ">g", "<c8", ">c8", "<c16", ">c16",
    "<M8[s]", ">M8[ns]", "<M8[D]", "<m8[ms]", ">m8[us]", "S1", "S5", "<U3", ">U3", "V4", "V7", "O",
]
STRUCT_DTYPES = [
    [["a", "<i4"], ["b", "<f8"]],
    [["a", ">i4"], ["b", ">f8"]],  # all big-endian: the byte-order coercion applies
    [["a", "<i4"], ["b", ">f8"]],  # mixed endianness: left alone
    [["x", ">u2"], ["y", "S3"], ["z", "<c8"]],
    [["p", "<i2", [2]], ["q", "?"]],  # sub-array field
    [["in", [["u", "<u1"], ["v", ">i8"]]], ["w", "<f4"]],  # nested
    [["t", "<M8[s]"], ["d", ">m8[ms]"], ["s", "<U2"]],
    {"names": ["a", "b"], "formats": ["u1", "<f8"], "aligned": True},  # padding holes
    {"names": ["a", "b"], "formats": ["<i4", "<i4"], "offsets": [0, 8], "itemsize": 16},
    [["o", "O"], ["n", "<i4"]],  # hasobject through a field
]
ZERO_ITEMSIZE = ["V0", []]  # F27
SHAPES = [[], [0], [1], [7], [3, 0], [0, 3], [2, 3], [5, 4], [1, 1], [2, 3, 4], [4, 1, 3], [2, 1, 3, 2], [1, 5, 1, 2], [33]]
LAYOUTS = ["C", "F", "slice", "T", "rev", "revlast", "bcast", "offset", "readonly", "memmap", "memmap-F", "memmap-view",
           "memmap-slice", "matrix", "asarray-view"]
OBJECTS = [None, 1, 2**70, "str", b"by", (1, 2), [1, [2]], 1.5, {"k": 1}, True, float("inf")]


def to_dtype(d):
    if isinstance(d, str):
        return np.dtype(d)
    if isinstance(d, dict):
        return np.dtype(dict(d), align=bool(d.get("aligned")))

    def field(f):
        fmt = f[1] if isinstance(f[1], str) else to_dtype(f[1])
        return (f[0], fmt) if len(f) == 2 else (f[0], fmt, tuple(f[2]))

    return np.dtype([field(f) for f in d])


def fill(a, g, rnd):
    """Fill `a` (any layout) in place with bit patterns typical of and nasty for its dtype."""
    dt = a.dtype
    if dt.names:
        for n in dt.names:
            fill(a[n], g, rnd)
        return
    if a.size == 0:
        return
    k = dt.kind
    if k == "b":
        a[...] = g.integers(0, 2, size=a.shape).astype(bool)
    elif k == "U":
        n = dt.itemsize // 4
        alphabet = "ab é日😀Z"
        vals = ["".join(rnd.choice(alphabet) for _ in range(rnd.randint(0, n))) for _ in range(a.size)]
        a[...] = np.array(vals, dtype=dt).reshape(a.shape)
    elif k == "O":
        flat = [rnd.choice(OBJECTS) for _ in range(a.size)]
        for idx, v in zip(np.ndindex(a.shape), flat):
            a[idx] = v
    elif dt.itemsize == 0:
        return
    else:
        raw = np.frombuffer(g.bytes(a.size * dt.itemsize), dtype=dt).reshape(a.shape)
        a[...] = raw
        if k in "fc" and a.size:
            # a few special values: NaN with payload, -0.0, inf, denormal
            specials = np.array([np.nan, -0.0, np.inf, -np.inf, 5e-324, 1.5], dtype="f8").astype(dt)
            for idx in list(np.ndindex(a.shape))[: min(a.size, 6) : 2]:
                a[idx] = specials[rnd.randrange(len(specials))]


def make_array(spec, scratch):
    """spec: dict(dtype, shape, layout, seed). Deterministic."""
    dt = to_dtype(spec["dtype"])
    shape = tuple(spec["shape"])
    layout = spec["layout"]
    seed = spec["seed"]
    g = np.random.default_rng(seed)
    rnd = random.Random(seed)
    nd = len(shape)

    def filled(shp, order="C"):
        b = np.zeros(shp, dtype=dt, order=order)
        fill(b, g, rnd)
        return b

    if layout == "C":
        return filled(shape)
    if layout == "F":
        return filled(shape, "F")
    if layout == "slice":
        if nd == 0:
            return filled(shape)
        base = filled(tuple(2 * d + 1 for d in shape))
        return base[tuple(slice(1, None, 2) for _ in shape)]
    if layout == "T":
        return filled(shape[::-1]).T
    if layout == "rev":
        b = filled(shape)
        return b[::-1] if nd else b
    if layout == "revlast":
        b = filled(shape)
        return b[..., ::-1] if nd else b
    if layout == "bcast":
        if nd == 0:
            return filled(shape)
        return np.broadcast_to(filled((1,) + shape[1:]), shape)
    if layout == "offset":
        # data pointer not aligned to the itemsize: a view at byte offset 1 of a byte buffer
        n = int(np.prod(shape, dtype=np.int64)) if nd else 1
        if dt.hasobject or dt.itemsize == 0:
            return filled(shape)
        src = filled(shape)
        buf = bytearray(1 + n * dt.itemsize)
        buf[1:] = src.tobytes()
        return np.frombuffer(buf, dtype=dt, count=n, offset=1).reshape(shape)
    if layout == "readonly":
        b = filled(shape)
        b.setflags(write=False)
        return b
    if layout in ("memmap", "memmap-F", "memmap-view", "memmap-slice"):
        if dt.hasobject or dt.itemsize == 0 or (nd and 0 in shape):
            return filled(shape)
        os.makedirs(scratch, exist_ok=True)
        fn = os.path.join(scratch, f"src-{seed}-{layout}.bin")
        off = rnd.choice([0, 8, 16, 24, 40])
        big = tuple(2 * d + 1 for d in shape) if layout == "memmap-slice" else shape
        order = "F" if layout == "memmap-F" else "C"
        m = np.memmap(fn, dtype=dt, mode="w+", shape=big if big else None, offset=off, order=order) if big else \
            np.memmap(fn, dtype=dt, mode="w+", shape=(1,), offset=off)
        fill(m, g, rnd)
        m.flush()
        if not big:
            return m[0:1].reshape(())
        if layout == "memmap-view":
            return np.asarray(m)
        if layout == "memmap-slice":
            return m[tuple(slice(1, None, 2) for _ in shape)]
        return m
    if layout == "matrix":
        if nd != 2 or dt.names or dt.kind in "OSUVmM":
            return filled(shape)
        return np.matrix(filled(shape))
    if layout == "asarray-view":
        b = filled(shape)
        return b.view()
    raise ValueError(layout)


def arr_desc(a):
    return dict(type=type(a).__name__, dtype=str(a.dtype), shape=list(a.shape), strides=list(a.strides),
                c=bool(a.flags.c_contiguous), f=bool(a.flags.f_contiguous), nbytes=int(a.nbytes))


# ----------------------------------------------------------------------------- bit-exact comparison


def elem_bytes(a, order="C"):
    """Element bytes in C (or F) order; object arrays by pickled value; structured arrays field by field, so that
    the padding holes of aligned / explicit-offset dtypes (which are not element data and which numpy's copy loops
    leave undefined) do not take part."""
    a = np.asarray(a)
    if a.dtype.names:
        return b"".join(elem_bytes(a[n], order) for n in a.dtype.names)
    if a.dtype.hasobject:
        return pickle.dumps(a.tolist(), 2)
    return a.tobytes(order)


def has_holes(dt):
    if dt.names:
        return sum(dt.fields[n][0].itemsize for n in dt.names) != dt.itemsize or any(has_holes(dt.fields[n][0]) for n in dt.names)
    if dt.subdtype:
        return has_holes(dt.subdtype[0])
    return False


def dtype_equal_up_to_byteorder(d1, d2):
    return d1.newbyteorder("=") == d2.newbyteorder("=") or d1 == d2


def same_values_other_byteorder(loaded, orig):
    try:
        return elem_bytes(loaded.astype(orig.dtype)) == elem_bytes(orig)
    except Exception:  # noqa: BLE001
        return False


class Holder:
    def __init__(self, **kw):
        self.__dict__.update(kw)


def walk(o):
    """Arrays of a container in pickling order."""
    if isinstance(o, np.ndarray):
        yield o
    elif isinstance(o, (list, tuple)):
        for x in o:
            yield from walk(x)
    elif isinstance(o, dict):
        for v in o.values():
            yield from walk(v)
    elif isinstance(o, Holder):
        yield from walk(o.__dict__)


def nest(a, how, rnd):
    if how == "alone":
        return a
    if how == "list2":
        return [a, "between", a]
    if how == "dict":
        return {"pre": b"x" * rnd.randint(0, 40), "a": a, "b": [1, np.arange(rnd.randint(0, 5), dtype="<i2")], "post": "end"}
    if how == "obj":
        return Holder(tag="t" * rnd.randint(0, 17), arr=a, tail=(1, 2.5))
    return (1, a, "x" * rnd.randint(0, 9), a.T if a.ndim > 1 else a)


# ----------------------------------------------------------------------------- the independent reader


class OracleUnpickler(pickle._Unpickler):
    dispatch = pickle._Unpickler.dispatch.copy()

    def __init__(self, f):
        super().__init__(f)
        self.f = f
        self.arrays = []

    def load_build(self):
        pickle._Unpickler.load_build(self)
        if isinstance(self.stack[-1], npk.NumpyArrayWrapper):
            w = self.stack.pop()
            self.stack.append(self.payload(w))

    dispatch[pickle.BUILD[0]] = load_build

    def payload(self, w):
        f = self.f
        pos = f.tell()
        align = getattr(w, "numpy_array_alignment_bytes", None)
        rec = dict(wrapper_end=pos, order=w.order, shape=list(w.shape), itemsize=w.dtype.itemsize, align=align,
                   allow_mmap=bool(w.allow_mmap), subclass=w.subclass.__name__, hasobject=bool(w.dtype.hasobject),
                   dtype=w.dtype)
        count = 1
        for d in w.shape:
            count *= int(d)
        rec["count"] = count
        if w.dtype.hasobject:
            arr = pickle.load(f)
            rec.update(start=pos, end=f.tell())
        else:
            if align is not None:
                pb = f.read(1)
                pad = pb[0] if pb else 0
                run = f.read(pad)
                rec.update(pad=pad, run_ok=(run == b"\xff" * pad))
            else:
                rec.update(pad=None, run_ok=True)
            start = f.tell()
            n = count * w.dtype.itemsize
            raw = f.read(n)
            rec.update(start=start, end=start + len(raw), short=(len(raw) != n))
            arr = np.frombuffer(raw, dtype=w.dtype, count=count).reshape(tuple(w.shape), order=w.order)
            rec["raw"] = raw
        self.arrays.append(rec)
        return arr


class RecordingReader:
    """A non-peekable binary file object over bytes that logs every read as (position before, bytes returned):
    lets the harness see the ACTUAL reads of `read_array`'s chunk loop."""

    def __init__(self, data):
        self._b = io.BytesIO(data)
        self.reads = []

    def read(self, n=-1):
        pos = self._b.tell()
        out = self._b.read(n)
        self.reads.append((pos, len(out)))
        return out

    def readline(self):
        return self._b.readline()

    def readinto(self, buf):
        pos = self._b.tell()
        n = self._b.readinto(buf)
        self.reads.append((pos, n))
        return n

    def seek(self, *a):
        return self._b.seek(*a)

    def tell(self):
        return self._b.tell()


DECODERS = [
    ("zlib", zlib.decompress), ("gzip", gzip.decompress), ("bz2", bz2.decompress),
    ("lzma", lambda d: lzma.decompress(d, format=lzma.FORMAT_ALONE)), ("xz", lambda d: lzma.decompress(d, format=lzma.FORMAT_XZ)),
]


def decode_stream(data):
    """(codec name or 'raw', uncompressed stream) using CPython's codecs only."""
    head = data[:6]
    order = DECODERS
    for name, dec in order:
        if (name == "zlib" and head[:1] == b"\x78") or (name == "gzip" and head[:2] == b"\x1f\x8b") or \
           (name == "bz2" and head[:2] == b"BZ") or (name == "lzma" and head[:2] == b"]\x00") or (name == "xz" and head[:6] == b"\xfd7zXZ\x00"):
            try:
                return name, dec(data)
            except Exception:  # noqa: BLE001
                pass
    return "raw", data


# ----------------------------------------------------------------------------- dump / load checks


def classify_zero_itemsize(a):
    return (not a.dtype.hasobject) and a.dtype.itemsize == 0


def check_loaded(loaded, orig, case, strict, how):
    """The property's oracle on one array. strict: dtype must be identical (mmap loads / ensure_native_byte_order=False)."""
    ok = True
    if not isinstance(loaded, np.ndarray):
        fail("loaded-not-an-array", case, dict(how=how, got=type(loaded).__name__))
        return False
    t_orig = type(orig)
    if how.startswith("mmap"):
        pass  # memory-mapped loads yield np.memmap by design
    elif t_orig is np.memmap:
        if type(loaded) not in (np.ndarray, np.memmap):
            fail("subclass:memmap-loads-as-" + type(loaded).__name__, case, dict(how=how))
            ok = False
    elif type(loaded) is not t_orig:
        if t_orig is np.matrix and type(loaded) is np.ndarray:
            fail("subclass:np.matrix-loads-as-ndarray", case, dict(how=how, numpy=np.__version__))
        else:
            fail("subclass-not-restored:" + t_orig.__name__, case, dict(how=how, got=type(loaded).__name__))
        ok = False
    if tuple(loaded.shape) != tuple(orig.shape):
        fail("shape-differs", case, dict(how=how, want=list(orig.shape), got=list(loaded.shape)))
        return False
    if strict:
        if loaded.dtype != orig.dtype:
            fail("dtype-differs", case, dict(how=how, want=str(orig.dtype), got=str(loaded.dtype)))
            return False
        same = elem_bytes(loaded) == elem_bytes(orig)
    else:
        if not dtype_equal_up_to_byteorder(loaded.dtype, orig.dtype):
            fail("dtype-differs-beyond-byte-order", case, dict(how=how, want=str(orig.dtype), got=str(loaded.dtype)))
            return False
        if loaded.dtype == orig.dtype:
            same = elem_bytes(loaded) == elem_bytes(orig)
        else:
            same = same_values_other_byteorder(loaded, orig)
    if not same:
        fail("element-bytes-differ", case, dict(how=how, want=hashlib.sha1(elem_bytes(orig)).hexdigest(),
                                                got=hashlib.sha1(elem_bytes(loaded)).hexdigest()))
        ok = False
    # order: a C-contiguous original comes back C-contiguous, an F-only one F-contiguous
    if orig.flags.c_contiguous and not loaded.flags.c_contiguous:
        fail("order-not-restored:C", case, dict(how=how))
        ok = False
    if orig.flags.f_contiguous and not orig.flags.c_contiguous and not loaded.flags.f_contiguous:
        fail("order-not-restored:F", case, dict(how=how))
        ok = False
    return ok


def dump_to(obj, target, scratch, name, compress, protocol):
    """Returns (bytes written, path or None)."""
    if target == "path":
        p = os.path.join(scratch, name)
        joblib.dump(obj, p, compress=compress, protocol=protocol)
        return open(p, "rb").read(), p
    if target == "file":
        p = os.path.join(scratch, name)
        with open(p, "wb") as f:
            joblib.dump(obj, f, compress=compress, protocol=protocol)
        return open(p, "rb").read(), p
    b = io.BytesIO()
    joblib.dump(obj, b, compress=compress, protocol=protocol)
    return b.getvalue(), None


def hexs(b):
    return b.hex() if b else "-"


def dump_load_case(case, scratch):
    """One array, one configuration: dump with the real code, parse the file independently, compare with the
    model (layout / read / order / count / mmap offset) and with the original (oracle)."""
    spec = case["array"]
    rnd = random.Random(f"{spec['seed']}/{case['nest']}/{case['compress']}/{case['protocol']}")
    try:
        a = make_array(spec, os.path.join(scratch, "src"))
    except Exception as e:  # noqa: BLE001
        ST.count("generator-skip:" + type(e).__name__)
        return
    os.makedirs(scratch, exist_ok=True)
    obj = nest(a, case["nest"], rnd)
    originals = list(walk(obj))
    compress = case["compress"]
    compress = tuple(compress) if isinstance(compress, list) else compress
    ST.evaluations += 1
    ST.count("dtype-kind=" + ("struct" if a.dtype.names else a.dtype.kind))
    ST.count("layout=" + spec["layout"])
    ST.count("ndim=" + str(a.ndim))
    ST.count("nest=" + case["nest"])
    ST.count("compress=" + (str(compress[0]) if isinstance(compress, tuple) else str(compress)))
    ST.count("protocol=" + str(case["protocol"]))
    ST.count("target=" + case["target"])
    ST.count("type=" + type(a).__name__)
    ST.nontrivial.add(json.dumps([spec, case["nest"], str(compress), case["protocol"], case["target"]], sort_keys=True))
    zero = any(classify_zero_itemsize(x) for x in originals)
    if len(ST.samples) < 5:
        ST.samples.append(dict(case=case, array=arr_desc(a)))
    # ---- dump
    name = f"c{ST.evaluations}" + case.get("ext", ".pkl")
    try:
        data, path = dump_to(obj, case["target"], scratch, name, compress, case["protocol"])
    except Exception as e:  # noqa: BLE001
        sig = "dump-raises:" + type(e).__name__
        if zero:
            sig = "dump-raises:itemsize-zero-dtype"
        fail(sig, case, dict(array=arr_desc(a), error=repr(e)[:200]))
        if zero:
            # the model rejects the same way
            corr("layout-error", case, "layout 16 0 0 %d" % a.size, "err " + type(e).__name__)
        return
    # ---- independent parse of the file
    codec, stream = decode_stream(data)
    ST.count("written-as=" + codec)
    try:
        ou = OracleUnpickler(io.BytesIO(stream))
        parsed_obj = ou.load()
        recs = ou.arrays
    except Exception as e:  # noqa: BLE001
        fail("file-not-in-documented-format:" + type(e).__name__, case, repr(e)[:300])
        return
    if len(recs) != len(originals):
        fail("array-count-differs-in-file", case, dict(want=len(originals), got=len(recs)))
        return
    chunk_jobs = []
    for i, (rec, orig) in enumerate(zip(recs, originals)):
        sub = dict(case, index=i)
        want_order = "F" if (orig.flags.f_contiguous and not orig.flags.c_contiguous) else "C"
        corr("order", sub, f"order {int(orig.flags.c_contiguous)} {int(orig.flags.f_contiguous)}", rec["order"])
        corr("count", sub, "count " + (",".join(map(str, orig.shape)) or "-"), str(orig.size))
        if rec["hasobject"]:
            continue
        al = "-" if rec["align"] is None else str(rec["align"])
        corr("layout", sub, f"layout {al} {rec['wrapper_end']} {rec['itemsize']} {rec['count']}",
             f"ok pad={'-' if rec['pad'] is None else rec['pad']} start={rec['start']} end={rec['end']}")
        # oracle on the layout itself (the property: padding to 16-byte alignment)
        if rec["align"] is not None:
            if rec["start"] % 16 != 0:
                fail("data-start-not-16-byte-aligned", sub, dict(start=rec["start"], pad=rec["pad"]))
            # the bytes between the wrapper and the data (pad-length byte, 0xff run) against the model's writer
            corr("write-prefix", sub, f"write {al} {rec['wrapper_end']} {rec['itemsize']} -",
                 "ok " + hexs(stream[rec["wrapper_end"]: rec["start"]]))
        if rec["short"]:
            fail("file-shorter-than-array", sub, dict(start=rec["start"], end=rec["end"]))
        want_raw = np.asarray(orig).tobytes(want_order)
        if has_holes(orig.dtype):
            in_file = np.frombuffer(rec["raw"], dtype=orig.dtype, count=rec["count"]).reshape(orig.shape, order=want_order)
            same_raw = elem_bytes(in_file) == elem_bytes(orig)
        else:
            same_raw = rec["raw"] == want_raw
        if not same_raw:
            fail("bytes-in-file-differ-from-array", sub, dict(order=rec["order"], want_order=want_order))
        if len(rec["raw"]) <= 1536:
            tail = stream[rec["end"]: rec["end"] + 6]
            chunk = stream[rec["wrapper_end"]: rec["end"]] + tail
            # the model reads the bytes that are in the file; that they are the array's is judged just above
            corr("read", sub, f"read {al} {rec['wrapper_end']} {rec['count']} {rec['itemsize']} {hexs(chunk)}",
                 f"ok {hexs(rec['raw'] if has_holes(orig.dtype) else want_raw)} pos={rec['end']} left={len(tail)}")
        chunk_jobs.append((sub, rec))
    # the chunked read: for an uncompressed stream the actual `read` calls inside each array's data range are
    # observed; otherwise only the arithmetic is compared
    observed = None
    if codec == "raw" and chunk_jobs:
        rr = RecordingReader(data)
        try:
            joblib.load(rr)
            observed = rr.reads
        except Exception:  # noqa: BLE001  (reported by the load checks below)
            observed = None
    for sub, rec in chunk_jobs:
        want = chunk_expect(rec["itemsize"], rec["count"])
        if observed is not None and rec["itemsize"]:
            sizes = [n for (pos, n) in observed if rec["start"] <= pos < rec["end"] and n > 0]
            isz = rec["itemsize"]
            m = want.split()[1] if want.startswith("ok") else "m=?"
            want = (f"ok {m} n={len(sizes)} sum={sum(sizes) // isz} first={(sizes[0] // isz) if sizes else 0} "
                    f"last={(sizes[-1] // isz) if sizes else 0} maxbytes={max(sizes) if sizes else 0}")
            ST.count("chunk-loop-observed")
        corr("chunks", sub, f"chunks {rec['itemsize']} {rec['count']}", want)
    # what the independent reader reconstructs is the original (tests the WRITER alone)
    for i, (o, p) in enumerate(zip(originals, walk(parsed_obj))):
        if o.dtype != p.dtype or tuple(o.shape) != tuple(p.shape) or elem_bytes(o) != elem_bytes(p):
            fail("independent-reader-gets-different-array", dict(case, index=i), dict(want=arr_desc(o), got=arr_desc(p)))
    # ---- load with the real code, every way
    loads = []
    try:
        loads.append(("bytesio-auto", False, joblib.load(io.BytesIO(data))))
        loads.append(("bytesio-strict", True, joblib.load(io.BytesIO(data), ensure_native_byte_order=False)))
        if path is not None:
            p2 = path + case.get("load_ext", ".bin")
            os.replace(path, p2)
            path = p2
            loads.append(("path-auto", False, joblib.load(path)))
            with open(path, "rb") as f:
                loads.append(("file-strict", True, joblib.load(f, ensure_native_byte_order=False)))
    except Exception as e:  # noqa: BLE001
        fail("load-raises:" + type(e).__name__, case, repr(e)[:300])
        return
    for how, strict, back in loads:
        got = list(walk(back))
        if len(got) != len(originals):
            fail("array-count-differs-after-load", case, dict(how=how, want=len(originals), got=len(got)))
            continue
        for i, (l, o) in enumerate(zip(got, originals)):
            check_loaded(l, o, dict(case, index=i), strict, how)
    # ---- memory-mapped loads
    if path is not None and case.get("mmap") and codec == "raw":
        for mode in case["mmap"]:
            mmap_case(case, path, mode, originals, recs, stream)
    if path is not None:
        try:
            os.unlink(path)
        except OSError:
            pass


def chunk_expect(itemsize, count):
    """What the chunked read must do, stated directly (not from the model): ceil(count/m) reads covering count items."""
    bs = npk.BUFFER_SIZE
    if itemsize == 0:
        return "err ZeroDivisionError"
    m = bs // min(bs, itemsize)
    n = -(-count // m)
    first = min(m, count) if count else 0
    last = (count - (n - 1) * m) if n else 0
    return f"ok m={m} n={n} sum={count} first={first} last={last} maxbytes={first * itemsize}"


def mmap_case(case, path, mode, originals, recs, stream):
    sub0 = dict(case, mmap_mode=mode)
    before = open(path, "rb").read()
    with warnings.catch_warnings(record=True) as wl:
        warnings.simplefilter("always")
        try:
            back = joblib.load(path, mmap_mode=mode)
        except Exception as e:  # noqa: BLE001
            sig = "mmap-load-raises:" + type(e).__name__
            if any(o.size == 0 for o in originals):
                sig = "mmap-load-raises-on-empty-array:" + type(e).__name__
            fail(sig, sub0, repr(e)[:300])
            return
    unaligned_warning = any("not byte aligned" in str(w.message) for w in wl)
    got = list(walk(back))
    ST.count("mmap_mode=" + mode)
    for i, (l, o, rec) in enumerate(zip(got, originals, recs)):
        sub = dict(sub0, index=i)
        if rec["hasobject"]:
            check_loaded(l, o, sub, True, "mmap-" + mode)
            continue
        if not isinstance(l, np.memmap):
            fail("mmap-load-not-a-memmap", sub, dict(got=type(l).__name__))
            continue
        check_loaded(l, o, sub, True, "mmap-" + mode)
        if l.size and l.ctypes.data % 16 != 0:
            fail("mmap-array-not-16-byte-aligned", sub, dict(addr_mod_16=l.ctypes.data % 16, offset=int(l.offset)))
        al = "-" if rec["align"] is None else str(rec["align"])
        head = stream[rec["wrapper_end"]: rec["wrapper_end"] + 20]
        corr("mmap", sub, f"mmap {al} {rec['wrapper_end']} {rec['count']} {rec['itemsize']} {hexs(head)}",
             f"offset={int(l.offset)} warns={int(unaligned_warning)} pos={rec['end']}")
        # mode semantics: r read-only; r+/w+ write through (w+ must NOT zero the data); c copy-on-write
        if mode == "r" and l.flags.writeable:
            fail("mmap-r-is-writeable", sub, "")
        if mode in ("r+", "w+", "c") and l.size and not l.flags.writeable:
            fail("mmap-" + mode + "-not-writeable", sub, "")
    # a NEW VERSION of the file published under the same path (write to a temporary + os.replace, what joblib.Memory's store
    # does for every result) while the first mapping is still alive: a second load must show the new contents
    if mode in ("r", "c"):
        data = bytearray(before)
        exp = []
        for l, rec in zip(got, recs):
            if rec["hasobject"] or not isinstance(l, np.memmap) or l.size == 0 or has_holes(l.dtype):
                exp.append(None)
                continue
            at, n = rec["start"], l.dtype.itemsize
            new = bytes((b ^ 0x5A) for b in data[at: at + n])
            data[at: at + n] = new
            exp.append(new)
        if any(e is not None for e in exp):
            tmp = path + ".newver"
            with open(tmp, "wb") as f:
                f.write(bytes(data))
            os.replace(tmp, path)
            back2 = None
            try:
                back2 = joblib.load(path, mmap_mode=mode)
                for i, (l2, e) in enumerate(zip(walk(back2), exp)):
                    if e is None:
                        continue
                    flat = l2.reshape(-1) if l2.flags.c_contiguous else l2.T.reshape(-1)
                    if flat[0:1].tobytes() != e:
                        fail("mmap-load-stale-after-the-file-was-replaced", dict(sub0, index=i),
                             dict(first_element=hexs(flat[0:1].tobytes()), in_the_file_now=hexs(e)))
                        break
                ST.count("mmap-reload-after-replace")
            except Exception as e:  # noqa: BLE001
                fail("mmap-reload-raises:" + type(e).__name__, sub0, repr(e)[:200])
            finally:
                del back2
                with open(tmp, "wb") as f:
                    f.write(before)
                os.replace(tmp, path)
    # write-through / copy-on-write, checked on the first non-empty non-object array
    for l, rec in zip(got, recs):
        if rec["hasobject"] or not isinstance(l, np.memmap) or l.size == 0 or not l.flags.writeable:
            continue
        flat = l.reshape(-1) if l.flags.c_contiguous else l.T.reshape(-1)
        old = flat[0:1].tobytes()
        new = bytes((b ^ 0x5A) for b in old)
        flat[0:1] = np.frombuffer(new, dtype=l.dtype, count=1)
        l.flush()
        after = open(path, "rb").read()
        changed = after != before
        if mode == "c" and changed:
            fail("mmap-c-writes-to-file", sub0, "")
        if mode in ("r+", "w+"):
            if not changed:
                fail("mmap-" + mode + "-does-not-write-through", sub0, "")
            else:
                at = rec["start"]
                if after[at: at + len(new)] != new and l.flags.c_contiguous and not has_holes(l.dtype):
                    fail("mmap-write-lands-elsewhere", sub0, dict(at=at))
            with open(path, "wb") as f:
                f.write(before)
        break
    del back, got
    handle_after_path_change(sub0, path, mode, originals, recs, before)


def handle_after_path_change(sub0, path, mode, originals, recs, before):
    """`joblib.load(<open file object>, mmap_mode=…)` after the PATH the object was opened from has changed: a new
    version published under the same name (write to a temporary + os.replace, the same layout with other payload
    bytes), or the name gone (renamed away / unlinked). The file object still designates the old file: the load must
    return the arrays stored in IT (whatever way it gets the bytes), and must not raise."""
    data = bytearray(before)
    touched = False
    for rec in recs:
        if rec["hasobject"] or rec["end"] <= rec["start"]:
            continue
        for i in range(rec["start"], rec["end"]):
            data[i] ^= 0x5A
        touched = True
    if not touched:
        return
    for how in ("replaced-by-a-new-version", "renamed-away"):
        sub = dict(sub0, fileobj_after=how)
        h = open(path, "rb")
        tmp = path + ".newver"
        back = None
        try:
            if how == "renamed-away":
                os.rename(path, path + ".away")
            else:
                with open(tmp, "wb") as f:
                    f.write(bytes(data))
                os.replace(tmp, path)
            try:
                back = joblib.load(h, mmap_mode=mode)
            except Exception as e:  # noqa: BLE001
                fail("file-object-load-raises-after-its-path-was-" + how + ":" + type(e).__name__, sub, repr(e)[:200])
                continue
            got = list(walk(back))
            ok = len(got) == len(originals)
            for l, o in zip(got, originals):
                if not ok:
                    break
                ok = (isinstance(l, np.ndarray) and tuple(l.shape) == tuple(o.shape) and dtype_equal_up_to_byteorder(l.dtype, o.dtype)
                      and (elem_bytes(l) == elem_bytes(o) if l.dtype == o.dtype else same_values_other_byteorder(l, o)))
            if not ok:
                fail("file-object-load-returns-other-contents-after-its-path-was-" + how, sub,
                     dict(types=[type(x).__name__ for x in got]))
            ST.count("fileobj-load-after-path-" + how)
        finally:
            del back
            h.close()
            if how == "renamed-away":
                if os.path.exists(path + ".away"):
                    os.replace(path + ".away", path)
            else:
                with open(tmp, "wb") as f:
                    f.write(before)
                os.replace(tmp, path)


# ----------------------------------------------------------------------------- worker path


def backing(a):
    from joblib._memmapping_reducer import _get_backing_memmap

    return _get_backing_memmap(a)


def view_signature(a, m):
    """Stable classification of a memmap-backed view (what known_findings match on)."""
    if any(s < 0 and n > 1 for s, n in zip(a.strides, a.shape)):
        return "worker-view:negative-stride-memmap-view"
    contig = a.flags.c_contiguous or a.flags.f_contiguous
    if contig:
        a_order = "F" if (a.flags.f_contiguous and not a.flags.c_contiguous) else "C"
        m_order = "F" if m.flags.f_contiguous else "C"
        both = a.flags.f_contiguous and a.flags.c_contiguous
        if not both and a_order != m_order:
            return "worker-view:contiguous-view-in-the-other-order-than-its-memmap"
        return "worker-view:contiguous"
    if any(s % a.itemsize for s in a.strides):
        return "worker-view:strides-not-multiple-of-itemsize"
    return "worker-view:strided"


def make_memmap_view(vspec, scratch):
    """vspec: dict(dtype, shape, order, offset, view, seed). Returns (a, m)."""
    dt = to_dtype(vspec["dtype"])
    fn = os.path.join(scratch, "mm-%s.bin" % hashlib.sha1(json.dumps(vspec, sort_keys=True).encode()).hexdigest()[:12])
    shape = tuple(vspec["shape"])
    if not os.path.exists(fn):
        m = np.memmap(fn, dtype=dt, mode="w+", shape=shape, order=vspec["order"], offset=vspec["offset"])
        fill(m, np.random.default_rng(vspec["seed"]), random.Random(vspec["seed"]))
        m.flush()
        del m
    m = np.memmap(fn, dtype=dt, mode="r", shape=shape, order=vspec["order"], offset=vspec["offset"])
    v = vspec["view"]
    a = m
    for step in v:
        op = step[0]
        if op == "T":
            a = a.T
        elif op == "asarray":
            a = np.asarray(a)
        elif op == "field":
            a = a[step[1]]
        elif op == "idx":
            a = a[tuple(slice(*s) if isinstance(s, list) else s for s in step[1])]
        elif op == "reshape":
            a = a.reshape(tuple(step[1]))
    return a, m


def reduce_request(a, m):
    ap = a.__array_interface__["data"][0]
    mp = m.__array_interface__["data"][0]

    def csv(xs):
        return ",".join(str(int(x)) for x in xs) or "-"

    return (f"{ap} {csv(a.shape)} {csv(a.strides)} {a.itemsize} {mp} {csv(m.shape)} {csv(m.strides)} {m.itemsize} "
            f"{int(m.offset)} {int(a.flags.c_contiguous)} {int(a.flags.f_contiguous)}")


def run_rebuild(vspec, scratch):
    return subprocess.run([sys.executable, os.path.abspath(__file__), "rebuild", json.dumps(vspec), scratch],
                          capture_output=True, text=True, timeout=300)


def worker_view_case(vspec, scratch, rebuilt=None):
    from joblib._memmapping_reducer import _reduce_memmap_backed

    a, m = make_memmap_view(vspec, scratch)
    case = dict(kind="worker-view", view=vspec)
    ST.evaluations += 1
    sig = view_signature(a, m)
    ST.count(sig)
    ST.nontrivial.add(json.dumps(vspec, sort_keys=True))
    bm = backing(a)
    if bm is None:
        ST.count("worker-view:not-memmap-backed")
        return
    cons, args = _reduce_memmap_backed(a, bm)
    offset, order, shape, strides, tbl = args[3], args[4], args[5], args[6], args[7]
    reduce_impl = (f"offset={int(offset)} order={order} strides="
                   f"{'None' if strides is None else (','.join(str(int(s)) for s in strides) or '-')} "
                   f"tbl={'None' if tbl is None else int(tbl)}")
    # oracle: rebuild in an isolated process (it may read outside the mapping) and compare the element bytes
    want = hashlib.sha1(elem_bytes(a)).hexdigest()
    p = rebuilt if rebuilt is not None else run_rebuild(vspec, scratch)
    if p.returncode != 0:
        corr("reduce", case, "reduce " + reduce_request(a, bm), reduce_impl + " maps=?")
        fail(sig, case, dict(outcome="rebuild process died", returncode=p.returncode, stderr=p.stderr[-200:]))
        return
    got = json.loads(p.stdout.strip().splitlines()[-1])
    # `maps`: the number of bytes of the buffer the rebuilt strided view sits on (observed on the rebuilt array)
    corr("reduce", case, "reduce " + reduce_request(a, bm), reduce_impl + " maps=" + str(got.get("maps", "?")))
    if got.get("error"):
        fail(sig, case, dict(outcome="rebuild raised", error=got["error"]))
    elif got["sha1"] != want or got["shape"] != list(a.shape) or got["dtype"] != str(a.dtype):
        fail(sig, case, dict(outcome="rebuilt view differs", want=want, got=got, array=arr_desc(a)))


def rebuild_main(vspec_json, scratch):
    from joblib._memmapping_reducer import _reduce_memmap_backed

    vspec = json.loads(vspec_json)
    a, m = make_memmap_view(vspec, scratch)
    cons, args = _reduce_memmap_backed(a, backing(a))
    try:
        r = cons(*args)
        maps = "-" if args[6] is None else int(backing(r).nbytes)
        out = dict(sha1=hashlib.sha1(elem_bytes(r)).hexdigest(), shape=list(r.shape), dtype=str(r.dtype), maps=maps)
    except Exception as e:  # noqa: BLE001
        out = dict(error=repr(e)[:200])
    print(json.dumps(out))


def view_plan(rnd, thorough):
    plans = []
    bases = [
        dict(dtype="<i8", shape=[6, 8], order="C", offset=0),
        dict(dtype="<f4", shape=[6, 8], order="F", offset=16),
        dict(dtype=">i2", shape=[4, 3, 5], order="C", offset=24),
        dict(dtype=[["a", "<i8"], ["b", "<i4"]], shape=[6, 8], order="C", offset=0),
    ]
    views2d = [
        [], [["idx", [[2, 4], [None, None]]]], [["idx", [[None, None], [1, 5]]]], [["idx", [[None, None, 2], [1, None, 3]]]],
        [["T"]], [["idx", [[1, 5], [None, None]]], ["T"]], [["asarray"]], [["asarray"], ["T"]],
        [["asarray"], ["idx", [[1, None, 2], [None, None]]]], [["idx", [3, [None, None]]]],
        [["idx", [[None, None, -1], [None, None]]]], [["idx", [[None, None], [None, None, -1]]]],
        [["idx", [3, [None, None, -1]]]], [["idx", [[None, None, -2], [None, None, -3]]]],
        [["reshape", [48]]], [["reshape", [48]], ["idx", [[40, 3, -5]]]], [["idx", [[0, 1], [None, None]]]],
        [["idx", [[None, None], [0, 1]]]],
    ]
    for bi, b in enumerate(bases):
        if len(b["shape"]) == 2:
            for v in views2d:
                if b["order"] == "F" and v and v[0][0] == "reshape":
                    continue
                plans.append(dict(b, view=v, seed=100 + bi))
        else:
            for v in ([], [["T"]], [["idx", [1, [None, None], [None, None]]]], [["idx", [[None, None], 1, [None, None]]]],
                      [["idx", [[None, None], [None, None], 2]]], [["idx", [[None, None, -1], [None, None], [None, None]]]],
                      [["idx", [[None, None], [None, None], [None, None, 2]]]], [["idx", [1, [None, None], [None, None]]], ["T"]]):
                plans.append(dict(b, view=v, seed=100 + bi))
    rec = [["a", "<i8"], ["b", "<i4"]]
    for n in (5, 341, 342, 343, 683, 684, 1024, 1366):
        plans.append(dict(dtype=rec, shape=[n], order="C", offset=0, view=[["field", "a"]], seed=7))
        plans.append(dict(dtype=rec, shape=[n], order="C", offset=0, view=[["field", "b"]], seed=7))
    plans.append(dict(dtype=rec, shape=[6, 8], order="C", offset=0, view=[["field", "a"], ["T"]], seed=8))
    return plans


def task_seen(x):
    import hashlib as _h
    import pickle as _p

    import numpy as _np

    from joblib._memmapping_reducer import _get_backing_memmap as _gb

    b = _gb(x)
    # values in a canonical (little-endian) representation: numpy's own pickling of a by-value argument may
    # change the byte order of the dtype (protocol < 5, datetime64), which leaves the values the same
    le = x.dtype.newbyteorder("<")
    if x.dtype.hasobject:
        data = _p.dumps(x.tolist(), 2)
    elif x.dtype.names:
        data = b"".join(_np.asarray(x[n]).astype(le.fields[n][0]).tobytes("C") for n in x.dtype.names)
    else:
        data = _np.asarray(x).astype(le).tobytes("C")
    where = "array"
    if b is not None:
        where = "memmap:" + os.path.basename(os.path.dirname(str(b.filename))) + "/" + os.path.basename(str(b.filename))
    return dict(sha1=_h.sha1(data).hexdigest(), dtype=repr(le), shape=list(x.shape), where=where,
                c=bool(x.flags.c_contiguous), f=bool(x.flags.f_contiguous), type=type(x).__name__,
                writeable=bool(x.flags.writeable))


OBJ_STRUCTS = [
    [["payload", "O"]],                                   # an object field alone
    [["id", "<i8"], ["payload", "O"]],                    # mixed with numeric fields
    [["a", ">i4"], ["o", "O"], ["b", "<f8"]],
    [["in", [["u", "O"], ["v", "<i4"]]], ["w", "<f4"]],   # nested struct holding the object
    [["xs", "O", [2]], ["n", "<i4"]],                     # sub-array field of objects
    [["m", "<f8", [3]], ["o", "O"]],
]


def memstr(s):
    """joblib.disk.memstr_to_bytes for the forms used here (the harness's translation for the model)."""
    return int(float(s[:-1]) * {"K": 1024, "M": 1024 ** 2}[s[-1]])


def parallel_jobs(rnd, thorough):
    """(array spec, backend, max_nbytes as passed, mmap_mode) for the `Parallel(max_nbytes=…)` path."""
    specs = [
        dict(dtype="<f8", shape=[40, 25], layout="C", seed=1),
        dict(dtype=">i4", shape=[30, 10], layout="F", seed=2),
        dict(dtype="<c8", shape=[17, 9], layout="slice", seed=3),
        dict(dtype=[["a", "<i4"], ["b", ">f8"]], shape=[50], layout="C", seed=4),
        dict(dtype="<i2", shape=[12, 6, 5], layout="T", seed=5),
        dict(dtype="O", shape=[40], layout="C", seed=6),
        dict(dtype="O", shape=[6, 7], layout="F", seed=15),
        dict(dtype="O", shape=[9, 5], layout="slice", seed=16),
        dict(dtype="<M8[s]", shape=[64], layout="rev", seed=7),
        dict(dtype="<u1", shape=[1000], layout="C", seed=8),
        dict(dtype="<f4", shape=[9, 9], layout="matrix", seed=9),
        dict(dtype="<f8", shape=[], layout="C", seed=10),
        dict(dtype="<i8", shape=[0, 4], layout="C", seed=11),
        dict(dtype="<f8", shape=[20, 10], layout="memmap", seed=12),
        dict(dtype="<f8", shape=[20, 10], layout="memmap-slice", seed=13),
        dict(dtype="<f8", shape=[20, 10], layout="memmap-view", seed=14),
    ]
    for i, dt in enumerate(OBJ_STRUCTS):
        specs.append(dict(dtype=dt, shape=rnd.choice([[60], [12, 5], [7, 3, 4]]), layout=rnd.choice(["C", "F", "slice", "T"]), seed=30 + i))
    if thorough:
        for i, dt in enumerate(["<f2", ">c16", "S5", "<U3", "?", ">m8[us]"]):
            specs.append(dict(dtype=dt, shape=[31, 7], layout=rnd.choice(["C", "F", "slice", "T"]), seed=20 + i))
        for i, dt in enumerate(OBJ_STRUCTS):
            specs.append(dict(dtype=dt, shape=[33], layout=rnd.choice(["C", "rev", "bcast", "readonly"]), seed=50 + i))
    jobs = []
    for backend in ("loky", "multiprocessing", "threading"):
        for spec in specs:
            ths = ["n-1", "n", "n+1", None] + ([0] if thorough or backend != "threading" else [])
            if backend == "multiprocessing" and not thorough:
                ths = ["n-1", "n", None]
            for mx in ths:
                jobs.append((spec, backend, mx, "r"))
    # string forms of max_nbytes, and the default ('1M'), around 1 KiB / 1 MiB, with and without object fields
    for backend in ("loky", "multiprocessing"):
        for dt, n in (("<f8", 127), ("<f8", 128), ("<f8", 129), (OBJ_STRUCTS[1], 63), (OBJ_STRUCTS[1], 64), (OBJ_STRUCTS[1], 65),
                      ("O", 127), ("O", 129), (OBJ_STRUCTS[4], 60)):
            jobs.append((dict(dtype=dt, shape=[n], layout="C", seed=70), backend, "1K", "r"))
        jobs.append((dict(dtype="<f8", shape=[131073], layout="C", seed=71), backend, "default", "r"))
        jobs.append((dict(dtype=OBJ_STRUCTS[1], shape=[66000], layout="C", seed=72), backend, "default", "r"))
        jobs.append((dict(dtype="<i4", shape=[300, 40], layout="F", seed=73), backend, "0.5K", "r"))
    # (the mmap_mode of the automatic memmap is the business of `mode_cases`)
    return jobs


def parallel_cases(scratch, rnd, thorough, shard=0, nshards=1):
    """Arrays handed to tasks through `Parallel(n_jobs=2, max_nbytes=…, mmap_mode=…)` with loky, multiprocessing and
    threading: thresholds just below / at / above the array size, None, 0, '1K'-style strings, the default; numeric,
    plain-object, and structured / sub-array dtypes holding objects. Oracle: the task sees identical values (object
    fields element-wise) whether the array travelled as a memmap or by pickling — and never an exception."""
    from joblib import Parallel, delayed

    jobs = parallel_jobs(random.Random("C19-parallel-jobs"), thorough)
    del rnd
    for ji, (spec, backend, mx_form, mode) in enumerate(jobs):
        if ji % nshards != shard:
            continue
        a = make_array(spec, os.path.join(scratch, "src"))
        n = int(a.nbytes)
        if isinstance(mx_form, str) and mx_form.startswith("n"):
            mx = n + {"n-1": -1, "n": 0, "n+1": 1}[mx_form]
            if mx < 0:
                continue
        else:
            mx = mx_form
        # `timeout`: a task that cannot be un-serialised in a multiprocessing.Pool worker is never answered; the
        # watchdog turns that hang into the exception the oracle reports (TimeoutError)
        kwargs = dict(n_jobs=2, backend=backend, temp_folder=os.path.join(scratch, "jl"), mmap_mode=mode, timeout=60)
        if mx != "default":
            kwargs["max_nbytes"] = mx
        mx_bytes = memstr("1M") if mx == "default" else (memstr(mx) if isinstance(mx, str) else mx)
        case = dict(kind="parallel", array=spec, backend=backend, max_nbytes=mx, mmap_mode=mode)
        ST.evaluations += 1
        ST.count("parallel:" + backend)
        ST.count("parallel:max_nbytes=" + (mx_form if isinstance(mx_form, str) else repr(mx_form)))
        ST.count("parallel:dtype=" + ("struct-with-object" if a.dtype.names and a.dtype.hasobject else
                                      "object" if a.dtype.hasobject else "struct" if a.dtype.names else a.dtype.kind))
        ST.nontrivial.add(json.dumps([spec, backend, mx, mode], sort_keys=True))
        want = task_seen(a)
        try:
            out = Parallel(**kwargs)(delayed(task_seen)(x) for x in (a, a))
        except Exception as e:  # noqa: BLE001
            fail("parallel-raises:" + type(e).__name__, case, repr(e)[:300])
            continue
        bm = backing(a)
        backed = bm is not None and isinstance(bm, np.memmap)
        for got in out:
            if got["sha1"] != want["sha1"] or got["shape"] != want["shape"]:
                sig = "worker-values-differ"
                if backed:
                    sig = view_signature(a, bm)
                fail(sig, case, dict(want=want, got=got))
            elif got["dtype"] != want["dtype"]:
                fail("worker-dtype-differs", case, dict(want=want["dtype"], got=got["dtype"]))
            if backend in ("loky", "multiprocessing"):
                if got["where"] == "array":
                    obs = "plain-pickle"
                elif backed and got["where"].endswith("/" + os.path.basename(str(bm.filename))):
                    obs = "reuse-backing"
                else:
                    obs = "dump-and-memmap"
                ST.count("parallel:travelled-as=" + obs)
                corr("forward", case, f"forward {int(type(a) in (np.ndarray, np.memmap))} {int(backed)} {int(a.dtype.hasobject)} "
                                      f"{'-' if mx_bytes is None else mx_bytes} {n} {'none' if mode is None else 'mode'}", obs)
                # the automatic memmap is opened with the requested mode ('w+' must not zero the data: values above)
                if obs == "dump-and-memmap" and got["writeable"] != (mode != "r"):
                    fail("automatic-memmap-mode-not-honoured", case, dict(mode=mode, writeable=got["writeable"]))
            else:
                if got["where"] != want["where"]:
                    fail("threading-backend-copied-or-remapped-the-array", case, dict(want=want["where"], got=got["where"]))


# ----------------------------------------------------------------------------- mmap_mode of the automatic memmap
#
# `Parallel(mmap_mode=…)`: "Memmapping mode for numpy arrays passed to workers. None will disable memmapping, other
# modes defined in the numpy.memmap doc". Every documented value x max_nbytes {None, small} x {loky, multiprocessing};
# in one call: in-memory arrays above the threshold (numeric, structured), arrays that never travel as memmaps
# (object fields), and caller-side np.memmap inputs opened 'r+', 'c' and 'r'. Each task reports the values it sees,
# then tries to WRITE its first element and says whether the write is in the file it maps. Oracle, from the two
# documents only: same values; never an exception; 'r' not writeable; 'r+'/'w+' write through to the mapped file
# ('w+' without zeroing it); 'c' writeable and private; mmap_mode=None / max_nbytes=None: no automatic memmap; the
# caller's in-memory array is never changed by a task; a caller memmap is changed exactly when it was opened 'r+'.

MODES = [None, "r", "r+", "w+", "c"]
F58_SWITCH = "VERIF_C19_F58"   # "0": skip mmap_mode=None with a small max_nbytes (F58, fixed in /repo by 2220b4d)


def task_write(x, new_hex):
    import numpy as _np

    out = dict(seen=task_seen(x), wrote=None, in_file=None)
    new = bytes.fromhex(new_hex)
    if new and x.size:
        first = tuple(0 for _ in x.shape)
        try:
            x[first] = _np.frombuffer(new, dtype=x.dtype)[0]
            out["wrote"] = True
        except ValueError:   # "assignment destination is read-only"
            out["wrote"] = False
        if out["wrote"] and isinstance(x, _np.memmap):
            x.flush()
            with open(x.filename, "rb") as f:
                f.seek(x.offset)
                out["in_file"] = f.read(len(new)) == new
    return out


def mode_plan(thorough):
    plan = []
    for backend in ("loky", "multiprocessing"):
        for mode in MODES:
            for mx in (None, 100):
                if mode is None and mx is not None and os.environ.get(F58_SWITCH) == "0":
                    continue   # (only for looking at a tree without repair F58, where these cases break the pool)
                if mx is None and mode not in (None, "r+") and not thorough:
                    continue   # nothing is memmapped: one mode is enough in the quick tier
                plan.append(dict(kind="modes", backend=backend, mmap_mode=mode, max_nbytes=mx))
    return plan


MODE_INPUTS = [
    ("numeric", dict(dtype="<f8", shape=[30, 10], layout="C", seed=80), None),
    ("numeric-F", dict(dtype=">i4", shape=[12, 9], layout="F", seed=84), None),
    ("struct", dict(dtype=[["a", "<i4"], ["b", ">f8"]], shape=[40], layout="C", seed=81), None),
    ("struct-with-object", dict(dtype=OBJ_STRUCTS[1], shape=[40], layout="C", seed=82), None),
    ("object", dict(dtype="O", shape=[40], layout="C", seed=83), None),
    ("caller-memmap-r+", dict(dtype="<i4", shape=[60], layout="C", seed=85), "r+"),
    ("caller-memmap-c", dict(dtype="<f8", shape=[8, 6], layout="C", seed=86), "c"),
    ("caller-memmap-r", dict(dtype="<u2", shape=[70], layout="C", seed=87), "r"),
]


def mode_case(case, scratch):
    from joblib import Parallel, delayed

    backend, mode, mx = case["backend"], case["mmap_mode"], case["max_nbytes"]
    ST.evaluations += 1
    ST.count("modes:" + backend)
    ST.count("modes:mmap_mode=" + repr(mode))
    ST.count("modes:max_nbytes=" + repr(mx))
    ST.nontrivial.add(json.dumps(case, sort_keys=True))
    arrays, news, olds = [], [], []
    tag = hashlib.sha1(json.dumps(case, sort_keys=True).encode()).hexdigest()[:8]
    for name, spec, cmode in MODE_INPUTS:
        a = make_array(spec, os.path.join(scratch, "src"))
        if cmode is not None:
            fn = os.path.join(scratch, "mode-%s-%s.bin" % (tag, name))
            m = np.memmap(fn, dtype=a.dtype, mode="w+", shape=a.shape, offset=16)
            m[...] = a
            m.flush()
            del m
            a = np.memmap(fn, dtype=a.dtype, mode=cmode, shape=a.shape, offset=16)
        arrays.append(a)
        if a.dtype.hasobject:
            news.append("")
        else:
            first = tuple(0 for _ in a.shape)
            news.append(bytes((b ^ 0x5A) for b in np.asarray(a[first]).tobytes()).hex())
        olds.append(elem_bytes(a))
    wants = [task_seen(a) for a in arrays]
    kwargs = dict(n_jobs=2, backend=backend, temp_folder=os.path.join(scratch, "jl"), mmap_mode=mode, max_nbytes=mx, timeout=90)
    try:
        outs = Parallel(**kwargs)(delayed(task_write)(a, nw) for a, nw in zip(arrays, news))
    except Exception as e:  # noqa: BLE001
        sig = "parallel-raises:" + type(e).__name__
        if mode is None and mx is not None:
            sig = "mmap_mode-None-does-not-disable-memmapping:parallel-raises:" + type(e).__name__
        fail(sig, case, repr(e)[:300])
        return
    for (name, spec, cmode), a, want, got, nw, old in zip(MODE_INPUTS, arrays, wants, outs, news, olds):
        sub = dict(case, input=name)
        seen = got["seen"]
        if seen["sha1"] != want["sha1"] or seen["shape"] != want["shape"]:
            fail("worker-values-differ", sub, dict(want=want, got=seen))
            continue
        if seen["dtype"] != want["dtype"]:
            fail("worker-dtype-differs", sub, dict(want=want["dtype"], got=seen["dtype"]))
        n = int(a.nbytes)
        backed = cmode is not None
        if seen["where"] == "array":
            obs = "plain-pickle"
        elif backed and seen["where"].endswith("/" + os.path.basename(str(a.filename))):
            obs = "reuse-backing"
        else:
            obs = "dump-and-memmap"
        ST.count("modes:travelled-as=" + obs)
        corr("forward", sub, f"forward 1 {int(backed)} {int(a.dtype.hasobject)} {'-' if mx is None else mx} {n} "
                             f"{'none' if mode is None else 'mode'}", obs)
        if obs == "dump-and-memmap" and (mode is None or mx is None):
            fail("automatic-memmap-although-" + ("mmap_mode" if mode is None else "max_nbytes") + "-is-None", sub, dict(where=seen["where"]))
        if not nw:
            continue
        # what numpy.memmap documents for the mode the worker's array must have been opened with
        eff = {"dump-and-memmap": mode, "reuse-backing": cmode, "plain-pickle": "by-value"}[obs]
        want_w = dict(wrote=eff != "r", in_file={"r+": True, "w+": True, "c": False}.get(eff))
        got_w = dict(wrote=got["wrote"], in_file=got["in_file"])
        if obs == "dump-and-memmap" and seen["writeable"] != (mode != "r"):
            fail("automatic-memmap-mode-not-honoured", sub, dict(mode=mode, writeable=seen["writeable"]))
        elif got_w != want_w:
            fail("worker-write-semantics-differ-from-numpy.memmap:" + str(eff), sub, dict(want=want_w, got=got_w, travelled=obs))
        # visible to the caller: only through a caller memmap opened r+
        now = elem_bytes(a)
        if backed and cmode == "r+":
            first = tuple(0 for _ in a.shape)
            if np.asarray(a[first]).tobytes().hex() != nw:
                fail("task-write-not-visible-through-the-callers-r+-memmap", sub, "")
        elif now != old:
            fail("task-write-changed-the-callers-array", sub, dict(travelled=obs, caller_memmap_mode=cmode))
    del arrays


def mode_cases(scratch, thorough):
    for case in mode_plan(thorough):
        guarded(mode_case, case, case, scratch)


def parallel_view_cases(scratch):
    """F24 through the real Parallel: memmap-backed views (no negative strides: those can kill the worker)."""
    from joblib import Parallel, delayed

    X = np.arange(48, dtype="<i8").reshape(6, 8)  # noqa: N806
    p = os.path.join(scratch, "X.pkl")
    joblib.dump(X, p)
    M = joblib.load(p, mmap_mode="r")  # noqa: N806
    views = {"M": M, "M[1:3]": M[1:3], "M[:, 2:5]": M[:, 2:5], "M.T": M.T, "M[::2, 1::3]": M[::2, 1::3], "asarray(M).T": np.asarray(M).T}
    for name, a in views.items():
        for backend in ("loky", "threading"):
            case = dict(kind="parallel-view", view=name, backend=backend)
            ST.evaluations += 1
            ST.nontrivial.add(json.dumps(case, sort_keys=True))
            want = task_seen(a)
            out = Parallel(n_jobs=2, backend=backend)(delayed(task_seen)(x) for x in (a, a))
            for got in out:
                if got["sha1"] != want["sha1"] or got["shape"] != want["shape"]:
                    fail(view_signature(a, backing(a)), case, dict(want=want, got=got))


# ----------------------------------------------------------------------------- call histories on one Parallel object
#
# Clause: "large arrays passed to process workers through automatic memmapping present the same values to the task".
# A HISTORY is a sequence of steps on named caller-side arrays and calls of ONE Parallel object (managed: inside
# `with Parallel(...) as p:`; unmanaged: the same object called several times):
#   ["new", name, spec]              a fresh array from the generator
#   ["memmap", name, spec]           a caller-side np.memmap (mode r+) holding generated values
#   ["mutate", name, how]            IN PLACE: "fill" (every element), "one" (the last element), "flip" (xor of every byte)
#   ["copy", name]                   name rebound to an equal copy (a NEW object with the same values)
#   ["replace", name, spec]          the old object is dropped first, then a new array is bound (its id() may be reused)
#   ["view", vname, base, lo, hi]    a persistent view object base[lo:hi]
#   ["call", [arg, ...]]             arg = name | ["slice", name, lo, hi] (a view created for this call only)
# Oracle (no model): every task sees exactly the values its argument has in the caller at dispatch time.

HIST_MAX_NBYTES = 1000
SIG_F57 = "worker-sees-stale-values:same-array-object-mutated-in-place-between-calls-of-a-managed-Parallel"


def hist_mutate(a, how, salt):
    """In place, whatever the layout (no reshape: it would copy an F-ordered array)."""
    last = tuple(d - 1 for d in a.shape)
    if a.dtype.hasobject:
        if how == "one":
            a[last] = ("mut", salt)
        else:
            for i, idx in enumerate(np.ndindex(a.shape)):
                a[idx] = ("mut", salt, i)
        return
    if how == "one":
        a[last] = np.frombuffer(bytes((b ^ 0xA5) for b in np.asarray(a[last]).tobytes()), dtype=a.dtype)[0]
    elif how == "flip" and a.flags.c_contiguous and a.ndim:
        raw = a.view("u1")
        raw ^= 0x3C
    else:
        g = np.random.default_rng(1000 + salt)
        a[...] = np.frombuffer(g.bytes(a.size * a.dtype.itemsize), dtype=a.dtype).reshape(a.shape)


def history_plan(rnd, thorough):
    big = dict(dtype="<f8", shape=[300], layout="C")        # 2400 bytes > HIST_MAX_NBYTES
    big2 = dict(dtype=">i4", shape=[40, 10], layout="F")
    st = dict(dtype=[["a", "<i4"], ["b", ">f8"]], shape=[120], layout="C")
    small = dict(dtype="<f8", shape=[20], layout="C")
    obj = dict(dtype="O", shape=[200], layout="C")

    def sp(d, seed):
        return dict(d, seed=seed)

    shapes = {
        "reuse-unchanged": [["new", "a", sp(big, 1)], ["call", ["a", "a"]], ["call", ["a"]], ["call", ["a"]]],
        "mutate-fill": [["new", "a", sp(big, 2)], ["call", ["a"]], ["mutate", "a", "fill"], ["call", ["a"]]],
        "mutate-one": [["new", "a", sp(big2, 3)], ["call", ["a"]], ["mutate", "a", "one"], ["call", ["a"]],
                       ["mutate", "a", "flip"], ["call", ["a", "a"]]],
        "mutate-before-first-call": [["new", "a", sp(st, 4)], ["mutate", "a", "fill"], ["call", ["a"]]],
        "equal-copy": [["new", "a", sp(big, 5)], ["call", ["a"]], ["copy", "a"], ["call", ["a"]], ["mutate", "a", "fill"],
                       ["copy", "a"], ["call", ["a"]]],
        "replace": [["new", "a", sp(big, 6)], ["call", ["a"]], ["replace", "a", sp(big, 7)], ["call", ["a"]],
                    ["replace", "a", sp(big, 8)], ["call", ["a"]]],
        "kept-view-of-a-mutated-base": [["new", "b", sp(big, 9)], ["view", "v", "b", 10, 290], ["call", ["v"]],
                                        ["mutate", "b", "fill"], ["call", ["v", "b"]]],
        "fresh-views": [["new", "b", sp(big, 10)], ["call", [["slice", "b", 0, 150], ["slice", "b", 150, 300]]],
                        ["mutate", "b", "fill"], ["call", [["slice", "b", 0, 150], ["slice", "b", 150, 300]]]],
        "memmap-input": [["memmap", "m", sp(big, 11)], ["call", ["m"]], ["mutate", "m", "fill"], ["call", ["m", ["slice", "m", 7, 200]]],
                         ["mutate", "m", "one"], ["call", ["m"]]],
        "below-threshold": [["new", "s", sp(small, 12)], ["call", ["s"]], ["mutate", "s", "fill"], ["call", ["s"]]],
        "object-dtype": [["new", "o", sp(obj, 13)], ["call", ["o"]], ["mutate", "o", "one"], ["call", ["o"]]],
        "two-arrays": [["new", "a", sp(big, 14)], ["new", "c", sp(big, 15)], ["call", ["a", "c"]], ["mutate", "c", "flip"],
                       ["call", ["c", "a"]]],
    }
    plan = []
    for name, steps in shapes.items():
        for managed in (True, False):
            plan.append(dict(kind="history", shape=name, backend="loky", managed=managed, steps=steps))
    for name in ("mutate-fill", "fresh-views", "replace"):
        plan.append(dict(kind="history", shape=name, backend="multiprocessing", managed=True, steps=shapes[name]))
    plan.append(dict(kind="history", shape="mutate-fill", backend="multiprocessing", managed=False, steps=shapes["mutate-fill"]))
    plan.append(dict(kind="history", shape="mutate-one", backend="threading", managed=True, steps=shapes["mutate-one"]))
    # random histories
    for i in range(12 if thorough else 3):
        names = ["a", "b"]
        steps = [["new", "a", sp(rnd.choice([big, big2, st]), 100 + i)],
                 [rnd.choice(["new", "memmap"]), "b", sp(rnd.choice([big, big2]), 200 + i)]]
        live_views = []
        for _ in range(rnd.randint(4, 9) if thorough else rnd.randint(3, 5)):
            op = rnd.choice(["call", "call", "mutate", "mutate", "copy", "replace", "view"])
            n = rnd.choice(names)
            if op == "call":
                args = []
                for _ in range(rnd.randint(1, 3)):
                    x = rnd.choice(names + live_views)
                    args.append(x)
                steps.append(["call", args])
            elif op == "mutate":
                steps.append(["mutate", n, rnd.choice(["fill", "one", "flip"])])
            elif op == "copy":
                steps.append(["copy", "a"])
                live_views = [v for v in live_views if v != "va"]
            elif op == "replace":
                steps.append(["replace", "a", sp(big, 300 + len(steps) + 10 * i)])
                live_views = [v for v in live_views if v != "va"]
            elif op == "view" and ("v" + n) not in live_views:
                steps.append(["view", "v" + n, n, 5, 25])
                live_views.append("v" + n)
        steps.append(["call", names])
        plan.append(dict(kind="history", shape="random-%d" % i, backend="loky", managed=bool(i % 3 != 2), steps=steps))
    return plan


def history_case(case, scratch):
    """One history on one Parallel object."""
    import weakref

    from joblib import Parallel, delayed

    backend, managed = case["backend"], case["managed"]
    par = Parallel(n_jobs=2, backend=backend, max_nbytes=HIST_MAX_NBYTES, mmap_mode="r",
                   temp_folder=os.path.join(scratch, "jl"), timeout=120)
    ST.evaluations += 1
    ST.count("history:" + backend + (":managed" if managed else ":unmanaged"))
    ST.count("history-shape=" + ("random" if case["shape"].startswith("random") else case["shape"]))
    ST.nontrivial.add(json.dumps([case["shape"], backend, managed, case["steps"]], sort_keys=True))
    env = {}
    dispatched = []   # (id, weakref, sha at dispatch, call index) of every argument of every earlier call
    objnum, shanum, model_in, model_out = {}, {}, [], []   # for the model (`history`): the dumped-and-memmapped arguments
    ncall = 0
    salt = 0

    def resolve(arg):
        if isinstance(arg, str):
            return env[arg]
        _, name, lo, hi = arg
        return env[name][lo:hi]

    def run():
        nonlocal ncall, salt
        for step in case["steps"]:
            op = step[0]
            if op == "new":
                env[step[1]] = make_array(step[2], os.path.join(scratch, "src"))
            elif op == "memmap":
                src = make_array(step[2], os.path.join(scratch, "src"))
                fn = os.path.join(scratch, "hist-%s-%d.bin" % (step[1], step[2]["seed"]))
                m = np.memmap(fn, dtype=src.dtype, mode="w+", shape=src.shape, order="F" if src.flags.f_contiguous and not src.flags.c_contiguous else "C")
                m[...] = src
                m.flush()
                del m
                env[step[1]] = np.memmap(fn, dtype=src.dtype, mode="r+", shape=src.shape,
                                         order="F" if src.flags.f_contiguous and not src.flags.c_contiguous else "C")
            elif op == "mutate":
                salt += 1
                hist_mutate(env[step[1]], step[2], salt)
                if isinstance(env[step[1]], np.memmap):
                    env[step[1]].flush()
            elif op == "copy":
                env[step[1]] = env[step[1]].copy()
            elif op == "replace":
                del env[step[1]]
                env[step[1]] = make_array(step[2], os.path.join(scratch, "src"))
            elif op == "view":
                env[step[1]] = env[step[2]][step[3]:step[4]]
            elif op == "call":
                args = [resolve(x) for x in step[1]]
                if len(args) == 1:
                    args = args * 2
                wants = [task_seen(x) for x in args]
                sub = dict(case, call=ncall)
                try:
                    outs = par(delayed(task_seen)(x) for x in args)
                except Exception as e:  # noqa: BLE001
                    cause = str(e.__cause__)
                    sig = "parallel-raises:" + type(e).__name__
                    if "FileNotFoundError" in cause and "joblib_memmapping_folder" in cause and ncall > 0:
                        # the temporary dump of an argument vanished between the caller's `os.path.exists` and the worker's load
                        sig += (":temporary-dump-vanished-before-the-worker-loaded-it:repeated-call-of-"
                                + ("a-managed" if managed else "an-unmanaged") + "-Parallel")
                    fail(sig, sub, dict(error=repr(e)[:300], cause=cause[-1500:]))
                    return
                for x, want, got in zip(args, wants, outs):
                    if got["sha1"] != want["sha1"] or got["shape"] != want["shape"] or got["dtype"] != want["dtype"]:
                        sig = "worker-values-differ:in-a-call-history"
                        same_obj = [d for d in dispatched if d[0] == id(x) and d[1]() is x and d[2] == got["sha1"]]
                        dead_obj = [d for d in dispatched if d[0] == id(x) and d[1]() is not x and d[2] == got["sha1"]]
                        other = [d for d in dispatched if d[0] != id(x) and d[2] == got["sha1"]]
                        where = "managed" if managed else "unmanaged"
                        if same_obj:
                            sig = ("worker-sees-stale-values:same-array-object-mutated-in-place-between-calls-of-"
                                   + ("a-managed" if managed else "an-unmanaged") + "-Parallel")
                        elif dead_obj:
                            sig = "worker-sees-stale-values:new-array-object-at-the-address-of-a-dropped-one:" + where
                        elif other:
                            sig = "worker-sees-values-of-another-array:" + where
                        fail(sig, sub, dict(want=want, got=got, argument=arr_desc(x), travelled=got["where"].split(":")[0]))
                    ST.count("history:travelled-as=" + got["where"].split(":")[0])
                    if (backend != "threading" and type(x) in (np.ndarray, np.memmap) and backing(x) is None
                            and not x.dtype.hasobject and x.nbytes > HIST_MAX_NBYTES):
                        # the model's Dispatch: folder (one per managed Parallel, one per call otherwise), object
                        # identity (a new number when an id() is taken by a new object), values at dispatch time
                        key = next((k for k, r in objnum.items() if k[0] == id(x) and r[1]() is x), None)
                        if key is None:
                            key = (id(x), len(objnum))
                            objnum[key] = (len(objnum), weakref.ref(x))
                        vn = shanum.setdefault(want["sha1"], len(shanum))
                        model_in.append(f"{0 if managed else ncall}:{objnum[key][0]}:{vn}")
                        model_out.append(str(shanum.get(got["sha1"], "unknown-values")))
                for x, want in zip(args, wants):
                    try:
                        dispatched.append((id(x), weakref.ref(x), want["sha1"], ncall))
                    except TypeError:
                        pass
                del args
                ncall += 1

    if managed:
        with par:
            run()
    else:
        run()
    if model_in:
        corr("history", case, "history " + ",".join(model_in), ",".join(model_out))


class TrackerGate:
    """Schedule-forcing device: pickled AFTER the array in the same task (in the caller's feeder thread). Lets loky's
    resource tracker — stopped since the start of the call, as it may lag on a loaded machine — catch up before the
    task is sent to a worker."""

    def __init__(self, folder):
        self.folder = folder

    def __reduce__(self):
        import signal
        import time

        from joblib.externals.loky.backend import resource_tracker as rt

        os.kill(rt._resource_tracker._pid, signal.SIGCONT)
        t0 = time.time()
        while time.time() - t0 < 10 and os.path.isdir(self.folder) and os.listdir(self.folder):
            time.sleep(0.01)
        return (int, ())


def task_seen_gated(x, gate=None):
    return task_seen(x)


VANISH_SWITCH = "VERIF_C19_VANISH"


def lagging_tracker_case(case, scratch):
    """History: one Parallel object (managed / unmanaged), the same large array object in every call, one task at a
    time (pre_dispatch=1); in call number `lag_in_call` the resource tracker is stopped while task 1 runs and released
    while task 2 is being pickled, after the array. Oracle as for every history: both tasks see the caller's values."""
    import signal
    import time

    from joblib import Parallel, delayed
    from joblib.externals.loky.backend import resource_tracker as rt

    managed = case["managed"]
    ST.evaluations += 1
    ST.count("history:lagging-resource-tracker")
    ST.nontrivial.add(json.dumps(case, sort_keys=True))
    a = make_array(dict(dtype="<f8", shape=[300], layout="C", seed=77), scratch)
    want = task_seen(a)
    par = Parallel(n_jobs=2, backend="loky", max_nbytes=HIST_MAX_NBYTES, pre_dispatch=1, batch_size=1,
                   temp_folder=os.path.join(scratch, "jl"), timeout=120)

    def run():
        for ncall in range(case["calls"]):
            sub = dict(case, call=ncall)

            def gen():
                if ncall != case["lag_in_call"]:
                    yield delayed(task_seen_gated)(a)
                    yield delayed(task_seen_gated)(a)
                    return
                os.kill(rt._resource_tracker._pid, signal.SIGSTOP)
                yield delayed(task_seen_gated)(a)
                time.sleep(1.0)   # task 1 is done and its worker has dropped the memmap
                yield delayed(task_seen_gated)(a, TrackerGate(par._backend._workers._temp_folder_manager.resolve_temp_folder_name()))

            try:
                outs = par(gen())
            except Exception as e:  # noqa: BLE001
                cause = str(e.__cause__)
                sig = "parallel-raises:" + type(e).__name__
                if "FileNotFoundError" in cause and "joblib_memmapping_folder" in cause and ncall > 0:
                    sig += (":temporary-dump-vanished-before-the-worker-loaded-it:repeated-call-of-"
                            + ("a-managed" if managed else "an-unmanaged") + "-Parallel")
                fail(sig, sub, dict(error=repr(e)[:300], cause=cause[-800:]))
                return
            finally:
                os.kill(rt._resource_tracker._pid, signal.SIGCONT)
            for got in outs:
                if got["sha1"] != want["sha1"]:
                    fail("worker-values-differ:in-a-call-history", sub, dict(want=want, got=got))

    if managed:
        with par:
            run()
    else:
        run()


def history_cases(scratch, rnd, thorough):
    # the forced "lagging resource tracker" schedule (F60, known): all of it in the thorough tier, the two cases that
    # tell managed from unmanaged in the quick tier; VERIF_C19_VANISH=0 switches it off, =1 runs all of it
    sw = os.environ.get(VANISH_SWITCH)
    if sw != "0":
        full = thorough or sw == "1"
        for managed in (True, False):
            for lag in ((0, 1, 2) if full else (1,)):
                case = dict(kind="history-lagging-tracker", managed=managed, calls=3 if full else 2, lag_in_call=lag)
                guarded(lagging_tracker_case, case, case, scratch)
    for case in history_plan(rnd, thorough):
        guarded(history_case, case, case, scratch)


# ----------------------------------------------------------------------------- concurrent loads / dumps in threads
#
# Two threads of one process inside joblib.load / joblib.dump at the same time, on DIFFERENT files and arrays. The
# overlap is forced, not hoped for: thread A runs under a profile hook (sys.setprofile, its own thread only) and is
# parked right after the k-th return from any read / readinto / write / (de)compress call made anywhere below
# joblib.load / joblib.dump (the raw file object, the pickle machinery, joblib's and CPython's compressor file
# objects); while it is parked thread B runs a whole load or dump of the other array; then A resumes. Every k is
# tried. Oracle: both threads get / write exactly their own array (independent reader for the dumps).

IO_NAMES = {"read", "readinto", "readinto1", "read1", "readline", "peek", "write", "decompress", "compress", "flush",
            "_read_bytes", "_read_chunk", "frombuffer", "tobytes"}
THREAD_COMPRESS = [0, ["zlib", 1], ["gzip", 3], ["bz2", 9], ["lzma", 1], ["xz", 3]]


def threads_plan(rnd, thorough):
    a = dict(dtype="<f8", shape=[700], layout="C", seed=901)
    b = dict(dtype="<f8", shape=[700], layout="C", seed=902)      # same dtype and shape as a: only the bytes tell them apart
    c = dict(dtype=[["a", "<i4"], ["b", ">f8"]], shape=[31, 5], layout="F", seed=903)
    plan = []
    for ci, comp in enumerate(THREAD_COMPRESS):
        for op_a, op_b in (("load", "load"), ("load", "dump"), ("dump", "load"), ("dump", "dump")):
            if not thorough and comp != 0 and (op_a, op_b) != (("load", "load") if ci % 2 else ("dump", "dump")):
                continue
            plan.append(dict(kind="threads", compress=comp, op_a=op_a, op_b=op_b, a=a, b=b if ci % 2 == 0 else c,
                             target="path" if ci % 3 == 1 else "bytesio"))
    return plan


def threads_case(case, scratch):
    import threading

    os.makedirs(scratch, exist_ok=True)
    comp = tuple(case["compress"]) if isinstance(case["compress"], list) else case["compress"]
    arr = {"a": make_array(case["a"], scratch), "b": make_array(case["b"], scratch)}
    blob = {}
    for n in ("a", "b"):
        bio = io.BytesIO()
        joblib.dump(arr[n], bio, compress=comp)
        blob[n] = bio.getvalue()
        if case["target"] == "path":
            with open(os.path.join(scratch, "thr-%s.pkl" % n), "wb") as f:
                f.write(blob[n])
    ST.evaluations += 1
    ST.nontrivial.add(json.dumps(case, sort_keys=True))
    ST.count("threads:" + case["op_a"] + "-while-" + case["op_b"])
    ST.count("threads:compress=" + (str(comp[0]) if isinstance(comp, tuple) else str(comp)))

    def do(op, n):
        if op == "load":
            if case["target"] == "path":
                return joblib.load(os.path.join(scratch, "thr-%s.pkl" % n))
            return joblib.load(io.BytesIO(blob[n]))
        out = io.BytesIO()
        joblib.dump(arr[n], out, compress=comp)
        return out.getvalue()

    def judge(op, n, res, sub):
        if isinstance(res, Exception):
            fail("concurrent-" + op + "-raises:" + type(res).__name__, sub, repr(res)[:200])
            return
        if op == "dump":
            try:
                res = OracleUnpickler(io.BytesIO(decode_stream(res)[1])).load()
            except Exception as e:  # noqa: BLE001
                fail("concurrent-dump-writes-an-unreadable-file:" + type(e).__name__, sub, repr(e)[:200])
                return
        o = arr[n]
        if not (isinstance(res, np.ndarray) and tuple(res.shape) == tuple(o.shape) and dtype_equal_up_to_byteorder(res.dtype, o.dtype)):
            fail("concurrent-" + op + "-returns-another-kind-of-array", sub, dict(got=arr_desc(res) if isinstance(res, np.ndarray) else type(res).__name__))
        elif not (elem_bytes(res) == elem_bytes(o) if res.dtype == o.dtype else same_values_other_byteorder(res, o)):
            other = arr["b" if n == "a" else "a"]
            mixed = res.dtype == other.dtype and res.shape == other.shape and bool((np.asarray(res).view("u1") == np.asarray(other).view("u1")).any())
            fail("concurrent-" + op + "-in-threads-corrupts-the-array", sub, dict(holds_bytes_of_the_other_threads_array=mixed))

    only = case.get("park_after_io_return")   # a replay: that overlap alone
    k, total = only or 1, None
    while total is None or k <= total:
        parked, resume, a_done = threading.Event(), threading.Event(), threading.Event()
        count = [0]
        res = {}

        def prof(frame, event, arg):
            if event == "c_return":
                name = getattr(arg, "__name__", "")
            elif event == "return":
                name = frame.f_code.co_name
            else:
                return
            if name in IO_NAMES:
                count[0] += 1
                if count[0] == k:
                    parked.set()
                    resume.wait(120)

        def run_a():
            sys.setprofile(prof)
            try:
                res["a"] = do(case["op_a"], "a")
            except Exception as e:  # noqa: BLE001
                res["a"] = e
            finally:
                sys.setprofile(None)
                a_done.set()
                parked.set()

        def run_b():
            parked.wait(120)
            try:
                res["b"] = do(case["op_b"], "b")
            except Exception as e:  # noqa: BLE001
                res["b"] = e
            finally:
                resume.set()

        ta, tb = threading.Thread(target=run_a), threading.Thread(target=run_b)
        ta.start()
        tb.start()
        ta.join()
        tb.join()
        sub = dict(case, park_after_io_return=k)
        sub.pop("thread", None)
        judge(case["op_a"], "a", res.get("a"), dict(sub, thread="A"))
        judge(case["op_b"], "b", res.get("b"), dict(sub, thread="B"))
        ST.count("threads:forced-overlaps")
        if count[0] < k:
            total = count[0]
        if only is not None:
            break
        k += 1
    ST.count("threads:io-returns-per-op<=%d" % (10 * (1 + (total or 0) // 10)))


def threads_cases(scratch, rnd, thorough):
    for case in threads_plan(rnd, thorough):
        guarded(threads_case, case, case, scratch)


# ----------------------------------------------------------------------------- plans


def dump_plan(rnd, scale, thorough):
    plan = []
    comps = [0, 0, 0, 3, ["zlib", 1], ["gzip", 3], ["bz2", 9], ["lzma", 1], ["xz", 3], "zlib", True, ["zlib", 9], ["gzip", 6]]
    protos = [None, 2, 3, 4, 5, 0, 1, None, 4]
    nests = ["alone", "alone", "list2", "dict", "obj", "tuple"]
    targets = ["path", "path", "bytesio", "file"]
    exts = [".pkl", ".z", ".gz", ".npy", ""]
    seed = 0

    def add(dt, shape, layout, **kw):
        nonlocal seed
        seed += 1
        c = kw.pop("compress", None)
        if c is None:
            c = rnd.choice(comps)
        tgt = kw.pop("target", None) or rnd.choice(targets)
        case = dict(kind="dumpload", array=dict(dtype=dt, shape=shape, layout=layout, seed=seed), nest=kw.pop("nest", None) or rnd.choice(nests),
                    compress=c, protocol=kw.pop("protocol", "rnd"), target=tgt, ext=rnd.choice(exts), load_ext=rnd.choice(exts))
        if case["protocol"] == "rnd":
            case["protocol"] = rnd.choice(protos)
        if c in (0, False) and tgt in ("path", "file"):
            case["mmap"] = kw.pop("mmap", None) or rnd.sample(["r", "r+", "c", "w+"], 2)
        plan.append(case)

    # every dtype x a few shapes/layouts
    for dt in SIMPLE_DTYPES + STRUCT_DTYPES:
        shapes = [rnd.choice(SHAPES) for _ in range(int(3 * scale))]
        for sh in shapes + [[]]:
            add(dt, sh, rnd.choice(LAYOUTS))
    # every layout x every rank, on a few dtypes, uncompressed to a path with all four mmap modes
    for _ in range(max(1, int(scale / 2))):
        for layout in LAYOUTS:
            for sh in SHAPES:
                add(rnd.choice(["<f8", ">i4", "<c8", STRUCT_DTYPES[2], "S5", ">f2", "<M8[s]", STRUCT_DTYPES[7]]), sh, layout, compress=0,
                    target="path", mmap=["r", "r+", "c", "w+"], nest=rnd.choice(["alone", "dict", "obj"]))
    # every compressor x levels x protocols on one array shape
    for cname in ["zlib", "gzip", "bz2", "lzma", "xz"]:
        for lvl in ([1, 3, 9] if not thorough else range(1, 10)):
            for proto in (0, 1, 2, 3, 4, 5):
                add(rnd.choice(["<f8", ">u2", STRUCT_DTYPES[3]]), rnd.choice([[7], [5, 4], [2, 3, 4]]), rnd.choice(["C", "F", "slice"]),
                    compress=[cname, lvl], protocol=proto)
    # sizes around BUFFER_SIZE (the chunked read) and an itemsize larger than the buffer
    bs = npk.BUFFER_SIZE
    for n in (bs // 8 - 1, bs // 8, bs // 8 + 1, 2 * bs // 8 + 5):
        add("<f8", [n], "C", compress=rnd.choice([0, ["zlib", 1]]))
    add("V%d" % (bs + 7), [3], "C", compress=0)
    add("<i2", [300, 500], "F", compress=0, target="path", mmap=["r", "c"])
    add("S3", [bs // 3 + 2], "C", compress=["gzip", 1])
    # F27: itemsize-0 dtypes
    for z in ZERO_ITEMSIZE:
        add(z, [3], "C", compress=0, nest="alone")
    return plan


# ----------------------------------------------------------------------------- main


def guarded(fn, case, *args):
    """An exception escaping from the implementation where the harness did not expect one is an oracle failure
    on that case (the property never allows an exception on valid input), not an infrastructure error."""
    try:
        return fn(*args)
    except Exception as e:  # noqa: BLE001
        import traceback

        tb = traceback.extract_tb(e.__traceback__)
        where = next((f"{os.path.basename(fr.filename)}:{fr.name}" for fr in reversed(tb) if "joblib" in fr.filename), "?")
        fail("unexpected-exception:" + type(e).__name__, case, dict(error=repr(e)[:200], where=where))
        return None


def main():
    mode = sys.argv[1]
    if mode == "rebuild":
        rebuild_main(sys.argv[2], sys.argv[3])
        return
    scratch, seed, tier, part = sys.argv[2], sys.argv[3], sys.argv[4], sys.argv[5]
    replay = json.load(open(sys.argv[6])) if len(sys.argv) > 6 else None
    os.makedirs(scratch, exist_ok=True)
    thorough = tier == "thorough"
    rnd = random.Random(f"C19/{seed}/{part}")
    if replay is not None:
        case = replay.get("case", {})
        kind = case.get("kind")
        if kind == "dumpload":
            case.pop("index", None)
            case.pop("mmap_mode", None)
            guarded(dump_load_case, case, case, scratch)
        elif kind == "worker-view":
            guarded(worker_view_case, case, case["view"], scratch)
        elif kind == "parallel-view":
            guarded(parallel_view_cases, case, scratch)
        elif kind == "modes":
            case.pop("input", None)
            guarded(mode_case, case, case, scratch)
        elif kind == "threads":
            case.pop("thread", None)
            guarded(threads_case, case, case, scratch)
        elif kind == "history-lagging-tracker":
            case.pop("call", None)
            guarded(lagging_tracker_case, case, case, scratch)
        elif kind == "history":
            case.pop("call", None)
            guarded(history_case, case, case, scratch)
        else:
            guarded(parallel_cases, case, scratch, rnd, thorough)
    elif part.startswith("dump"):
        # dump<i>of<n>: shard of the dump/load plan
        i, n = (int(x) for x in part[4:].split("of"))
        plan = dump_plan(random.Random(f"C19/{seed}/plan"), 30.0 if thorough else 2.0, thorough)
        for j, case in enumerate(plan):
            if j % n == i:
                guarded(dump_load_case, case, case, os.path.join(scratch, f"s{i}"))
    elif part == "views":
        import concurrent.futures

        plan = view_plan(rnd, thorough)
        for v in plan:  # create the backing files first (the rebuild children only read them)
            guarded(make_memmap_view, dict(kind="worker-view", view=v), v, scratch)
        with concurrent.futures.ThreadPoolExecutor(max_workers=12) as ex:
            rebuilt = list(ex.map(lambda v: run_rebuild(v, scratch), plan))
        for v, r in zip(plan, rebuilt):
            guarded(worker_view_case, dict(kind="worker-view", view=v), v, scratch, r)
    elif part == "modes":
        mode_cases(scratch, thorough)
    elif part == "threads":
        threads_cases(scratch, rnd, thorough)
    elif part == "histories":
        history_cases(scratch, rnd, thorough)
    elif part.startswith("parallel"):
        i, n = (int(x) for x in part[8:].split("of"))
        guarded(parallel_cases, dict(kind="parallel", shard=i), scratch, rnd, thorough, i, n)
        if i == 0:
            guarded(parallel_view_cases, dict(kind="parallel-view"), scratch)
    emit(dict(k="stats", evaluations=ST.evaluations, nontrivial=sorted(ST.nontrivial), dist=ST.dist, samples=ST.samples))
    emit(dict(k="done"))
    OUT.flush()


if __name__ == "__main__":
    main()
