"""numpy side of the C19 check. Runs under `python3-vt` (3.11 + numpy) with PYTHONPATH=$VERIF_REPO, as a
subprocess of harness/props/c19.py (which runs under /venv/bin/python, without numpy).

  python3-vt c19_worker.py run   <scratch> <seed> <tier> <part> [<replay.json>]   → JSON lines on stdout
  python3-vt c19_worker.py rebuild <json>     (isolated grandchild: may die of SIGSEGV, that is the point)

Output records (one JSON object per line):
  {"k":"corr", "stream", "case", "req", "impl"}   a request for the Lean driver and what the implementation did
  {"k":"fail", "sig", "case", "detail"}           the implementation violates the property (oracle, no model)
  {"k":"stats", "evaluations", "nontrivial", "dist", "samples"}
  {"k":"done"}

The file layout is parsed by an INDEPENDENT reader (`OracleUnpickler`: CPython's pure-Python unpickler plus the
documented payload format — wrapper pickle, one pad-length byte, 0xff padding to 16-byte alignment, raw bytes in
C or F order), never by joblib's `read_array`.
"""

from __future__ import annotations

import bz2
import gzip
import hashlib
import io
import json
import lzma
import os
import pickle
import random
import subprocess
import sys
import warnings
import zlib

import numpy as np

import joblib
from joblib import numpy_pickle as npk

warnings.simplefilter("ignore")
NATIVE = "<" if sys.byteorder == "little" else ">"
OUT = sys.stdout


def emit(rec):
    OUT.write(json.dumps(rec, default=repr) + "\n")


class Stats:
    def __init__(self):
        self.evaluations = 0
        self.nontrivial = set()
        self.dist = {}
        self.samples = []

    def count(self, k, n=1):
        self.dist[k] = self.dist.get(k, 0) + n


ST = Stats()


def fail(sig, case, detail):
    emit(dict(k="fail", sig=sig, case=case, detail=detail))


def corr(stream, case, req, impl):
    emit(dict(k="corr", stream=stream, case=case, req=req, impl=impl))


# ----------------------------------------------------------------------------- array generator

SIMPLE_DTYPES = [
    "?", "i1", "u1", "<i2", ">i2", "<u2", ">u2", "<i4", ">i4", "<u4", ">u4", "<i8", ">i8", "<u8", ">u8",
    "<f2", ">f2", "<f4", ">f4", "<f8", ">f8", "<g", ">g", "<c8", ">c8", "<c16", ">c16",
    "<M8[s]", ">M8[ns]", "<M8[D]", "<m8[ms]", ">m8[us]", "S1", "S5", "<U3", ">U3", "V4", "V7", "O",
]
STRUCT_DTYPES = [
    [["a", "<i4"], ["b", "<f8"]],
    [["a", ">i4"], ["b", ">f8"]],  # all big-endian: the byte-order coercion applies
    [["a", "<i4"], ["b", ">f8"]],  # mixed endianness: left alone
    [["x", ">u2"], ["y", "S3"], ["z", "<c8"]],
    [["p", "<i2", [2]], ["q", "?"]],  # sub-array field
    [["in", [["u", "<u1"], ["v", ">i8"]]], ["w", "<f4"]],  # nested
    [["t", "<M8[s]"], ["d", ">m8[ms]"], ["s", "<U2"]],
    {"names": ["a", "b"], "formats": ["u1", "<f8"], "aligned": True},  # padding holes
    {"names": ["a", "b"], "formats": ["<i4", "<i4"], "offsets": [0, 8], "itemsize": 16},
    [["o", "O"], ["n", "<i4"]],  # hasobject through a field
]
ZERO_ITEMSIZE = ["V0", []]  # F27
SHAPES = [[], [0], [1], [7], [3, 0], [0, 3], [2, 3], [5, 4], [1, 1], [2, 3, 4], [4, 1, 3], [2, 1, 3, 2], [1, 5, 1, 2], [33]]
LAYOUTS = ["C", "F", "slice", "T", "rev", "revlast", "bcast", "offset", "readonly", "memmap", "memmap-F", "memmap-view",
           "memmap-slice", "matrix", "asarray-view"]
OBJECTS = [None, 1, 2**70, "str", b"by", (1, 2), [1, [2]], 1.5, {"k": 1}, True, float("inf")]


def to_dtype(d):
    if isinstance(d, str):
        return np.dtype(d)
    if isinstance(d, dict):
        return np.dtype(dict(d), align=bool(d.get("aligned")))

    def field(f):
        fmt = f[1] if isinstance(f[1], str) else to_dtype(f[1])
        return (f[0], fmt) if len(f) == 2 else (f[0], fmt, tuple(f[2]))

    return np.dtype([field(f) for f in d])


def fill(a, g, rnd):
    """Fill `a` (any layout) in place with bit patterns typical of and nasty for its dtype."""
    dt = a.dtype
    if dt.names:
        for n in dt.names:
            fill(a[n], g, rnd)
        return
    if a.size == 0:
        return
    k = dt.kind
    if k == "b":
        a[...] = g.integers(0, 2, size=a.shape).astype(bool)
    elif k == "U":
        n = dt.itemsize // 4
        alphabet = "ab é日😀Z"
        vals = ["".join(rnd.choice(alphabet) for _ in range(rnd.randint(0, n))) for _ in range(a.size)]
        a[...] = np.array(vals, dtype=dt).reshape(a.shape)
    elif k == "O":
        flat = [rnd.choice(OBJECTS) for _ in range(a.size)]
        for idx, v in zip(np.ndindex(a.shape), flat):
            a[idx] = v
    elif dt.itemsize == 0:
        return
    else:
        raw = np.frombuffer(g.bytes(a.size * dt.itemsize), dtype=dt).reshape(a.shape)
        a[...] = raw
        if k in "fc" and a.size:
            # a few special values: NaN with payload, -0.0, inf, denormal
            specials = np.array([np.nan, -0.0, np.inf, -np.inf, 5e-324, 1.5], dtype="f8").astype(dt)
            for idx in list(np.ndindex(a.shape))[: min(a.size, 6) : 2]:
                a[idx] = specials[rnd.randrange(len(specials))]


def make_array(spec, scratch):
    """spec: dict(dtype, shape, layout, seed). Deterministic."""
    dt = to_dtype(spec["dtype"])
    shape = tuple(spec["shape"])
    layout = spec["layout"]
    seed = spec["seed"]
    g = np.random.default_rng(seed)
    rnd = random.Random(seed)
    nd = len(shape)

    def filled(shp, order="C"):
        b = np.zeros(shp, dtype=dt, order=order)
        fill(b, g, rnd)
        return b

    if layout == "C":
        return filled(shape)
    if layout == "F":
        return filled(shape, "F")
    if layout == "slice":
        if nd == 0:
            return filled(shape)
        base = filled(tuple(2 * d + 1 for d in shape))
        return base[tuple(slice(1, None, 2) for _ in shape)]
    if layout == "T":
        return filled(shape[::-1]).T
    if layout == "rev":
        b = filled(shape)
        return b[::-1] if nd else b
    if layout == "revlast":
        b = filled(shape)
        return b[..., ::-1] if nd else b
    if layout == "bcast":
        if nd == 0:
            return filled(shape)
        return np.broadcast_to(filled((1,) + shape[1:]), shape)
    if layout == "offset":
        # data pointer not aligned to the itemsize: a view at byte offset 1 of a byte buffer
        n = int(np.prod(shape, dtype=np.int64)) if nd else 1
        if dt.hasobject or dt.itemsize == 0:
            return filled(shape)
        src = filled(shape)
        buf = bytearray(1 + n * dt.itemsize)
        buf[1:] = src.tobytes()
        return np.frombuffer(buf, dtype=dt, count=n, offset=1).reshape(shape)
    if layout == "readonly":
        b = filled(shape)
        b.setflags(write=False)
        return b
    if layout in ("memmap", "memmap-F", "memmap-view", "memmap-slice"):
        if dt.hasobject or dt.itemsize == 0 or (nd and 0 in shape):
            return filled(shape)
        os.makedirs(scratch, exist_ok=True)
        fn = os.path.join(scratch, f"src-{seed}-{layout}.bin")
        off = rnd.choice([0, 8, 16, 24, 40])
        big = tuple(2 * d + 1 for d in shape) if layout == "memmap-slice" else shape
        order = "F" if layout == "memmap-F" else "C"
        m = np.memmap(fn, dtype=dt, mode="w+", shape=big if big else None, offset=off, order=order) if big else \
            np.memmap(fn, dtype=dt, mode="w+", shape=(1,), offset=off)
        fill(m, g, rnd)
        m.flush()
        if not big:
            return m[0:1].reshape(())
        if layout == "memmap-view":
            return np.asarray(m)
        if layout == "memmap-slice":
            return m[tuple(slice(1, None, 2) for _ in shape)]
        return m
    if layout == "matrix":
        if nd != 2 or dt.names or dt.kind in "OSUVmM":
            return filled(shape)
        return np.matrix(filled(shape))
    if layout == "asarray-view":
        b = filled(shape)
        return b.view()
    raise ValueError(layout)


def arr_desc(a):
    return dict(type=type(a).__name__, dtype=str(a.dtype), shape=list(a.shape), strides=list(a.strides),
                c=bool(a.flags.c_contiguous), f=bool(a.flags.f_contiguous), nbytes=int(a.nbytes))


# ----------------------------------------------------------------------------- bit-exact comparison


def elem_bytes(a, order="C"):
    """Element bytes in C (or F) order; object arrays by pickled value; structured arrays field by field, so that
    the padding holes of aligned / explicit-offset dtypes (which are not element data and which numpy's copy loops
    leave undefined) do not take part."""
    a = np.asarray(a)
    if a.dtype.names:
        return b"".join(elem_bytes(a[n], order) for n in a.dtype.names)
    if a.dtype.hasobject:
        return pickle.dumps(a.tolist(), 2)
    return a.tobytes(order)


def has_holes(dt):
    if dt.names:
        return sum(dt.fields[n][0].itemsize for n in dt.names) != dt.itemsize or any(has_holes(dt.fields[n][0]) for n in dt.names)
    if dt.subdtype:
        return has_holes(dt.subdtype[0])
    return False


def dtype_equal_up_to_byteorder(d1, d2):
    return d1.newbyteorder("=") == d2.newbyteorder("=") or d1 == d2


def same_values_other_byteorder(loaded, orig):
    try:
        return elem_bytes(loaded.astype(orig.dtype)) == elem_bytes(orig)
    except Exception:  # noqa: BLE001
        return False


class Holder:
    def __init__(self, **kw):
        self.__dict__.update(kw)


def walk(o):
    """Arrays of a container in pickling order."""
    if isinstance(o, np.ndarray):
        yield o
    elif isinstance(o, (list, tuple)):
        for x in o:
            yield from walk(x)
    elif isinstance(o, dict):
        for v in o.values():
            yield from walk(v)
    elif isinstance(o, Holder):
        yield from walk(o.__dict__)


def nest(a, how, rnd):
    if how == "alone":
        return a
    if how == "list2":
        return [a, "between", a]
    if how == "dict":
        return {"pre": b"x" * rnd.randint(0, 40), "a": a, "b": [1, np.arange(rnd.randint(0, 5), dtype="<i2")], "post": "end"}
    if how == "obj":
        return Holder(tag="t" * rnd.randint(0, 17), arr=a, tail=(1, 2.5))
    return (1, a, "x" * rnd.randint(0, 9), a.T if a.ndim > 1 else a)


# ----------------------------------------------------------------------------- the independent reader


class OracleUnpickler(pickle._Unpickler):
    dispatch = pickle._Unpickler.dispatch.copy()

    def __init__(self, f):
        super().__init__(f)
        self.f = f
        self.arrays = []

    def load_build(self):
        pickle._Unpickler.load_build(self)
        if isinstance(self.stack[-1], npk.NumpyArrayWrapper):
            w = self.stack.pop()
            self.stack.append(self.payload(w))

    dispatch[pickle.BUILD[0]] = load_build

    def payload(self, w):
        f = self.f
        pos = f.tell()
        align = getattr(w, "numpy_array_alignment_bytes", None)
        rec = dict(wrapper_end=pos, order=w.order, shape=list(w.shape), itemsize=w.dtype.itemsize, align=align,
                   allow_mmap=bool(w.allow_mmap), subclass=w.subclass.__name__, hasobject=bool(w.dtype.hasobject),
                   dtype=w.dtype)
        count = 1
        for d in w.shape:
            count *= int(d)
        rec["count"] = count
        if w.dtype.hasobject:
            arr = pickle.load(f)
            rec.update(start=pos, end=f.tell())
        else:
            if align is not None:
                pb = f.read(1)
                pad = pb[0] if pb else 0
                run = f.read(pad)
                rec.update(pad=pad, run_ok=(run == b"\xff" * pad))
            else:
                rec.update(pad=None, run_ok=True)
            start = f.tell()
            n = count * w.dtype.itemsize
            raw = f.read(n)
            rec.update(start=start, end=start + len(raw), short=(len(raw) != n))
            arr = np.frombuffer(raw, dtype=w.dtype, count=count).reshape(tuple(w.shape), order=w.order)
            rec["raw"] = raw
        self.arrays.append(rec)
        return arr


class RecordingReader:
    """A non-peekable binary file object over bytes that logs every read as (position before, bytes returned):
    lets the harness see the ACTUAL reads of `read_array`'s chunk loop."""

    def __init__(self, data):
        self._b = io.BytesIO(data)
        self.reads = []

    def read(self, n=-1):
        pos = self._b.tell()
        out = self._b.read(n)
        self.reads.append((pos, len(out)))
        return out

    def readline(self):
        return self._b.readline()

    def readinto(self, buf):
        pos = self._b.tell()
        n = self._b.readinto(buf)
        self.reads.append((pos, n))
        return n

    def seek(self, *a):
        return self._b.seek(*a)

    def tell(self):
        return self._b.tell()


DECODERS = [
    ("zlib", zlib.decompress), ("gzip", gzip.decompress), ("bz2", bz2.decompress),
    ("lzma", lambda d: lzma.decompress(d, format=lzma.FORMAT_ALONE)), ("xz", lambda d: lzma.decompress(d, format=lzma.FORMAT_XZ)),
]


def decode_stream(data):
    """(codec name or 'raw', uncompressed stream) using CPython's codecs only."""
    head = data[:6]
    order = DECODERS
    for name, dec in order:
        if (name == "zlib" and head[:1] == b"\x78") or (name == "gzip" and head[:2] == b"\x1f\x8b") or \
           (name == "bz2" and head[:2] == b"BZ") or (name == "lzma" and head[:2] == b"]\x00") or (name == "xz" and head[:6] == b"\xfd7zXZ\x00"):
            try:
                return name, dec(data)
            except Exception:  # noqa: BLE001
                pass
    return "raw", data


# ----------------------------------------------------------------------------- dump / load checks


def classify_zero_itemsize(a):
    return (not a.dtype.hasobject) and a.dtype.itemsize == 0


def check_loaded(loaded, orig, case, strict, how):
    """The property's oracle on one array. strict: dtype must be identical (mmap loads / ensure_native_byte_order=False)."""
    ok = True
    if not isinstance(loaded, np.ndarray):
        fail("loaded-not-an-array", case, dict(how=how, got=type(loaded).__name__))
        return False
    t_orig = type(orig)
    if how.startswith("mmap"):
        pass  # memory-mapped loads yield np.memmap by design
    elif t_orig is np.memmap:
        if type(loaded) not in (np.ndarray, np.memmap):
            fail("subclass:memmap-loads-as-" + type(loaded).__name__, case, dict(how=how))
            ok = False
    elif type(loaded) is not t_orig:
        if t_orig is np.matrix and type(loaded) is np.ndarray:
            fail("subclass:np.matrix-loads-as-ndarray", case, dict(how=how, numpy=np.__version__))
        else:
            fail("subclass-not-restored:" + t_orig.__name__, case, dict(how=how, got=type(loaded).__name__))
        ok = False
    if tuple(loaded.shape) != tuple(orig.shape):
        fail("shape-differs", case, dict(how=how, want=list(orig.shape), got=list(loaded.shape)))
        return False
    if strict:
        if loaded.dtype != orig.dtype:
            fail("dtype-differs", case, dict(how=how, want=str(orig.dtype), got=str(loaded.dtype)))
            return False
        same = elem_bytes(loaded) == elem_bytes(orig)
    else:
        if not dtype_equal_up_to_byteorder(loaded.dtype, orig.dtype):
            fail("dtype-differs-beyond-byte-order", case, dict(how=how, want=str(orig.dtype), got=str(loaded.dtype)))
            return False
        if loaded.dtype == orig.dtype:
            same = elem_bytes(loaded) == elem_bytes(orig)
        else:
            same = same_values_other_byteorder(loaded, orig)
    if not same:
        fail("element-bytes-differ", case, dict(how=how, want=hashlib.sha1(elem_bytes(orig)).hexdigest(),
                                                got=hashlib.sha1(elem_bytes(loaded)).hexdigest()))
        ok = False
    # order: a C-contiguous original comes back C-contiguous, an F-only one F-contiguous
    if orig.flags.c_contiguous and not loaded.flags.c_contiguous:
        fail("order-not-restored:C", case, dict(how=how))
        ok = False
    if orig.flags.f_contiguous and not orig.flags.c_contiguous and not loaded.flags.f_contiguous:
        fail("order-not-restored:F", case, dict(how=how))
        ok = False
    return ok


def dump_to(obj, target, scratch, name, compress, protocol):
    """Returns (bytes written, path or None)."""
    if target == "path":
        p = os.path.join(scratch, name)
        joblib.dump(obj, p, compress=compress, protocol=protocol)
        return open(p, "rb").read(), p
    if target == "file":
        p = os.path.join(scratch, name)
        with open(p, "wb") as f:
            joblib.dump(obj, f, compress=compress, protocol=protocol)
        return open(p, "rb").read(), p
    b = io.BytesIO()
    joblib.dump(obj, b, compress=compress, protocol=protocol)
    return b.getvalue(), None


def hexs(b):
    return b.hex() if b else "-"


def dump_load_case(case, scratch):
    """One array, one configuration: dump with the real code, parse the file independently, compare with the
    model (layout / read / order / count / mmap offset) and with the original (oracle)."""
    spec = case["array"]
    rnd = random.Random(f"{spec['seed']}/{case['nest']}/{case['compress']}/{case['protocol']}")
    try:
        a = make_array(spec, os.path.join(scratch, "src"))
    except Exception as e:  # noqa: BLE001
        ST.count("generator-skip:" + type(e).__name__)
        return
    os.makedirs(scratch, exist_ok=True)
    obj = nest(a, case["nest"], rnd)
    originals = list(walk(obj))
    compress = case["compress"]
    compress = tuple(compress) if isinstance(compress, list) else compress
    ST.evaluations += 1
    ST.count("dtype-kind=" + ("struct" if a.dtype.names else a.dtype.kind))
    ST.count("layout=" + spec["layout"])
    ST.count("ndim=" + str(a.ndim))
    ST.count("nest=" + case["nest"])
    ST.count("compress=" + (str(compress[0]) if isinstance(compress, tuple) else str(compress)))
    ST.count("protocol=" + str(case["protocol"]))
    ST.count("target=" + case["target"])
    ST.count("type=" + type(a).__name__)
    ST.nontrivial.add(json.dumps([spec, case["nest"], str(compress), case["protocol"], case["target"]], sort_keys=True))
    zero = any(classify_zero_itemsize(x) for x in originals)
    if len(ST.samples) < 5:
        ST.samples.append(dict(case=case, array=arr_desc(a)))
    # ---- dump
    name = f"c{ST.evaluations}" + case.get("ext", ".pkl")
    try:
        data, path = dump_to(obj, case["target"], scratch, name, compress, case["protocol"])
    except Exception as e:  # noqa: BLE001
        sig = "dump-raises:" + type(e).__name__
        if zero:
            sig = "dump-raises:itemsize-zero-dtype"
        fail(sig, case, dict(array=arr_desc(a), error=repr(e)[:200]))
        if zero:
            # the model rejects the same way
            corr("layout-error", case, "layout 16 0 0 %d" % a.size, "err " + type(e).__name__)
        return
    # ---- independent parse of the file
    codec, stream = decode_stream(data)
    ST.count("written-as=" + codec)
    try:
        ou = OracleUnpickler(io.BytesIO(stream))
        parsed_obj = ou.load()
        recs = ou.arrays
    except Exception as e:  # noqa: BLE001
        fail("file-not-in-documented-format:" + type(e).__name__, case, repr(e)[:300])
        return
    if len(recs) != len(originals):
        fail("array-count-differs-in-file", case, dict(want=len(originals), got=len(recs)))
        return
    chunk_jobs = []
    for i, (rec, orig) in enumerate(zip(recs, originals)):
        sub = dict(case, index=i)
        want_order = "F" if (orig.flags.f_contiguous and not orig.flags.c_contiguous) else "C"
        corr("order", sub, f"order {int(orig.flags.c_contiguous)} {int(orig.flags.f_contiguous)}", rec["order"])
        corr("count", sub, "count " + (",".join(map(str, orig.shape)) or "-"), str(orig.size))
        if rec["hasobject"]:
            continue
        al = "-" if rec["align"] is None else str(rec["align"])
        corr("layout", sub, f"layout {al} {rec['wrapper_end']} {rec['itemsize']} {rec['count']}",
             f"ok pad={'-' if rec['pad'] is None else rec['pad']} start={rec['start']} end={rec['end']}")
        # oracle on the layout itself (the property: padding to 16-byte alignment)
        if rec["align"] is not None:
            if rec["start"] % 16 != 0:
                fail("data-start-not-16-byte-aligned", sub, dict(start=rec["start"], pad=rec["pad"]))
            # the bytes between the wrapper and the data (pad-length byte, 0xff run) against the model's writer
            corr("write-prefix", sub, f"write {al} {rec['wrapper_end']} {rec['itemsize']} -",
                 "ok " + hexs(stream[rec["wrapper_end"]: rec["start"]]))
        if rec["short"]:
            fail("file-shorter-than-array", sub, dict(start=rec["start"], end=rec["end"]))
        want_raw = np.asarray(orig).tobytes(want_order)
        if has_holes(orig.dtype):
            in_file = np.frombuffer(rec["raw"], dtype=orig.dtype, count=rec["count"]).reshape(orig.shape, order=want_order)
            same_raw = elem_bytes(in_file) == elem_bytes(orig)
        else:
            same_raw = rec["raw"] == want_raw
        if not same_raw:
            fail("bytes-in-file-differ-from-array", sub, dict(order=rec["order"], want_order=want_order))
        if len(rec["raw"]) <= 1536:
            tail = stream[rec["end"]: rec["end"] + 6]
            chunk = stream[rec["wrapper_end"]: rec["end"]] + tail
            # the model reads the bytes that are in the file; that they are the array's is judged just above
            corr("read", sub, f"read {al} {rec['wrapper_end']} {rec['count']} {rec['itemsize']} {hexs(chunk)}",
                 f"ok {hexs(rec['raw'] if has_holes(orig.dtype) else want_raw)} pos={rec['end']} left={len(tail)}")
        chunk_jobs.append((sub, rec))
    # the chunked read: for an uncompressed stream the actual `read` calls inside each array's data range are
    # observed; otherwise only the arithmetic is compared
    observed = None
    if codec == "raw" and chunk_jobs:
        rr = RecordingReader(data)
        try:
            joblib.load(rr)
            observed = rr.reads
        except Exception:  # noqa: BLE001  (reported by the load checks below)
            observed = None
    for sub, rec in chunk_jobs:
        want = chunk_expect(rec["itemsize"], rec["count"])
        if observed is not None and rec["itemsize"]:
            sizes = [n for (pos, n) in observed if rec["start"] <= pos < rec["end"] and n > 0]
            isz = rec["itemsize"]
            m = want.split()[1] if want.startswith("ok") else "m=?"
            want = (f"ok {m} n={len(sizes)} sum={sum(sizes) // isz} first={(sizes[0] // isz) if sizes else 0} "
                    f"last={(sizes[-1] // isz) if sizes else 0} maxbytes={max(sizes) if sizes else 0}")
            ST.count("chunk-loop-observed")
        corr("chunks", sub, f"chunks {rec['itemsize']} {rec['count']}", want)
    # what the independent reader reconstructs is the original (tests the WRITER alone)
    for i, (o, p) in enumerate(zip(originals, walk(parsed_obj))):
        if o.dtype != p.dtype or tuple(o.shape) != tuple(p.shape) or elem_bytes(o) != elem_bytes(p):
            fail("independent-reader-gets-different-array", dict(case, index=i), dict(want=arr_desc(o), got=arr_desc(p)))
    # ---- load with the real code, every way
    loads = []
    try:
        loads.append(("bytesio-auto", False, joblib.load(io.BytesIO(data))))
        loads.append(("bytesio-strict", True, joblib.load(io.BytesIO(data), ensure_native_byte_order=False)))
        if path is not None:
            p2 = path + case.get("load_ext", ".bin")
            os.replace(path, p2)
            path = p2
            loads.append(("path-auto", False, joblib.load(path)))
            with open(path, "rb") as f:
                loads.append(("file-strict", True, joblib.load(f, ensure_native_byte_order=False)))
    except Exception as e:  # noqa: BLE001
        fail("load-raises:" + type(e).__name__, case, repr(e)[:300])
        return
    for how, strict, back in loads:
        got = list(walk(back))
        if len(got) != len(originals):
            fail("array-count-differs-after-load", case, dict(how=how, want=len(originals), got=len(got)))
            continue
        for i, (l, o) in enumerate(zip(got, originals)):
            check_loaded(l, o, dict(case, index=i), strict, how)
    # ---- memory-mapped loads
    if path is not None and case.get("mmap") and codec == "raw":
        for mode in case["mmap"]:
            mmap_case(case, path, mode, originals, recs, stream)
    if path is not None:
        try:
            os.unlink(path)
        except OSError:
            pass


def chunk_expect(itemsize, count):
    """What the chunked read must do, stated directly (not from the model): ceil(count/m) reads covering count items."""
    bs = npk.BUFFER_SIZE
    if itemsize == 0:
        return "err ZeroDivisionError"
    m = bs // min(bs, itemsize)
    n = -(-count // m)
    first = min(m, count) if count else 0
    last = (count - (n - 1) * m) if n else 0
    return f"ok m={m} n={n} sum={count} first={first} last={last} maxbytes={first * itemsize}"


def mmap_case(case, path, mode, originals, recs, stream):
    sub0 = dict(case, mmap_mode=mode)
    before = open(path, "rb").read()
    with warnings.catch_warnings(record=True) as wl:
        warnings.simplefilter("always")
        try:
            back = joblib.load(path, mmap_mode=mode)
        except Exception as e:  # noqa: BLE001
            sig = "mmap-load-raises:" + type(e).__name__
            if any(o.size == 0 for o in originals):
                sig = "mmap-load-raises-on-empty-array:" + type(e).__name__
            fail(sig, sub0, repr(e)[:300])
            return
    unaligned_warning = any("not byte aligned" in str(w.message) for w in wl)
    got = list(walk(back))
    ST.count("mmap_mode=" + mode)
    for i, (l, o, rec) in enumerate(zip(got, originals, recs)):
        sub = dict(sub0, index=i)
        if rec["hasobject"]:
            check_loaded(l, o, sub, True, "mmap-" + mode)
            continue
        if not isinstance(l, np.memmap):
            fail("mmap-load-not-a-memmap", sub, dict(got=type(l).__name__))
            continue
        check_loaded(l, o, sub, True, "mmap-" + mode)
        if l.size and l.ctypes.data % 16 != 0:
            fail("mmap-array-not-16-byte-aligned", sub, dict(addr_mod_16=l.ctypes.data % 16, offset=int(l.offset)))
        al = "-" if rec["align"] is None else str(rec["align"])
        head = stream[rec["wrapper_end"]: rec["wrapper_end"] + 20]
        corr("mmap", sub, f"mmap {al} {rec['wrapper_end']} {rec['count']} {rec['itemsize']} {hexs(head)}",
             f"offset={int(l.offset)} warns={int(unaligned_warning)} pos={rec['end']}")
        # mode semantics: r read-only; r+/w+ write through (w+ must NOT zero the data); c copy-on-write
        if mode == "r" and l.flags.writeable:
            fail("mmap-r-is-writeable", sub, "")
        if mode in ("r+", "w+", "c") and l.size and not l.flags.writeable:
            fail("mmap-" + mode + "-not-writeable", sub, "")
    # a NEW VERSION of the file published under the same path (write to a temporary + os.replace, what joblib.Memory's store
    # does for every result) while the first mapping is still alive: a second load must show the new contents
    if mode in ("r", "c"):
        data = bytearray(before)
        exp = []
        for l, rec in zip(got, recs):
            if rec["hasobject"] or not isinstance(l, np.memmap) or l.size == 0 or has_holes(l.dtype):
                exp.append(None)
                continue
            at, n = rec["start"], l.dtype.itemsize
            new = bytes((b ^ 0x5A) for b in data[at: at + n])
            data[at: at + n] = new
            exp.append(new)
        if any(e is not None for e in exp):
            tmp = path + ".newver"
            with open(tmp, "wb") as f:
                f.write(bytes(data))
            os.replace(tmp, path)
            back2 = None
            try:
                back2 = joblib.load(path, mmap_mode=mode)
                for i, (l2, e) in enumerate(zip(walk(back2), exp)):
                    if e is None:
                        continue
                    flat = l2.reshape(-1) if l2.flags.c_contiguous else l2.T.reshape(-1)
                    if flat[0:1].tobytes() != e:
                        fail("mmap-load-stale-after-the-file-was-replaced", dict(sub0, index=i),
                             dict(first_element=hexs(flat[0:1].tobytes()), in_the_file_now=hexs(e)))
                        break
                ST.count("mmap-reload-after-replace")
            except Exception as e:  # noqa: BLE001
                fail("mmap-reload-raises:" + type(e).__name__, sub0, repr(e)[:200])
            finally:
                del back2
                with open(tmp, "wb") as f:
                    f.write(before)
                os.replace(tmp, path)
    # write-through / copy-on-write, checked on the first non-empty non-object array
    for l, rec in zip(got, recs):
        if rec["hasobject"] or not isinstance(l, np.memmap) or l.size == 0 or not l.flags.writeable:
            continue
        flat = l.reshape(-1) if l.flags.c_contiguous else l.T.reshape(-1)
        old = flat[0:1].tobytes()
        new = bytes((b ^ 0x5A) for b in old)
        flat[0:1] = np.frombuffer(new, dtype=l.dtype, count=1)
        l.flush()
        after = open(path, "rb").read()
        changed = after != before
        if mode == "c" and changed:
            fail("mmap-c-writes-to-file", sub0, "")
        if mode in ("r+", "w+"):
            if not changed:
                fail("mmap-" + mode + "-does-not-write-through", sub0, "")
            else:
                at = rec["start"]
                if after[at: at + len(new)] != new and l.flags.c_contiguous and not has_holes(l.dtype):
                    fail("mmap-write-lands-elsewhere", sub0, dict(at=at))
            with open(path, "wb") as f:
                f.write(before)
        break
    del back, got


# ----------------------------------------------------------------------------- worker path


def backing(a):
    from joblib._memmapping_reducer import _get_backing_memmap

    return _get_backing_memmap(a)


def view_signature(a, m):
    """Stable classification of a memmap-backed view (what known_findings match on)."""
    if any(s < 0 and n > 1 for s, n in zip(a.strides, a.shape)):
        return "worker-view:negative-stride-memmap-view"
    contig = a.flags.c_contiguous or a.flags.f_contiguous
    if contig:
        a_order = "F" if (a.flags.f_contiguous and not a.flags.c_contiguous) else "C"
        m_order = "F" if m.flags.f_contiguous else "C"
        both = a.flags.f_contiguous and a.flags.c_contiguous
        if not both and a_order != m_order:
            return "worker-view:contiguous-view-in-the-other-order-than-its-memmap"
        return "worker-view:contiguous"
    if any(s % a.itemsize for s in a.strides):
        return "worker-view:strides-not-multiple-of-itemsize"
    return "worker-view:strided"


def make_memmap_view(vspec, scratch):
    """vspec: dict(dtype, shape, order, offset, view, seed). Returns (a, m)."""
    dt = to_dtype(vspec["dtype"])
    fn = os.path.join(scratch, "mm-%s.bin" % hashlib.sha1(json.dumps(vspec, sort_keys=True).encode()).hexdigest()[:12])
    shape = tuple(vspec["shape"])
    if not os.path.exists(fn):
        m = np.memmap(fn, dtype=dt, mode="w+", shape=shape, order=vspec["order"], offset=vspec["offset"])
        fill(m, np.random.default_rng(vspec["seed"]), random.Random(vspec["seed"]))
        m.flush()
        del m
    m = np.memmap(fn, dtype=dt, mode="r", shape=shape, order=vspec["order"], offset=vspec["offset"])
    v = vspec["view"]
    a = m
    for step in v:
        op = step[0]
        if op == "T":
            a = a.T
        elif op == "asarray":
            a = np.asarray(a)
        elif op == "field":
            a = a[step[1]]
        elif op == "idx":
            a = a[tuple(slice(*s) if isinstance(s, list) else s for s in step[1])]
        elif op == "reshape":
            a = a.reshape(tuple(step[1]))
    return a, m


def reduce_request(a, m):
    ap = a.__array_interface__["data"][0]
    mp = m.__array_interface__["data"][0]

    def csv(xs):
        return ",".join(str(int(x)) for x in xs) or "-"

    return (f"{ap} {csv(a.shape)} {csv(a.strides)} {a.itemsize} {mp} {csv(m.shape)} {csv(m.strides)} {m.itemsize} "
            f"{int(m.offset)} {int(a.flags.c_contiguous)} {int(a.flags.f_contiguous)}")


def run_rebuild(vspec, scratch):
    return subprocess.run([sys.executable, os.path.abspath(__file__), "rebuild", json.dumps(vspec), scratch],
                          capture_output=True, text=True, timeout=300)


def worker_view_case(vspec, scratch, rebuilt=None):
    from joblib._memmapping_reducer import _reduce_memmap_backed

    a, m = make_memmap_view(vspec, scratch)
    case = dict(kind="worker-view", view=vspec)
    ST.evaluations += 1
    sig = view_signature(a, m)
    ST.count(sig)
    ST.nontrivial.add(json.dumps(vspec, sort_keys=True))
    bm = backing(a)
    if bm is None:
        ST.count("worker-view:not-memmap-backed")
        return
    cons, args = _reduce_memmap_backed(a, bm)
    offset, order, shape, strides, tbl = args[3], args[4], args[5], args[6], args[7]
    reduce_impl = (f"offset={int(offset)} order={order} strides="
                   f"{'None' if strides is None else (','.join(str(int(s)) for s in strides) or '-')} "
                   f"tbl={'None' if tbl is None else int(tbl)}")
    # oracle: rebuild in an isolated process (it may read outside the mapping) and compare the element bytes
    want = hashlib.sha1(elem_bytes(a)).hexdigest()
    p = rebuilt if rebuilt is not None else run_rebuild(vspec, scratch)
    if p.returncode != 0:
        corr("reduce", case, "reduce " + reduce_request(a, bm), reduce_impl + " maps=?")
        fail(sig, case, dict(outcome="rebuild process died", returncode=p.returncode, stderr=p.stderr[-200:]))
        return
    got = json.loads(p.stdout.strip().splitlines()[-1])
    # `maps`: the number of bytes of the buffer the rebuilt strided view sits on (observed on the rebuilt array)
    corr("reduce", case, "reduce " + reduce_request(a, bm), reduce_impl + " maps=" + str(got.get("maps", "?")))
    if got.get("error"):
        fail(sig, case, dict(outcome="rebuild raised", error=got["error"]))
    elif got["sha1"] != want or got["shape"] != list(a.shape) or got["dtype"] != str(a.dtype):
        fail(sig, case, dict(outcome="rebuilt view differs", want=want, got=got, array=arr_desc(a)))


def rebuild_main(vspec_json, scratch):
    from joblib._memmapping_reducer import _reduce_memmap_backed

    vspec = json.loads(vspec_json)
    a, m = make_memmap_view(vspec, scratch)
    cons, args = _reduce_memmap_backed(a, backing(a))
    try:
        r = cons(*args)
        maps = "-" if args[6] is None else int(backing(r).nbytes)
        out = dict(sha1=hashlib.sha1(elem_bytes(r)).hexdigest(), shape=list(r.shape), dtype=str(r.dtype), maps=maps)
    except Exception as e:  # noqa: BLE001
        out = dict(error=repr(e)[:200])
    print(json.dumps(out))


def view_plan(rnd, thorough):
    plans = []
    bases = [
        dict(dtype="<i8", shape=[6, 8], order="C", offset=0),
        dict(dtype="<f4", shape=[6, 8], order="F", offset=16),
        dict(dtype=">i2", shape=[4, 3, 5], order="C", offset=24),
        dict(dtype=[["a", "<i8"], ["b", "<i4"]], shape=[6, 8], order="C", offset=0),
    ]
    views2d = [
        [], [["idx", [[2, 4], [None, None]]]], [["idx", [[None, None], [1, 5]]]], [["idx", [[None, None, 2], [1, None, 3]]]],
        [["T"]], [["idx", [[1, 5], [None, None]]], ["T"]], [["asarray"]], [["asarray"], ["T"]],
        [["asarray"], ["idx", [[1, None, 2], [None, None]]]], [["idx", [3, [None, None]]]],
        [["idx", [[None, None, -1], [None, None]]]], [["idx", [[None, None], [None, None, -1]]]],
        [["idx", [3, [None, None, -1]]]], [["idx", [[None, None, -2], [None, None, -3]]]],
        [["reshape", [48]]], [["reshape", [48]], ["idx", [[40, 3, -5]]]], [["idx", [[0, 1], [None, None]]]],
        [["idx", [[None, None], [0, 1]]]],
    ]
    for bi, b in enumerate(bases):
        if len(b["shape"]) == 2:
            for v in views2d:
                if b["order"] == "F" and v and v[0][0] == "reshape":
                    continue
                plans.append(dict(b, view=v, seed=100 + bi))
        else:
            for v in ([], [["T"]], [["idx", [1, [None, None], [None, None]]]], [["idx", [[None, None], 1, [None, None]]]],
                      [["idx", [[None, None], [None, None], 2]]], [["idx", [[None, None, -1], [None, None], [None, None]]]],
                      [["idx", [[None, None], [None, None], [None, None, 2]]]], [["idx", [1, [None, None], [None, None]]], ["T"]]):
                plans.append(dict(b, view=v, seed=100 + bi))
    rec = [["a", "<i8"], ["b", "<i4"]]
    for n in (5, 341, 342, 343, 683, 684, 1024, 1366):
        plans.append(dict(dtype=rec, shape=[n], order="C", offset=0, view=[["field", "a"]], seed=7))
        plans.append(dict(dtype=rec, shape=[n], order="C", offset=0, view=[["field", "b"]], seed=7))
    plans.append(dict(dtype=rec, shape=[6, 8], order="C", offset=0, view=[["field", "a"], ["T"]], seed=8))
    return plans


def task_seen(x):
    import hashlib as _h
    import pickle as _p

    import numpy as _np

    from joblib._memmapping_reducer import _get_backing_memmap as _gb

    b = _gb(x)
    # values in a canonical (little-endian) representation: numpy's own pickling of a by-value argument may
    # change the byte order of the dtype (protocol < 5, datetime64), which leaves the values the same
    le = x.dtype.newbyteorder("<")
    if x.dtype.hasobject:
        data = _p.dumps(x.tolist(), 2)
    elif x.dtype.names:
        data = b"".join(_np.asarray(x[n]).astype(le.fields[n][0]).tobytes("C") for n in x.dtype.names)
    else:
        data = _np.asarray(x).astype(le).tobytes("C")
    where = "array"
    if b is not None:
        where = "memmap:" + os.path.basename(os.path.dirname(str(b.filename))) + "/" + os.path.basename(str(b.filename))
    return dict(sha1=_h.sha1(data).hexdigest(), dtype=repr(le), shape=list(x.shape), where=where,
                c=bool(x.flags.c_contiguous), f=bool(x.flags.f_contiguous), type=type(x).__name__,
                writeable=bool(x.flags.writeable))


OBJ_STRUCTS = [
    [["payload", "O"]],                                   # an object field alone
    [["id", "<i8"], ["payload", "O"]],                    # mixed with numeric fields
    [["a", ">i4"], ["o", "O"], ["b", "<f8"]],
    [["in", [["u", "O"], ["v", "<i4"]]], ["w", "<f4"]],   # nested struct holding the object
    [["xs", "O", [2]], ["n", "<i4"]],                     # sub-array field of objects
    [["m", "<f8", [3]], ["o", "O"]],
]


def memstr(s):
    """joblib.disk.memstr_to_bytes for the forms used here (the harness's translation for the model)."""
    return int(float(s[:-1]) * {"K": 1024, "M": 1024 ** 2}[s[-1]])


def parallel_jobs(rnd, thorough):
    """(array spec, backend, max_nbytes as passed, mmap_mode) for the `Parallel(max_nbytes=…)` path."""
    specs = [
        dict(dtype="<f8", shape=[40, 25], layout="C", seed=1),
        dict(dtype=">i4", shape=[30, 10], layout="F", seed=2),
        dict(dtype="<c8", shape=[17, 9], layout="slice", seed=3),
        dict(dtype=[["a", "<i4"], ["b", ">f8"]], shape=[50], layout="C", seed=4),
        dict(dtype="<i2", shape=[12, 6, 5], layout="T", seed=5),
        dict(dtype="O", shape=[40], layout="C", seed=6),
        dict(dtype="O", shape=[6, 7], layout="F", seed=15),
        dict(dtype="O", shape=[9, 5], layout="slice", seed=16),
        dict(dtype="<M8[s]", shape=[64], layout="rev", seed=7),
        dict(dtype="<u1", shape=[1000], layout="C", seed=8),
        dict(dtype="<f4", shape=[9, 9], layout="matrix", seed=9),
        dict(dtype="<f8", shape=[], layout="C", seed=10),
        dict(dtype="<i8", shape=[0, 4], layout="C", seed=11),
        dict(dtype="<f8", shape=[20, 10], layout="memmap", seed=12),
        dict(dtype="<f8", shape=[20, 10], layout="memmap-slice", seed=13),
        dict(dtype="<f8", shape=[20, 10], layout="memmap-view", seed=14),
    ]
    for i, dt in enumerate(OBJ_STRUCTS):
        specs.append(dict(dtype=dt, shape=rnd.choice([[60], [12, 5], [7, 3, 4]]), layout=rnd.choice(["C", "F", "slice", "T"]), seed=30 + i))
    if thorough:
        for i, dt in enumerate(["<f2", ">c16", "S5", "<U3", "?", ">m8[us]"]):
            specs.append(dict(dtype=dt, shape=[31, 7], layout=rnd.choice(["C", "F", "slice", "T"]), seed=20 + i))
        for i, dt in enumerate(OBJ_STRUCTS):
            specs.append(dict(dtype=dt, shape=[33], layout=rnd.choice(["C", "rev", "bcast", "readonly"]), seed=50 + i))
    jobs = []
    for backend in ("loky", "multiprocessing", "threading"):
        for spec in specs:
            ths = ["n-1", "n", "n+1", None] + ([0] if thorough or backend != "threading" else [])
            if backend == "multiprocessing" and not thorough:
                ths = ["n-1", "n", None]
            for mx in ths:
                jobs.append((spec, backend, mx, "r"))
    # string forms of max_nbytes, and the default ('1M'), around 1 KiB / 1 MiB, with and without object fields
    for backend in ("loky", "multiprocessing"):
        for dt, n in (("<f8", 127), ("<f8", 128), ("<f8", 129), (OBJ_STRUCTS[1], 63), (OBJ_STRUCTS[1], 64), (OBJ_STRUCTS[1], 65),
                      ("O", 127), ("O", 129), (OBJ_STRUCTS[4], 60)):
            jobs.append((dict(dtype=dt, shape=[n], layout="C", seed=70), backend, "1K", "r"))
        jobs.append((dict(dtype="<f8", shape=[131073], layout="C", seed=71), backend, "default", "r"))
        jobs.append((dict(dtype=OBJ_STRUCTS[1], shape=[66000], layout="C", seed=72), backend, "default", "r"))
        jobs.append((dict(dtype="<i4", shape=[300, 40], layout="F", seed=73), backend, "0.5K", "r"))
    # mmap_mode of the automatic memmap, where it matters: arrays above the threshold
    for backend in ("loky", "multiprocessing"):
        for mode in ("r", "r+", "c", "w+"):
            jobs.append((dict(dtype="<f8", shape=[30, 10], layout="C", seed=80), backend, 100, mode))
            jobs.append((dict(dtype=[["a", "<i4"], ["b", ">f8"]], shape=[40], layout="C", seed=81), backend, 100, mode))
            jobs.append((dict(dtype=OBJ_STRUCTS[1], shape=[40], layout="C", seed=82), backend, 100, mode))
            jobs.append((dict(dtype="O", shape=[40], layout="C", seed=83), backend, 100, mode))
    return jobs


def parallel_cases(scratch, rnd, thorough, shard=0, nshards=1):
    """Arrays handed to tasks through `Parallel(n_jobs=2, max_nbytes=…, mmap_mode=…)` with loky, multiprocessing and
    threading: thresholds just below / at / above the array size, None, 0, '1K'-style strings, the default; numeric,
    plain-object, and structured / sub-array dtypes holding objects. Oracle: the task sees identical values (object
    fields element-wise) whether the array travelled as a memmap or by pickling — and never an exception."""
    from joblib import Parallel, delayed

    jobs = parallel_jobs(random.Random("C19-parallel-jobs"), thorough)
    del rnd
    for ji, (spec, backend, mx_form, mode) in enumerate(jobs):
        if ji % nshards != shard:
            continue
        a = make_array(spec, os.path.join(scratch, "src"))
        n = int(a.nbytes)
        if isinstance(mx_form, str) and mx_form.startswith("n"):
            mx = n + {"n-1": -1, "n": 0, "n+1": 1}[mx_form]
            if mx < 0:
                continue
        else:
            mx = mx_form
        # `timeout`: a task that cannot be un-serialised in a multiprocessing.Pool worker is never answered; the
        # watchdog turns that hang into the exception the oracle reports (TimeoutError)
        kwargs = dict(n_jobs=2, backend=backend, temp_folder=os.path.join(scratch, "jl"), mmap_mode=mode, timeout=60)
        if mx != "default":
            kwargs["max_nbytes"] = mx
        mx_bytes = memstr("1M") if mx == "default" else (memstr(mx) if isinstance(mx, str) else mx)
        case = dict(kind="parallel", array=spec, backend=backend, max_nbytes=mx, mmap_mode=mode)
        ST.evaluations += 1
        ST.count("parallel:" + backend)
        ST.count("parallel:max_nbytes=" + (mx_form if isinstance(mx_form, str) else repr(mx_form)))
        ST.count("parallel:dtype=" + ("struct-with-object" if a.dtype.names and a.dtype.hasobject else
                                      "object" if a.dtype.hasobject else "struct" if a.dtype.names else a.dtype.kind))
        ST.nontrivial.add(json.dumps([spec, backend, mx, mode], sort_keys=True))
        want = task_seen(a)
        try:
            out = Parallel(**kwargs)(delayed(task_seen)(x) for x in (a, a))
        except Exception as e:  # noqa: BLE001
            fail("parallel-raises:" + type(e).__name__, case, repr(e)[:300])
            continue
        bm = backing(a)
        backed = bm is not None and isinstance(bm, np.memmap)
        for got in out:
            if got["sha1"] != want["sha1"] or got["shape"] != want["shape"]:
                sig = "worker-values-differ"
                if backed:
                    sig = view_signature(a, bm)
                fail(sig, case, dict(want=want, got=got))
            elif got["dtype"] != want["dtype"]:
                fail("worker-dtype-differs", case, dict(want=want["dtype"], got=got["dtype"]))
            if backend in ("loky", "multiprocessing"):
                if got["where"] == "array":
                    obs = "plain-pickle"
                elif backed and got["where"].endswith("/" + os.path.basename(str(bm.filename))):
                    obs = "reuse-backing"
                else:
                    obs = "dump-and-memmap"
                ST.count("parallel:travelled-as=" + obs)
                corr("forward", case, f"forward {int(type(a) in (np.ndarray, np.memmap))} {int(backed)} {int(a.dtype.hasobject)} "
                                      f"{'-' if mx_bytes is None else mx_bytes} {n}", obs)
                # the automatic memmap is opened with the requested mode ('w+' must not zero the data: values above)
                if obs == "dump-and-memmap" and got["writeable"] != (mode != "r"):
                    fail("automatic-memmap-mode-not-honoured", case, dict(mode=mode, writeable=got["writeable"]))
            else:
                if got["where"] != want["where"]:
                    fail("threading-backend-copied-or-remapped-the-array", case, dict(want=want["where"], got=got["where"]))


def parallel_view_cases(scratch):
    """F24 through the real Parallel: memmap-backed views (no negative strides: those can kill the worker)."""
    from joblib import Parallel, delayed

    X = np.arange(48, dtype="<i8").reshape(6, 8)  # noqa: N806
    p = os.path.join(scratch, "X.pkl")
    joblib.dump(X, p)
    M = joblib.load(p, mmap_mode="r")  # noqa: N806
    views = {"M": M, "M[1:3]": M[1:3], "M[:, 2:5]": M[:, 2:5], "M.T": M.T, "M[::2, 1::3]": M[::2, 1::3], "asarray(M).T": np.asarray(M).T}
    for name, a in views.items():
        for backend in ("loky", "threading"):
            case = dict(kind="parallel-view", view=name, backend=backend)
            ST.evaluations += 1
            ST.nontrivial.add(json.dumps(case, sort_keys=True))
            want = task_seen(a)
            out = Parallel(n_jobs=2, backend=backend)(delayed(task_seen)(x) for x in (a, a))
            for got in out:
                if got["sha1"] != want["sha1"] or got["shape"] != want["shape"]:
                    fail(view_signature(a, backing(a)), case, dict(want=want, got=got))


# ----------------------------------------------------------------------------- plans


def dump_plan(rnd, scale, thorough):
    plan = []
    comps = [0, 0, 0, 3, ["zlib", 1], ["gzip", 3], ["bz2", 9], ["lzma", 1], ["xz", 3], "zlib", True, ["zlib", 9], ["gzip", 6]]
    protos = [None, 2, 3, 4, 5, 0, 1, None, 4]
    nests = ["alone", "alone", "list2", "dict", "obj", "tuple"]
    targets = ["path", "path", "bytesio", "file"]
    exts = [".pkl", ".z", ".gz", ".npy", ""]
    seed = 0

    def add(dt, shape, layout, **kw):
        nonlocal seed
        seed += 1
        c = kw.pop("compress", None)
        if c is None:
            c = rnd.choice(comps)
        tgt = kw.pop("target", None) or rnd.choice(targets)
        case = dict(kind="dumpload", array=dict(dtype=dt, shape=shape, layout=layout, seed=seed), nest=kw.pop("nest", None) or rnd.choice(nests),
                    compress=c, protocol=kw.pop("protocol", "rnd"), target=tgt, ext=rnd.choice(exts), load_ext=rnd.choice(exts))
        if case["protocol"] == "rnd":
            case["protocol"] = rnd.choice(protos)
        if c in (0, False) and tgt in ("path", "file"):
            case["mmap"] = kw.pop("mmap", None) or rnd.sample(["r", "r+", "c", "w+"], 2)
        plan.append(case)

    # every dtype x a few shapes/layouts
    for dt in SIMPLE_DTYPES + STRUCT_DTYPES:
        shapes = [rnd.choice(SHAPES) for _ in range(int(3 * scale))]
        for sh in shapes + [[]]:
            add(dt, sh, rnd.choice(LAYOUTS))
    # every layout x every rank, on a few dtypes, uncompressed to a path with all four mmap modes
    for _ in range(max(1, int(scale / 2))):
        for layout in LAYOUTS:
            for sh in SHAPES:
                add(rnd.choice(["<f8", ">i4", "<c8", STRUCT_DTYPES[2], "S5", ">f2", "<M8[s]", STRUCT_DTYPES[7]]), sh, layout, compress=0,
                    target="path", mmap=["r", "r+", "c", "w+"], nest=rnd.choice(["alone", "dict", "obj"]))
    # every compressor x levels x protocols on one array shape
    for cname in ["zlib", "gzip", "bz2", "lzma", "xz"]:
        for lvl in ([1, 3, 9] if not thorough else range(1, 10)):
            for proto in (0, 1, 2, 3, 4, 5):
                add(rnd.choice(["<f8", ">u2", STRUCT_DTYPES[3]]), rnd.choice([[7], [5, 4], [2, 3, 4]]), rnd.choice(["C", "F", "slice"]),
                    compress=[cname, lvl], protocol=proto)
    # sizes around BUFFER_SIZE (the chunked read) and an itemsize larger than the buffer
    bs = npk.BUFFER_SIZE
    for n in (bs // 8 - 1, bs // 8, bs // 8 + 1, 2 * bs // 8 + 5):
        add("<f8", [n], "C", compress=rnd.choice([0, ["zlib", 1]]))
    add("V%d" % (bs + 7), [3], "C", compress=0)
    add("<i2", [300, 500], "F", compress=0, target="path", mmap=["r", "c"])
    add("S3", [bs // 3 + 2], "C", compress=["gzip", 1])
    # F27: itemsize-0 dtypes
    for z in ZERO_ITEMSIZE:
        add(z, [3], "C", compress=0, nest="alone")
    return plan


# ----------------------------------------------------------------------------- main


def guarded(fn, case, *args):
    """An exception escaping from the implementation where the harness did not expect one is an oracle failure
    on that case (the property never allows an exception on valid input), not an infrastructure error."""
    try:
        return fn(*args)
    except Exception as e:  # noqa: BLE001
        import traceback

        tb = traceback.extract_tb(e.__traceback__)
        where = next((f"{os.path.basename(fr.filename)}:{fr.name}" for fr in reversed(tb) if "joblib" in fr.filename), "?")
        fail("unexpected-exception:" + type(e).__name__, case, dict(error=repr(e)[:200], where=where))
        return None


def main():
    mode = sys.argv[1]
    if mode == "rebuild":
        rebuild_main(sys.argv[2], sys.argv[3])
        return
    scratch, seed, tier, part = sys.argv[2], sys.argv[3], sys.argv[4], sys.argv[5]
    replay = json.load(open(sys.argv[6])) if len(sys.argv) > 6 else None
    os.makedirs(scratch, exist_ok=True)
    thorough = tier == "thorough"
    rnd = random.Random(f"C19/{seed}/{part}")
    if replay is not None:
        case = replay.get("case", {})
        kind = case.get("kind")
        if kind == "dumpload":
            case.pop("index", None)
            case.pop("mmap_mode", None)
            guarded(dump_load_case, case, case, scratch)
        elif kind == "worker-view":
            guarded(worker_view_case, case, case["view"], scratch)
        elif kind == "parallel-view":
            guarded(parallel_view_cases, case, scratch)
        else:
            guarded(parallel_cases, case, scratch, rnd, thorough)
    elif part.startswith("dump"):
        # dump<i>of<n>: shard of the dump/load plan
        i, n = (int(x) for x in part[4:].split("of"))
        plan = dump_plan(random.Random(f"C19/{seed}/plan"), 30.0 if thorough else 2.0, thorough)
        for j, case in enumerate(plan):
            if j % n == i:
                guarded(dump_load_case, case, case, os.path.join(scratch, f"s{i}"))
    elif part == "views":
        import concurrent.futures

        plan = view_plan(rnd, thorough)
        for v in plan:  # create the backing files first (the rebuild children only read them)
            guarded(make_memmap_view, dict(kind="worker-view", view=v), v, scratch)
        with concurrent.futures.ThreadPoolExecutor(max_workers=12) as ex:
            rebuilt = list(ex.map(lambda v: run_rebuild(v, scratch), plan))
        for v, r in zip(plan, rebuilt):
            guarded(worker_view_case, dict(kind="worker-view", view=v), v, scratch, r)
    elif part.startswith("parallel"):
        i, n = (int(x) for x in part[8:].split("of"))
        guarded(parallel_cases, dict(kind="parallel", shard=i), scratch, rnd, thorough, i, n)
        if i == 0:
            guarded(parallel_view_cases, dict(kind="parallel-view"), scratch)
    emit(dict(k="stats", evaluations=ST.evaluations, nontrivial=sorted(ST.nontrivial), dist=ST.dist, samples=ST.samples))
    emit(dict(k="done"))
    OUT.flush()


if __name__ == "__main__":
    main()
