"""Supporting native-thread probe for C01/C09/C04 on the real `threading` backend (OS scheduling, not a proof):
an input iterator that dwells inside `__next__` detects a second thread entering it (C09 "never from two threads at
once"), results are compared with the sequential loop and every task's execution is counted (C01).  It only ever
reports definitive evidence (re-entrancy observed, wrong result, task run twice, call not returning)."""

import threading
import time

from . import core


class _Src:
    def __init__(self, n, dwell, make):
        self.i, self.n, self.dwell, self.make = 0, n, dwell, make
        self.inside = 0
        self.reentered = 0
        self.threads = set()
        self.guard = threading.Lock()

    def __iter__(self):
        return self

    def __next__(self):
        with self.guard:
            self.inside += 1
            if self.inside > 1:
                self.reentered += 1
            self.threads.add(threading.get_ident())
        try:
            time.sleep(self.dwell)
            if self.i >= self.n:
                raise StopIteration
            k = self.i
            self.i += 1
            return self.make(k)
        finally:
            with self.guard:
                self.inside -= 1


def probe(ctx, res, props, runs, cases=None):
    joblib = core.use_repo()
    rng = ctx.rng("threads")
    counts = {}
    cl = threading.Lock()

    def task(k, fail):
        with cl:
            counts[k] = counts.get(k, 0) + 1
        if fail:
            raise ValueError(k)
        return k * 3

    for r in range(runs if cases is None else len(cases)):
        nj = rng.choice([2, 3, 4])
        pd = rng.choice([1, 2, nj, 2 * nj, "all", "2*n_jobs"])
        bs = rng.choice([1, 1, 2, "auto"])
        n = rng.choice([nj, 3 * nj + 1, 25, 40])
        ra = rng.choice(["list", "generator", "generator_unordered"])
        failing = rng.randrange(n) if rng.random() < 0.25 else None
        if cases is not None:
            c = cases[r]
            nj, pd, bs, n, ra, failing = c["n_jobs"], c["pre_dispatch"], c["batch_size"], c["n"], c["return_as"], c["failing"]
        counts.clear()
        src = _Src(n, 0.002, lambda k: joblib.delayed(task)(k, k == failing))
        case = dict(kind="native-threads", n_jobs=nj, pre_dispatch=pd, batch_size=bs, n=n, return_as=ra, failing=failing)
        box = {}

        def body():
            try:
                out = joblib.Parallel(n_jobs=nj, backend="threading", pre_dispatch=pd, batch_size=bs, return_as=ra)(src)
                box["out"] = list(out)
            except BaseException as e:  # noqa: BLE001
                box["exc"] = e

        t = threading.Thread(target=body, daemon=True)
        t.start()
        t.join(30)
        res.evaluations += 1
        res.count("native-thread-runs")
        res.nontrivial.add(("threads", nj, str(pd), str(bs), n, ra, failing))
        if t.is_alive():
            for p in ("C01", "C04"):
                if p in props:
                    res.fail("call-never-returns", case, "native threading run did not return within 30 s")
            continue
        if src.reentered and "C09" in props:
            res.fail("input-iterator-entered-concurrently", case, dict(reentered=src.reentered, threads=len(src.threads)))
        if any(v > 1 for v in counts.values()) and "C01" in props:
            res.fail("task-executed-twice", case, {k: v for k, v in counts.items() if v > 1})
        want = [k * 3 for k in range(n)]
        if failing is None:
            if "exc" in box:
                if "C01" in props:
                    res.fail("unexpected-exception:" + type(box["exc"]).__name__, case, repr(box["exc"]))
            else:
                got = box["out"]
                ok = sorted(got) == want if ra == "generator_unordered" else got == want
                if not ok and "C01" in props:
                    res.fail("wrong-results", case, dict(got=got))
        else:
            if "exc" not in box:
                if "C04" in props:
                    res.fail("failure-not-surfaced", case, dict(got=box.get("out")))
            elif not (isinstance(box["exc"], ValueError) and box["exc"].args == (failing,)) and "C04" in props:
                res.fail("wrong-exception:" + type(box["exc"]).__name__, case, repr(box["exc"]))


def process_probe(ctx, res, props, runs, cases=None):
    """C04 on the real process backends: a raising task must make the call raise (the task's own exception when it
    can be pickled), the call must terminate, and the same object must be reusable afterwards."""
    if "C04" not in props:
        return
    joblib = core.use_repo()
    from . import native_tasks as T
    rng = ctx.rng("native-process")
    combos = [(b, k) for b in ("multiprocessing", "loky") for k in ("plain", "unpicklable")]
    rng.shuffle(combos)
    import os
    saved_err = os.dup(2)
    devnull = os.open(os.devnull, os.O_WRONLY)
    os.dup2(devnull, 2)  # worker processes print the task tracebacks on the inherited stderr
    try:
        _process_probe(ctx, res, joblib, T, rng, combos, runs, cases)
    finally:
        os.dup2(saved_err, 2)
        os.close(saved_err)
        os.close(devnull)


def _process_probe(ctx, res, joblib, T, rng, combos, runs, cases):
    for r in range(runs if cases is None else len(cases)):
        backend, kind = combos[r % len(combos)]
        n = rng.choice([4, 6, 9])
        bad = rng.randrange(n)
        managed = rng.random() < 0.5
        if cases is not None:
            c = cases[r]
            backend, kind, n, bad, managed = c["backend"], c["exception"], c["n"], c["failing"], c["managed"]
        case = dict(kind="native-process", backend=backend, exception=kind, n=n, failing=bad, managed=managed)
        box = {}

        def body():
            fn = T.bad_plain if kind == "plain" else T.bad_unpicklable
            p = joblib.Parallel(n_jobs=2, backend=backend)
            if managed:
                p.__enter__()
            try:
                try:
                    box["first"] = ("returned", p(joblib.delayed(fn if i == bad else T.ok)(i) for i in range(n)))
                except BaseException as e:  # noqa: BLE001
                    box["first"] = ("raised", type(e).__name__, e.args[:1])
                try:
                    box["second"] = ("returned", p(joblib.delayed(T.ok)(i) for i in range(3)))
                except BaseException as e:  # noqa: BLE001
                    box["second"] = ("raised", type(e).__name__, e.args[:1])
            finally:
                if managed:
                    p.__exit__(None, None, None)

        t = threading.Thread(target=body, daemon=True)
        t.start()
        t.join(60)
        res.evaluations += 1
        res.count("native-process-runs")
        res.nontrivial.add(("native-process", backend, kind, n, bad, managed))
        if t.is_alive():
            res.fail("call-never-returns", case, dict(box=box, note="native process-backend run did not finish within 60 s"))
            continue
        first, second = box.get("first"), box.get("second")
        if not first or first[0] != "raised":
            res.fail("failure-not-surfaced", case, dict(first=first))
        elif kind == "plain" and first[1:] != ("ValueError", (bad,)):
            res.fail("wrong-exception:" + first[1], case, dict(first=first))
        elif kind == "unpicklable" and first[1] != "Busy":
            res.fail("unpicklable-task-exception-replaced:" + backend, case, dict(first=first))
        if second != ("returned", [0, 3, 6]):
            res.fail("not-reusable-after-failure", case, dict(second=second))


def managed_reuse_probe(ctx, res, props, runs, cases=None):
    """C01 on the real process backends with `batch_size='auto'` (round 5): SUCCESSIVE calls on one Parallel object - inside a
    `with Parallel(...)` block the loky / multiprocessing backends keep their auto-batching statistics from call to call - a
    long list first (the batch size grows), then short lists and generators: every call must return the results of ITS tasks,
    in order, whatever the earlier calls left in the backend."""
    import os
    if "C01" not in props or os.environ.get("VERIF_M1_NO_ROUND5"):
        return
    joblib = core.use_repo()
    from . import native_tasks as T
    rng = ctx.rng("native-managed-reuse")
    backends = ["loky", "multiprocessing"]
    rng.shuffle(backends)
    for r in range(runs if cases is None else len(cases)):
        backend = backends[r % 2]
        managed = rng.random() < 0.8
        nj = rng.choice([2, 2, 3])
        plan = [(rng.choice([300, 400, 600]), "list")]
        for _ in range(rng.choice([4, 6])):
            plan.append((rng.choice([1, 3, 7, 25, 30, 40]), rng.choice(["list", "list", "generator", "sized-lazy"])))
        if cases is not None:
            c = cases[r]
            backend, managed, nj, plan = c["backend"], c["managed"], c["n_jobs"], [tuple(x) for x in c["plan"]]
        case = dict(kind="native-managed-reuse", backend=backend, managed=managed, n_jobs=nj, plan=[list(x) for x in plan])
        box = {"calls": []}

        class Lazy:
            def __init__(self, n):
                self.n = n

            def __len__(self):
                return self.n

            def __iter__(self):
                return (joblib.delayed(T.ok)(i) for i in range(self.n))

        def body():
            p = joblib.Parallel(n_jobs=nj, backend=backend)
            if managed:
                p.__enter__()
            try:
                for n, kind in plan:
                    inp = ([joblib.delayed(T.ok)(i) for i in range(n)] if kind == "list" else Lazy(n) if kind == "sized-lazy"
                           else (joblib.delayed(T.ok)(i) for i in range(n)))
                    try:
                        box["calls"].append(("returned", p(inp)))
                    except BaseException as e:  # noqa: BLE001
                        box["calls"].append(("raised", type(e).__name__))
                    box["bs"] = getattr(p._backend, "_effective_batch_size", None)
            finally:
                if managed:
                    p.__exit__(None, None, None)
            box["done"] = True

        t = threading.Thread(target=body, daemon=True)
        t.start()
        t.join(240)
        res.evaluations += 1
        res.count("native-managed-reuse-runs")
        res.nontrivial.add(("native-managed-reuse", backend, managed, nj, tuple(plan)))
        if t.is_alive():
            res.fail("call-never-returns", case, dict(calls_finished=len(box["calls"]), note="did not finish within 240 s"))
            continue
        for k, ((n, kind), got) in enumerate(zip(plan, box["calls"])):
            if got[0] == "raised":
                res.fail("unexpected-exception:" + got[1], case, dict(call=k, input=kind, n=n))
                break
            if got[1] != [3 * i for i in range(n)]:
                res.fail("wrong-results:call-on-reused-object", case,
                         dict(call=k, input=kind, n=n, got_len=len(got[1]), got_head=got[1][:5], effective_batch_size_left=box.get("bs")))
                break


def legacy_backend_probe(ctx, res, props, runs):
    """C01/C04 on a backend WITHOUT retrieve-callback support (the legacy / third-party protocol of
    `ParallelBackendBase`: the caller fetches results itself through `backend.retrieve_result(job)`): submission has
    latency and completion notifications arrive on the pool's threads, a little after the result is available."""
    if not ({"C01", "C04"} & set(props)):
        return
    joblib = core.use_repo()
    from concurrent.futures import ThreadPoolExecutor
    from joblib._parallel_backends import ParallelBackendBase
    rng = ctx.rng("legacy-backend")

    class Legacy(ParallelBackendBase):
        supports_retrieve_callback = False
        uses_threads = True
        supports_sharedmem = True

        def __init__(self, nj, lat, **kw):
            super().__init__(**kw)
            self.nj, self.lat, self._pool = nj, lat, None

        def effective_n_jobs(self, n_jobs):
            return self.nj

        def configure(self, n_jobs=1, parallel=None, **kw):
            self.parallel = parallel
            self._pool = ThreadPoolExecutor(self.nj)
            return self.nj

        def submit(self, func, callback=None):
            time.sleep(self.lat)

            def done(fut):
                time.sleep(self.lat / 2)
                callback(fut)

            fut = self._pool.submit(func)
            fut.add_done_callback(done)
            return fut

        def retrieve_result(self, out, timeout=None):
            return out.result()

        def terminate(self):
            if self._pool is not None:
                self._pool.shutdown()
                self._pool = None

    counts = {}
    cl = threading.Lock()

    def task(k, fail):
        with cl:
            counts[k] = counts.get(k, 0) + 1
        if fail:
            raise ValueError(k)
        return k * 3

    for r in range(runs):
        nj = rng.choice([2, 3])
        pd = rng.choice([1, 2, "2*n_jobs", "all"])
        n = rng.choice([6, 9, 12])
        failing = rng.randrange(n) if rng.random() < 0.3 else None
        lat = rng.choice([0.01, 0.03])
        case = dict(kind="native-legacy-backend", n_jobs=nj, pre_dispatch=pd, n=n, failing=failing, latency=lat)
        counts.clear()
        box = {}

        def body():
            try:
                be = Legacy(nj, lat, nesting_level=0)
                box["out"] = joblib.Parallel(n_jobs=nj, backend=be, batch_size=1, pre_dispatch=pd)(
                    joblib.delayed(task)(k, k == failing) for k in range(n))
            except BaseException as e:  # noqa: BLE001
                box["exc"] = e

        t = threading.Thread(target=body, daemon=True)
        t.start()
        t.join(60)
        res.evaluations += 1
        res.count("native-legacy-backend-runs")
        res.nontrivial.add(("legacy", nj, str(pd), n, failing, lat))
        if t.is_alive():
            res.fail("call-never-returns", case, "legacy-protocol backend run did not return within 60 s")
            continue
        if failing is None:
            if "exc" in box:
                if "C01" in props:
                    res.fail("unexpected-exception:" + type(box["exc"]).__name__, case, repr(box["exc"]))
            elif box.get("out") != [k * 3 for k in range(n)] and "C01" in props:
                res.fail("wrong-results", case, dict(got=box.get("out")))
            if any(v > 1 for v in counts.values()) and "C01" in props:
                res.fail("task-executed-twice", case, dict(counts))
        elif "C04" in props:
            if "exc" not in box:
                res.fail("failure-not-surfaced", case, dict(got=box.get("out")))
            elif not (isinstance(box["exc"], ValueError) and box["exc"].args == (failing,)):
                res.fail("wrong-exception:" + type(box["exc"]).__name__, case, repr(box["exc"]))


BASE_EXC_KINDS = ("ValueError", "KeyboardInterrupt", "SystemExit", "Stop")


def exception_kind_probe(ctx, res, props, runs, cases=None):
    """C04 "an exception of the same type and arguments as one raised by its tasks", for task exceptions that are NOT
    `Exception` subclasses (SystemExit, KeyboardInterrupt, an application BaseException) on the real pool backends, with a
    finite timeout so that a worker that dies with the exception shows up as a wrong exception rather than a hang."""
    if "C04" not in props:
        return
    joblib = core.use_repo()
    from . import native_tasks as T
    rng = ctx.rng("native-exc-kinds")
    combos = [(b, k) for b in ("threading", "multiprocessing", "loky") for k in BASE_EXC_KINDS]
    rng.shuffle(combos)
    import os
    saved_err = os.dup(2)
    devnull = os.open(os.devnull, os.O_WRONLY)
    os.dup2(devnull, 2)
    try:
        for r in range(runs if cases is None else len(cases)):
            backend, kind = combos[r % len(combos)]
            n = rng.choice([3, 5])
            bad = rng.randrange(n)
            if cases is not None:
                c = cases[r]
                backend, kind, n, bad = c["backend"], c["exception"], c["n"], c["failing"]
            case = dict(kind="native-exc-kind", backend=backend, exception=kind, n=n, failing=bad)
            box = {}

            def body():
                try:
                    box["out"] = ("returned", joblib.Parallel(n_jobs=2, backend=backend, timeout=20)(
                        joblib.delayed(T.bad_kind)(i, kind if i == bad else "") for i in range(n)))
                except BaseException as e:  # noqa: BLE001
                    box["out"] = ("raised", type(e).__name__, e.args[:1])

            t = threading.Thread(target=body, daemon=True)
            t.start()
            t.join(90)
            res.evaluations += 1
            res.count("native-exception-kind-runs")
            res.nontrivial.add(("native-exc-kind", backend, kind, n, bad))
            if t.is_alive():
                res.fail("call-never-returns", case, "did not finish within 90 s")
                continue
            out = box.get("out")
            if not out or out[0] != "raised":
                res.fail("failure-not-surfaced", case, dict(out=out))
            elif out[1:] != (kind, (bad,)):
                res.fail("wrong-exception:" + out[1], case, dict(out=out, want=(kind, bad)))
    finally:
        os.dup2(saved_err, 2)
        os.close(saved_err)
        os.close(devnull)


def stuck_sibling_probe(ctx, res, props, runs):
    """C04 "afterwards the same Parallel object - inside or outside a with block - can be called again and returns exactly
    the results of the new tasks": real `threading` backend, the failed call leaves tasks that never complete (they block on
    an event released only at the end of the case); the next call on the same object must return its own results."""
    if "C04" not in props:
        return
    joblib = core.use_repo()
    rng = ctx.rng("native-stuck")
    for r in range(runs):
        managed = r % 3 != 1
        nj = rng.choice([2, 3])
        n = rng.choice([nj + 1, 2 * nj, 2 * nj + 2])
        pd = "all" if r == 0 else rng.choice(["2*n_jobs", "all", nj])
        case = dict(kind="native-stuck-sibling", n_jobs=nj, n=n, pre_dispatch=pd, managed=managed)
        gate = threading.Event()
        box = {}

        def first(i):
            if i == 0:
                raise ValueError(0)
            gate.wait(60)
            return -1

        def body():
            p = joblib.Parallel(n_jobs=nj, backend="threading", pre_dispatch=pd, batch_size=1, timeout=15)
            if managed:
                p.__enter__()
            try:
                try:
                    box["first"] = ("returned", p(joblib.delayed(first)(i) for i in range(n)))
                except BaseException as e:  # noqa: BLE001
                    box["first"] = ("raised", type(e).__name__, e.args[:1])
                try:
                    box["second"] = ("returned", p(joblib.delayed(lambda k: k * 3)(i) for i in range(6)))
                except BaseException as e:  # noqa: BLE001
                    box["second"] = ("raised", type(e).__name__, e.args[:1])
            finally:
                gate.set()
                if managed:
                    p.__exit__(None, None, None)

        t = threading.Thread(target=body, daemon=True)
        t.start()
        t.join(80)
        gate.set()
        res.evaluations += 1
        res.count("native-stuck-sibling-runs")
        res.nontrivial.add(("native-stuck", nj, n, str(pd), managed))
        if t.is_alive():
            res.fail("call-never-returns", case, dict(box=box))
            continue
        if box.get("first") != ("raised", "ValueError", (0,)):
            res.fail("wrong-exception:" + str((box.get("first") or ("?", "?"))[1]), case, dict(first=box.get("first")))
        if box.get("second") != ("returned", [0, 3, 6, 9, 12, 15]):
            res.fail("not-reusable-after-failure", case, dict(second=box.get("second")))


def stuck_sibling_process_probe(ctx, res, props, runs):
    """C04 on the real PROCESS backends with siblings that are still running when the call fails: "the call raises ... and
    when the caller has to wait longer than timeout ... TimeoutError is raised.  The call always terminates, and afterwards the
    same Parallel object - inside or outside a with block - can be called again".  Task 0 raises at once (or `timeout=1`
    expires) while the other dispatched tasks sleep far longer than the bound: the error must reach the caller within
    BOUND seconds - not when the slowest sibling ends - and the next call on the same object must return its own results."""
    if "C04" not in props:
        return
    joblib = core.use_repo()
    from . import native_tasks as T
    import os, time
    rng = ctx.rng("native-stuck-process")
    SLEEP, BOUND = 45.0, 20.0
    combos = [(b, m, k) for b in ("loky", "multiprocessing") for m in (True, False) for k in ("task-error", "timeout")]
    rng.shuffle(combos)
    # the managed (with-block) cases first: there the backend has to stay ready for the next call
    combos.sort(key=lambda c: not c[1])
    saved_err = os.dup(2)
    devnull = os.open(os.devnull, os.O_WRONLY)
    os.dup2(devnull, 2)
    try:
        for r in range(min(runs, len(combos))):
            backend, managed, kind = combos[r]
            nj = 2
            case = dict(kind="native-stuck-sibling-process", backend=backend, managed=managed, failure=kind, n_jobs=nj)
            box = {}

            def body():
                p = joblib.Parallel(n_jobs=nj, backend=backend, batch_size=1, timeout=1 if kind == "timeout" else 30)
                if managed:
                    p.__enter__()
                try:
                    t0 = time.monotonic()
                    try:
                        if kind == "timeout":
                            box["first"] = ("returned", p(joblib.delayed(T.sleeper)(i, SLEEP) for i in range(nj)))
                        else:
                            box["first"] = ("returned", p(joblib.delayed(T.slow_or_fail)(i, SLEEP) for i in range(nj)))
                    except BaseException as e:  # noqa: BLE001
                        box["first"] = ("raised", type(e).__name__)
                    box["first_s"] = time.monotonic() - t0
                    t1 = time.monotonic()
                    try:
                        p.timeout = 30
                        box["second"] = ("returned", p(joblib.delayed(T.ok)(i) for i in range(4)))
                    except BaseException as e:  # noqa: BLE001
                        box["second"] = ("raised", type(e).__name__)
                    box["second_s"] = time.monotonic() - t1
                finally:
                    if managed:
                        p.__exit__(None, None, None)

            t = threading.Thread(target=body, daemon=True)
            t.start()
            t.join(SLEEP + 40)
            res.evaluations += 1
            res.count("native-stuck-sibling-process-runs")
            res.nontrivial.add(("native-stuck-process", backend, managed, kind))
            if t.is_alive():
                res.fail("call-never-returns", case, dict(box=box))
                continue
            want = "TimeoutError" if kind == "timeout" else "ValueError"
            first = box.get("first")
            if not first or first[0] != "raised":
                res.fail("failure-not-surfaced", case, dict(first=first))
            elif first[1] != want:
                res.fail("wrong-exception:" + first[1], case, dict(first=first))
            elif box.get("first_s", 0) > BOUND:
                res.fail("error-waits-for-running-siblings", case,
                         dict(first=first, seconds=round(box["first_s"], 1), siblings_sleep=SLEEP, bound=BOUND))
            if box.get("second") != ("returned", [0, 3, 6, 9]):
                res.fail("not-reusable-after-failure", case, dict(second=box.get("second")))
            elif box.get("second_s", 0) > BOUND:
                res.fail("next-call-waits-for-siblings-of-the-failed-call", case,
                         dict(seconds=round(box["second_s"], 1), siblings_sleep=SLEEP, bound=BOUND))
    finally:
        os.dup2(saved_err, 2)
        os.close(saved_err)
        os.close(devnull)


def shutdown_fault_probe(ctx, res, props, runs):
    """C04 "the call always terminates, and afterwards the same Parallel object ... can be called again and returns exactly
    the results of the new tasks": the clean-up of a call is itself interrupted - the backend's `terminate()` / `stop_call()`
    raises once (an OSError while joining a pool, a KeyboardInterrupt delivered during the join).  What the interrupted call
    raises is the fault's business; the NEXT call on the same object must still be accepted and return its own results."""
    if "C04" not in props:
        return
    joblib = core.use_repo()
    from joblib._parallel_backends import ThreadingBackend
    from joblib.parallel import register_parallel_backend, BACKENDS
    rng = ctx.rng("native-shutdown-fault")
    combos = [(where, exc, fails, ra) for where in ("terminate", "stop_call") for exc in (OSError, KeyboardInterrupt)
              for fails in (True, False) for ra in ("list", "generator")]
    rng.shuffle(combos)
    combos.sort(key=lambda c: (c[0] != "terminate", not c[2]))
    for where, exc, fails, ra in combos[:runs]:
        armed = {"on": False, "fired": 0}

        class Faulty(ThreadingBackend):
            def terminate(self):
                super().terminate()
                if where == "terminate" and armed["on"]:
                    armed["on"] = False
                    armed["fired"] += 1
                    raise exc("injected fault in backend.terminate()")

            def stop_call(self):
                super().stop_call()
                if where == "stop_call" and armed["on"]:
                    armed["on"] = False
                    armed["fired"] += 1
                    raise exc("injected fault in backend.stop_call()")

        name = "verif-faulty-shutdown"
        register_parallel_backend(name, Faulty)
        case = dict(kind="native-shutdown-fault", where=where, exception=exc.__name__, first_call_fails=fails, return_as=ra)
        box = {}

        def task(i):
            if fails and i == 1:
                raise ValueError(1)
            return i * 2

        def body():
            try:
                p = joblib.Parallel(n_jobs=2, backend=name, return_as=ra)
                armed["on"] = True
                try:
                    box["first"] = ("returned", list(p(joblib.delayed(task)(i) for i in range(4))))
                except BaseException as e:  # noqa: BLE001
                    box["first"] = ("raised", type(e).__name__)
                armed["on"] = False
                try:
                    box["second"] = ("returned", list(p(joblib.delayed(lambda k: k * 3)(i) for i in range(5))))
                except BaseException as e:  # noqa: BLE001
                    box["second"] = ("raised", type(e).__name__, str(e)[:80])
            finally:
                BACKENDS.pop(name, None)

        t = threading.Thread(target=body, daemon=True)
        t.start()
        t.join(40)
        res.evaluations += 1
        res.count("native-shutdown-fault-runs")
        if armed["fired"]:
            res.nontrivial.add(("native-shutdown-fault", where, exc.__name__, fails, ra))
        if t.is_alive():
            res.fail("call-never-returns", case, dict(box=box))
            continue
        if not armed["fired"]:
            continue
        if box.get("second") != ("returned", [0, 3, 6, 9, 12]):
            res.fail("not-reusable-after-interrupted-cleanup", case, dict(first=box.get("first"), second=box.get("second")))


def startup_fault_probe(ctx, res, props, runs):
    """C04 "the call always terminates, and afterwards the same Parallel object - inside or outside a with block - can be
    called again and returns exactly the results of the new tasks": the call fails DURING ITS START-UP - an invalid
    pre_dispatch, an input that is not iterable / whose __len__ or __iter__ raises, a backend whose configure() or start_call()
    raises once.  Whatever that call raises, the next call on the same object (with the cause removed) must be accepted and
    return its own results."""
    if "C04" not in props:
        return
    joblib = core.use_repo()
    from joblib._parallel_backends import ThreadingBackend
    from joblib.parallel import register_parallel_backend, BACKENDS

    class BadLen:
        def __len__(self):
            raise OSError("injected: __len__")

        def __iter__(self):
            return iter(())

    class BadIter:
        def __iter__(self):
            raise OSError("injected: __iter__")

    causes = [("pre_dispatch", "-n_jobs"), ("pre_dispatch", "n_jobsx"), ("pre_dispatch", "n_jobs/0"), ("pre_dispatch", None),
              ("pre_dispatch", -1), ("pre_dispatch", "2**63"), ("input", 5), ("input", "BadLen"), ("input", "BadIter"),
              ("backend", "configure"), ("backend", "start_call")]
    rng = ctx.rng("native-startup-fault")
    combos = [(c, managed, nj) for c in causes for managed in (False, True) for nj in (2,)]
    combos += [(c, False, 1) for c in causes if c[0] == "input"]
    rng.shuffle(combos)
    combos.sort(key=lambda t: t[0][0])  # deterministic grouping; every cause kind is reached whatever `runs` is
    step = max(1, len(combos) // max(1, runs))
    for (kind, what), managed, nj in combos[::step][:runs] if runs < len(combos) else combos:
        armed = {"on": False, "fired": 0}

        class Faulty(ThreadingBackend):
            def configure(self, *a, **k):
                if kind == "backend" and what == "configure" and armed["on"]:
                    armed["on"] = False
                    armed["fired"] += 1
                    raise OSError("injected fault in backend.configure()")
                return super().configure(*a, **k)

            def start_call(self):
                if kind == "backend" and what == "start_call" and armed["on"]:
                    armed["on"] = False
                    armed["fired"] += 1
                    raise OSError("injected fault in backend.start_call()")
                return super().start_call()

        name = "verif-faulty-startup"
        register_parallel_backend(name, Faulty)
        case = dict(kind="native-startup-fault", cause=kind, what=repr(what), managed=managed, n_jobs=nj)
        box = {}

        def body():
            try:
                p = joblib.Parallel(n_jobs=nj, backend=name, pre_dispatch=what if kind == "pre_dispatch" else "2*n_jobs")
                if kind == "backend" and what == "configure" and managed:
                    # inside a with block configure() runs in __enter__: arm the fault for the re-configuration only
                    pass
                if managed:
                    p.__enter__()
                try:
                    armed["on"] = True
                    good = [joblib.delayed(lambda k: k + 1)(i) for i in range(4)]
                    bad_input = {5: 5, "BadLen": BadLen(), "BadIter": BadIter()}.get(what) if kind == "input" else None
                    try:
                        box["first"] = ("returned", p(bad_input if kind == "input" else good))
                    except BaseException as e:  # noqa: BLE001
                        box["first"] = ("raised", type(e).__name__)
                    armed["on"] = False
                    if kind == "pre_dispatch":
                        p.pre_dispatch = "2*n_jobs"
                    try:
                        box["second"] = ("returned", p(joblib.delayed(lambda k: k * 3)(i) for i in range(5)))
                    except BaseException as e:  # noqa: BLE001
                        box["second"] = ("raised", type(e).__name__, str(e)[:80])
                finally:
                    if managed:
                        try:
                            p.__exit__(None, None, None)
                        except BaseException:  # noqa: BLE001
                            pass
            finally:
                BACKENDS.pop(name, None)

        t = threading.Thread(target=body, daemon=True)
        t.start()
        t.join(40)
        res.evaluations += 1
        res.count("native-startup-fault-runs")
        if t.is_alive():
            res.fail("call-never-returns", case, dict(box=box))
            continue
        first = box.get("first")
        if not first or first[0] != "raised":
            res.count("native-startup-fault:first-call-did-not-fail")
            continue
        res.nontrivial.add(("native-startup-fault", kind, repr(what), managed, nj))
        if box.get("second") != ("returned", [0, 3, 6, 9, 12]):
            res.fail("not-reusable-after-failed-start", case, dict(first=first, second=box.get("second")))
    # The same on the REAL backends, for the start-up failures the public API can provoke there: whatever fails while the call is
    # being set up is what must reach the caller - the clean-up of the failed start must not replace it by an error of its own
    # (e.g. a backend that was never configured being terminated) - and the object stays usable.
    real = [("n_jobs", 0, be) for be in ("loky", "threading", "multiprocessing")] + [("pre_dispatch", "-n_jobs", "loky"), ("input", 5, "loky")]
    for kind, what, be in real:
        case = dict(kind="native-startup-fault", cause=kind, what=repr(what), backend=be)
        box = {}

        def body_real():
            p = joblib.Parallel(n_jobs=0 if kind == "n_jobs" else 2, backend=be, pre_dispatch=what if kind == "pre_dispatch" else "2*n_jobs")
            try:
                box["first"] = ("returned", p(5 if kind == "input" else (joblib.delayed(abs)(i) for i in range(3))))
            except BaseException as e:  # noqa: BLE001
                box["first"] = ("raised", type(e).__name__, type(e.__context__).__name__ if e.__context__ is not None else None)
            p.n_jobs = 2
            p.pre_dispatch = "2*n_jobs"
            try:
                box["second"] = ("returned", p(joblib.delayed(abs)(-i) for i in range(4)))
            except BaseException as e:  # noqa: BLE001
                box["second"] = ("raised", type(e).__name__, str(e)[:80])

        t = threading.Thread(target=body_real, daemon=True)
        t.start()
        t.join(60)
        res.evaluations += 1
        res.count("native-startup-fault-runs:real-backend")
        if t.is_alive():
            res.fail("call-never-returns", case, dict(box=box))
            continue
        first = box.get("first")
        expected = dict(n_jobs="ValueError", pre_dispatch="ValueError", input="TypeError")[kind]
        res.nontrivial.add(("native-startup-fault-real", kind, be))
        if not first or first[0] != "raised":
            res.fail("startup-fault-not-surfaced", case, dict(first=first))
        elif first[1] != expected and first[2] == expected:
            # the start-up error was raised, and then replaced by an error of the clean-up
            res.fail(f"startup-failure-masked-by-cleanup:{first[1]}", case, dict(first=first, expected=expected))
        if box.get("second") != ("returned", [0, 1, 2, 3]):
            res.fail("not-reusable-after-failed-start", case, dict(first=first, second=box.get("second")))
