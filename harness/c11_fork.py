"""C11 probe: FORKED writers of one cache entry ("Any number of threads and processes ... Concurrent writers of one entry
leave one complete result, never a mixture").

`python c11_fork.py '<json spec>'` (PYTHONPATH = the tree under test).  The parent process first performs a cached call
itself (so that whatever per-thread / per-process state joblib keeps about "who writes" exists before the fork), then forks
two children from its main thread; both compute and store the SAME new entry.  The interleaving is forced through pipes:

  A: computes, writes its temporary file, is parked just before it publishes it (audit event `os.rename`);
  B: computes, opens ITS temporary file for writing and is parked right after the open (before writing a byte);
  A: resumes, publishes (rename), finishes;   the parent now reads the entry as any other user would;
  B: resumes, writes, publishes, finishes;    the parent reads the entry again.

With one temporary file per writer each rename publishes a complete file.  The oracle is on behaviour only: every value
handed out (to A, to B, to the reading parent, twice) is the function's value, nobody raises, and the entry loads.  The
names of the files opened for writing by the two children are reported as well (information for the replay file).
One JSON line on stdout.
"""
import json
import os
import select
import sys
import time


def _wait(fd, what, timeout=20.0):
    r, _, _ = select.select([fd], [], [], timeout)
    if not r:
        raise TimeoutError(what)
    return os.read(fd, 1)


def main(spec):
    import warnings

    warnings.simplefilter("ignore")
    import joblib
    from joblib import Memory

    cache = spec["cache"]
    sys.path.insert(0, spec["moddir"])
    import wl_fork  # f(x) -> list of n copies of a tag; defined in a real file

    mem = Memory(cache, verbose=0, compress=spec.get("compress", False))
    cf = mem.cache(wl_fork.f)
    if spec.get("parent_writes_first", True):
        cf(1)
    arg = 7
    want = wl_fork.f(arg)
    func_id, args_id = cf.func_id, cf._get_args_id(arg)
    # pipes: a_ready (A -> B), b_opened (B -> A), a_done (A -> parent), go_b (parent -> B), res_a, res_b
    a_ready, b_opened, a_done, go_b = os.pipe(), os.pipe(), os.pipe(), os.pipe()
    res_a, res_b = os.pipe(), os.pipe()

    def child(me):
        opened = []
        state = {"parked": False}
        if me == "A":
            def hook(event, args):
                if event == "open" and isinstance(args[0], str) and args[0].startswith(cache) and "w" in str(args[1] or ""):
                    opened.append(args[0])
                if event == "os.rename" and not state["parked"] and str(args[1]).endswith("output.pkl"):
                    state["parked"] = True
                    os.write(a_ready[1], b"x")
                    try:
                        _wait(b_opened[0], "B never opened its temporary file", 15.0)
                    except TimeoutError:
                        state["inconclusive"] = "B never opened a temporary file for output.pkl"
            sys.addaudithook(hook)
        else:
            import builtins

            real_open = builtins.open

            def open_(file, mode="r", *a, **k):
                f = real_open(file, mode, *a, **k)
                if isinstance(file, str) and file.startswith(cache) and "w" in mode:
                    opened.append(file)
                    if not state["parked"] and "output.pkl" in os.path.basename(file):
                        state["parked"] = True
                        os.write(b_opened[1], b"x")
                        try:
                            _wait(go_b[0], "parent never released B", 25.0)
                        except TimeoutError:
                            state["inconclusive"] = "parent never released B"
                return f

            builtins.open = open_
            import io

            io.open = open_
            # the file-system store backend keeps its own reference to `open` (the documented `_open_item` hook of store backends)
            be = type(mem.store_backend)
            if getattr(be, "_open_item", None) is real_open:
                be._open_item = staticmethod(open_)
            try:
                _wait(a_ready[0], "A never reached its rename", 15.0)
            except TimeoutError:
                state["inconclusive"] = "A never reached the rename of output.pkl"
        out = dict(opened=opened)
        try:
            mem2 = Memory(cache, verbose=0, compress=spec.get("compress", False))
            v = mem2.cache(wl_fork.f)(arg)
            out["outcome"] = ["ok", v == want, sorted(set(map(str, v)))[:4] if isinstance(v, list) else repr(v)[:60]]
        except BaseException as e:  # noqa: BLE001
            out["outcome"] = ["raise", type(e).__name__, str(e)[:160]]
        if "inconclusive" in state:
            out["inconclusive"] = state["inconclusive"]
        out["parked"] = state["parked"]
        if me == "A":
            os.write(a_done[1], b"x")
        os.write(res_a[1] if me == "A" else res_b[1], (json.dumps(out) + "\n").encode())
        os._exit(0)

    pids = []
    for me in ("A", "B"):
        pid = os.fork()
        if pid == 0:
            try:
                child(me)
            finally:
                os._exit(1)
        pids.append(pid)

    report = dict(errors=[], reads=[])

    def read_entry(label):
        try:
            if mem.store_backend.contains_item([func_id, args_id]):
                v = mem.store_backend.load_item([func_id, args_id])
                report["reads"].append([label, "ok", v == want])
                if v != want:
                    report["errors"].append([label, "wrong-value"])
            else:
                report["reads"].append([label, "absent"])
        except BaseException as e:  # noqa: BLE001
            report["reads"].append([label, "raise", type(e).__name__, str(e)[:120]])
            report["errors"].append([label, "raise:" + type(e).__name__])

    try:
        _wait(a_done[0], "A never finished", 40.0)
        read_entry("after-A-published")
    except TimeoutError as e:
        report["inconclusive"] = str(e)
    os.write(go_b[1], b"x")

    def collect(fd, who):
        buf = b""
        t0 = time.time()
        while not buf.endswith(b"\n") and time.time() - t0 < 40:
            r, _, _ = select.select([fd], [], [], 1.0)
            if r:
                chunk = os.read(fd, 65536)
                if not chunk:
                    break
                buf += chunk
        try:
            return json.loads(buf.decode())
        except ValueError:
            report["errors"].append([who, "no-report"])
            return {}

    ra, rb = collect(res_a[0], "A"), collect(res_b[0], "B")
    for pid in pids:
        try:
            os.waitpid(pid, 0)
        except ChildProcessError:
            pass
    read_entry("after-B-published")
    for who, r in (("A", ra), ("B", rb)):
        oc = r.get("outcome")
        if oc and oc[0] == "raise":
            report["errors"].append([who, "raise:" + oc[1]])
        elif oc and not oc[1]:
            report["errors"].append([who, "wrong-value"])
        if r.get("inconclusive"):
            report.setdefault("inconclusive", r["inconclusive"])
    report["A"], report["B"] = ra, rb
    shared = sorted(set(ra.get("opened") or []) & set(rb.get("opened") or []))
    report["shared_files_opened_for_writing"] = [os.path.basename(p) for p in shared]
    print(json.dumps(report))
    return 0


if __name__ == "__main__":
    sys.exit(main(json.loads(sys.argv[1])))
