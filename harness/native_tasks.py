"""Task functions for native process-backend probes (must be importable by worker processes)."""
import threading


class Busy(Exception):
    """An application error that carries a handle that cannot be pickled."""

    def __init__(self, msg):
        super().__init__(msg)
        self.handle = threading.Lock()


def ok(k):
    return k * 3


def bad_plain(k):
    raise ValueError(k)


def bad_unpicklable(k):
    raise Busy(k)
