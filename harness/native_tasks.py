"""Task functions for native process-backend probes (must be importable by worker processes)."""
import threading


class Busy(Exception):
    """An application error that carries a handle that cannot be pickled."""

    def __init__(self, msg):
        super().__init__(msg)
        self.handle = threading.Lock()


def ok(k):
    return k * 3


def bad_plain(k):
    raise ValueError(k)


def bad_unpicklable(k):
    raise Busy(k)


class Stop(BaseException):
    """An application-defined BaseException subclass (picklable)."""


def bad_kind(k, kind):
    if kind == "ValueError":
        raise ValueError(k)
    if kind == "KeyboardInterrupt":
        raise KeyboardInterrupt(k)
    if kind == "SystemExit":
        raise SystemExit(k)
    if kind == "Stop":
        raise Stop(k)
    return k * 3


def slow_or_fail(k, seconds):
    """Task 0 fails at once; every other task is still running long after (a sibling that has not completed)."""
    import time
    if k == 0:
        raise ValueError(0)
    time.sleep(seconds)
    return -1


def sleeper(k, seconds):
    import time
    time.sleep(seconds)
    return k
