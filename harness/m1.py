"""Scenario generator, correspondence and oracles shared by C01 / C04 / C09 / C16 (model M1).

The oracles below judge the IMPLEMENTATION's event log only (they never look at the model's log).
"""

from __future__ import annotations

import random
import re

from . import core, ctl
from .core import Result
from .ctl import Call, Scenario

EXPRS = ["n_jobs", "2*n_jobs", "1.5*n_jobs", "3*n_jobs//2", "n_jobs+1", "0*n_jobs", "2**n_jobs//2", "-1+n_jobs*2"]


def _eval_pd(expr, nj):
    # independent of joblib's eval_expr: plain Python arithmetic on the literal expression
    return int(eval(expr.replace("n_jobs", str(nj)), {"__builtins__": {}}, {}))  # noqa: S307


# start-up faults (F52; lean/JoblibModel/ParallelStartup.lean). Bad `pre_dispatch` values with the class of the exception their
# resolution must raise, decided here from the documented behaviour (an arithmetic expression in n_jobs, or a number), independently
# of joblib: kind 6 = `eval_expr`/`int` raises, kind 7 = the value resolves to a negative amount and `islice` raises ValueError.
BAD_PD = {
    6: [(1, "n_jobsx"), (1, "n_jobs +"), (1, "foo"), (1, "()"), (1, "n_jobs@2"), (2, None), (3, "1/0"), (3, "2//0"),
        (3, "n_jobs%0"), (4, "1e999"), (4, "1e308*10")],
    7: [(0, "-n_jobs"), (0, -1), (0, "0-1"), (0, "1-n_jobs*2")],
}
FAULT_NAME = {1: "LenBoom", 2: "ConfigureBoom", 3: "RuntimeError:Ctl-has-no-active", 4: "StartCallBoom", 5: "IterInitBoom",
              7: "ValueError"}
PD_CLASS = {1: "ValueError", 2: "TypeError", 3: "ZeroDivisionError", 4: "OverflowError"}


def fault_name(kind, cls):
    """Name of the exception a reached start-up fault must surface as (oracle side; the model has its own table)."""
    if kind == 6:
        return PD_CLASS[cls]
    return FAULT_NAME[kind] + ("B" if cls == 1 and kind in (1, 2, 4, 5) else "")


def add_startup_faults(sc: Scenario) -> Scenario:
    """About 10 % of the calls get a start-up fault; a failed `__enter__` now and then. Uses an RNG derived from the scenario
    itself, so the scenarios drawn from the seeded stream are the same as without faults."""
    import dataclasses
    frng = random.Random("startup-fault/" + sc.line())
    calls = list(sc.calls)
    changed = False
    for i, c in enumerate(calls):
        if frng.random() >= 0.10:
            continue
        if sc.nj == 1:
            kind = frng.choice([1, 2, 3, 5, 5, 5, 4, 6])
        else:
            kind = frng.choice([1, 2, 3, 4, 5, 6, 6, 7])
        if kind == 2 and sc.managed and frng.random() < 0.8:
            kind = frng.choice([1, 3, 4, 5])  # configure is not called by a call inside a with block (kept rarely: not reached)
        cls, pd = 0, None
        if kind in (6, 7):
            cls, pd = frng.choice(BAD_PD[kind])
        elif kind in (1, 2, 4, 5) and frng.random() < 0.3:
            cls = 1
        calls[i] = dataclasses.replace(c, fault=kind, fault_cls=cls, fault_pd=pd)
        changed = True
    if changed and calls[-1].fault and frng.random() < 0.7:
        # the object must be usable afterwards: a call after the failed one
        calls.append(Call(frng.choice([1, 2, 3, 5]), cons=(() if sc.ra == 0 else tuple(frng.choice([1, 5]) for _ in range(frng.choice([0, 2]))))))
    kw = {}
    if sc.managed and frng.random() < 0.04:
        kw = dict(enter_fault=2, enter_cls=int(frng.random() < 0.3))
        calls = [dataclasses.replace(c, cons=tuple(o for o in c.cons if o != 6)) for c in calls]
        changed = True
    return dataclasses.replace(sc, calls=tuple(calls), **kw) if changed else sc


def bad_pd_table_probe(res):
    """Ties the exception CLASS the M1 start-up model is told a bad `pre_dispatch` raises (BAD_PD, an input of
    JoblibModel/ParallelStartup.lean) to the model of the resolution itself: `EvalExpr.resolvePreDispatch` (driver of C09) must
    say `raise <that class>` for every entry. Never aborts the check (a missing driver is counted, not fatal)."""
    lines, keys = [], []
    for kind, tab in BAD_PD.items():
        for cls, v in tab:
            for nj in (2, 3, 4):
                if v is None:
                    q = f"predispatch O {nj}"
                elif isinstance(v, int):
                    q = f"predispatch I {v} {nj}"
                else:
                    q = "predispatch T %s %d" % (".".join(str(ord(ch)) for ch in v), nj)
                lines.append(q)
                keys.append((kind, cls, v, nj))
    try:
        reps = core.Driver("C09").run(lines)
    except BaseException as e:  # noqa: BLE001
        res.count("bad-pre_dispatch-table-probe-skipped-" + type(e).__name__)
        return
    for (kind, cls, v, nj), rep in zip(keys, reps):
        want = "raise " + ("ValueError" if kind == 7 else PD_CLASS[cls])
        res.traces_validated += 1
        res.count("bad-pre_dispatch-table-entries")
        if rep != want:
            res.diverge("bad-pre_dispatch-class", dict(pre_dispatch=repr(v), n_jobs=nj, kind=kind), want, rep)


_GUARD = {}


def probe_start_guard():
    """Which code variant is under test: does `Parallel.__call__` clean up after a failed start-up (F52 repaired, /repo as it
    is) or not?  Behavioural: a call whose `backend.start_call` raises, then a second call on the same object."""
    import os
    key = os.environ.get("VERIF_REPO", "/repo")
    if key not in _GUARD:
        try:
            r = ctl.run_scenario(Scenario(nj=2, bs_auto=False, bs=(1,), pd=2, calls=(Call(1, fault=4), Call(1))))
            second = r.outcomes[1]
            _GUARD[key] = (not (second[0] == "raise" and second[1] == "RuntimeError"), "")
        except BaseException as e:  # noqa: BLE001 - a probe never aborts the check: fall back to the current variant
            _GUARD[key] = (True, "fallback-" + type(e).__name__)
    return _GUARD[key]


def gen_scenario(rng, focus=None, big=False) -> Scenario:
    return add_startup_faults(_gen_scenario(rng, focus, big))


def _gen_scenario(rng, focus=None, big=False) -> Scenario:
    nj = rng.choice([2, 2, 3, 4]) if rng.random() > 0.08 else 1  # 1 = the sequential path
    bs_auto = rng.random() < 0.65
    if bs_auto:
        bs = tuple(rng.choice([1, 1, 2, 2, 3, 4]) for _ in range(rng.randint(1, 6)))
    else:
        bs = (rng.choice([1, 1, 2, 3, 5]),)
    r = rng.random()
    pd_expr = ""
    if r < 0.2:
        pd_mode, pd = 1, 0
    elif r < 0.4:
        pd_mode = 2
        pd_expr = rng.choice(EXPRS if rng.random() < 0.9 else ["0*n_jobs"])
        pd = _eval_pd(pd_expr, nj)
    else:
        pd_mode = 0
        pd = rng.choice([1, 1, 2, 2, nj, 2 * nj, 2 * nj + 1, 3, 5, 7, 12] + ([0] if rng.random() < 0.15 else []))
    ra = rng.choice([0, 0, 1, 1, 2]) if focus != "gen" else rng.choice([1, 1, 2])
    timeout = -1 if rng.random() < (0.8 if focus != "timeout" else 0.2) else rng.choice([0, 1, 2, 3, 5])
    managed = rng.random() < 0.3
    ncalls = rng.choice([1, 1, 2, 2, 3])
    # a backend that does not cancel in-flight batches at abort leaves them parked: they then complete inside
    # abort_everything, between calls, or during the next call (all hook points of the schedule)
    abort_drops = rng.random() < (0.7 if ncalls == 1 else 0.5)
    bmax = max(bs)
    bounds = [0, 1, 2, max(pd - 1, 0), pd, pd + 1, bmax * nj - 1, bmax * nj, bmax * nj + 1, 10 * nj, 10 * nj + 1,
              2 * pd + 1, pd + bmax * nj, pd + bmax * nj + 1]
    calls = []
    for _ in range(ncalls):
        n = rng.choice(bounds) if rng.random() < 0.6 else rng.randint(0, 60 if big else 30)
        n = min(n, 80)
        fail = ()
        if n and rng.random() < (0.35 if focus != "fail" else 0.8):
            fail = tuple(sorted({rng.randrange(n) for _ in range(rng.choice([1, 1, 2]))}))
        iterfail = rng.randrange(n + 1) if rng.random() < (0.12 if focus != "fail" else 0.3) else -1
        cons = ()
        if ra != 0:
            k = rng.choice([0, 0, 1, 2, 4, 6])
            ops = []
            for _ in range(k):
                ops.append(rng.choice([1, 1, 1, 1, 5, 5, 4, 2, 3] + ([6, 6, 4] if managed else [])))
                if ops[-1] in (2, 3):
                    break
            cons = tuple(ops)
        calls.append(Call(n, fail, iterfail, cons))
    ns = rng.choice([0, 0, 3, 8, 15, 30, 60])
    sched = []
    style = rng.random()
    for _ in range(ns):
        if style < 0.3:
            d = 0 if rng.random() < 0.7 else 1  # mostly idle: timeouts, slow workers
        elif style < 0.6:
            d = 1  # one completion between every two caller actions (F18 pattern)
        else:
            d = rng.choice([0, 1, 1, 2, 3])
        sched.append(tuple(rng.randrange(4) for _ in range(d)))
    verbose = 0 if rng.random() < 0.6 else rng.choice([1, 5, 11, 60])
    sized = random.Random(f"sized/{nj}/{pd}/{len(sched)}/{len(calls)}/{rng.random()}").random() < 0.3
    return Scenario(sized=sized, verbose=verbose, nj=nj, bs_auto=bs_auto, bs=bs, pd_mode=pd_mode, pd=pd, pd_expr=pd_expr, ra=ra, timeout=timeout,
                    managed=managed, abort_drops=abort_drops, calls=tuple(calls), sched=tuple(sched))


def oracle_only_variant(rng, sc: Scenario) -> Scenario:
    """Adds features that the Lean model does not have (judged by the oracles only). Completions between calls, inside
    abort_everything and leaving the with-block (op 6) are ordinary, model-compared scenario features."""
    import dataclasses
    kw = {}
    kinds = rng.sample(["midpull", "probe"], rng.choice([1, 1, 2]))
    calls = list(sc.calls)
    if sc.ra != 0 and any(2 in c.cons or 3 in c.cons for c in calls) and rng.random() < 0.5:
        kw["warn_error"] = True
    if rng.random() < 0.25:
        # the same object called again while the call is still starting up
        kw["reenter"] = rng.choice(["configure", "start_call", "bs"])
        if kw["reenter"] == "configure" and sc.managed:
            kw["reenter"] = "start_call"  # inside a with block configure() runs in __enter__, outside any call
    if "midpull" in kinds and sc.ra != 0:
        k = rng.randrange(len(calls))
        c = calls[k]
        cons = [o for o in c.cons if o not in (2, 3)] or [1]
        cons.insert(rng.randrange(len(cons) + 1), 5)
        calls[k] = dataclasses.replace(c, cons=tuple(cons), fail=(), iterfail=-1)
        kw["midpull_close"] = (k, rng.choice([1, 1, 2, 3]))
        kw["sched"] = tuple(e if e else (0,) for e in (sc.sched or ((0,),) * 6))
    if "probe" in kinds and sum(c.n for c in calls) <= 40:
        kw["probe_wait"] = True
    out = dataclasses.replace(sc, calls=tuple(calls), **kw)
    return out if out.oracle_only() else dataclasses.replace(out, probe_wait=True)


def insub_variant(rng, sc: Scenario) -> Scenario:
    """Round 5 (oracle-only): completion callbacks delivered INSIDE `backend.submit`, re-entrantly, while the dispatching thread
    (the caller in `_start`, or a completion callback in `dispatch_next`) is inside `Parallel._dispatch` and holds the lock: the
    batch being submitted itself (future already done when the callback is attached), or batches submitted earlier.  Every
    statement order inside `_dispatch` (counters, tracker registration, `_jobs.append`, `submit`) becomes observable; half of
    the scenarios also evaluate the caller's unlocked wait predicate at every bytecode of the callbacks (`probe_wait`)."""
    import dataclasses
    total = sum(c.n for c in sc.calls)
    nsub = max(1, min(total, 40))
    style = rng.random()
    k0 = 0
    if style < 0.3:
        p, hows = 0.5, [-1]  # some batches are done before their callback is attached, the others stay in flight
    elif style < 0.6:
        p, hows, k0 = 1.0, [-1], rng.randrange(nsub)  # every batch from the k0-th submit on (the earlier ones stay in flight)
    elif style < 0.75:
        p, hows = 0.15, [-1, -1, -1, 0, 1, -2]
    elif style < 0.85:
        p, hows = 1.0, [-1]  # an immediate backend: every batch completes inside its own submit
    else:
        p, hows = 0.5, [-1, -1, 0, 1, -2]
    ins = []
    for k in range(k0, nsub):
        if rng.random() < p:
            ins.append((k, rng.choice(hows)))
    if not ins:
        ins = [(rng.randrange(nsub), -1)]
    kw = dict(insub=tuple(ins))
    if total <= 40 and rng.random() < 0.75:
        kw["probe_wait"] = True
    if sc.pd_mode != 1 and sc.pd == 0:
        kw["pd"] = 1  # pre_dispatch 0 is finding F11, not the subject here
        if sc.pd_mode == 2:
            kw["pd_mode"] = 0
    return dataclasses.replace(sc, **kw)


def reconf_variant(rng, sc: Scenario) -> Scenario:
    """Round 5 (model-compared: lean/JoblibModel/ParallelReconf.lean): ONE Parallel object whose configuration changes BETWEEN
    calls through the public surface - `p.n_jobs` (and the worker count the backend answers: an elastic backend), `p.pre_dispatch`
    (often the SAME expression text evaluated with another n_jobs), `p.batch_size`, `p.timeout`.  Every oracle judges a call
    with the configuration of THAT call."""
    import dataclasses
    base = sc if sc.nj >= 2 else dataclasses.replace(sc, nj=2)
    calls = [dataclasses.replace(c, cons=tuple(o for o in c.cons)) for c in base.calls]
    while len(calls) < 2 or (len(calls) < 4 and rng.random() < 0.3):
        calls.append(Call(rng.choice([3, 9, 20, 30]), cons=(() if base.ra == 0 else tuple(rng.choice([1, 5]) for _ in range(rng.choice([0, 2]))))))
    same_expr = rng.choice([e for e in EXPRS if e != "0*n_jobs"]) if rng.random() < 0.7 else None
    shrink = rng.random() < 0.5
    njs = sorted((rng.choice([2, 3, 4, 8]) for _ in calls), reverse=True) if shrink else [rng.choice([2, 2, 3, 4, 8]) for _ in calls]
    out = []
    for i, c in enumerate(calls):
        nj = njs[i]
        r = rng.random()
        if same_expr is not None and r < 0.8:
            pd_mode, expr = 2, same_expr
        elif r < 0.5:
            pd_mode, expr = 2, rng.choice([e for e in EXPRS if e != "0*n_jobs"])
        elif r < 0.6:
            pd_mode, expr = 1, ""
        else:
            pd_mode, expr = 0, ""
        pd = _eval_pd(expr, nj) if pd_mode == 2 else (0 if pd_mode == 1 else rng.choice([1, 2, nj, 2 * nj, 3, 5]))
        if pd_mode == 2 and pd < 1:
            pd_mode, expr, pd = 0, "", 1
        if rng.random() < 0.5:
            auto, bs = base.bs_auto, base.bs
        elif rng.random() < 0.5:
            auto, bs = True, tuple(rng.choice([1, 1, 2, 3]) for _ in range(rng.randint(1, 4)))
        else:
            auto, bs = False, (rng.choice([1, 1, 2, 3]),)
        to = base.timeout if rng.random() < 0.7 else rng.choice([-1, -1, 1, 3, 5])
        n = c.n
        if i >= 1 and rng.random() < 0.6:
            n = rng.choice([2 * njs[0] + 3, 20, 30, 40])  # more tasks than the look-ahead of any earlier configuration
        fail = tuple(f for f in c.fail if f < n)
        out.append(dataclasses.replace(c, n=n, fail=fail, iterfail=(c.iterfail if c.iterfail <= n else -1),
                                       reconf=(nj, auto, tuple(bs), pd_mode, pd, expr, to)))
    return dataclasses.replace(base, calls=tuple(out), instr=(), midpull_close=(), probe_wait=False, reenter="", warn_error=False)


def real_ab_variant(rng, sc: Scenario) -> Scenario:
    """Round 5 (oracle-only): the batch sizes are not scripted but computed by the REAL `AutoBatchingMixin` attached to the real
    `Parallel` object (it can read `n_tasks`, `n_dispatched_tasks`, the number of workers ...), over SEVERAL calls of one object —
    managed (`with Parallel(...)`: the statistics survive from call to call) or not (reset by `terminate()`), sized and unsized
    inputs, batch durations on either side of the 0.2 s / 2 s thresholds (fake clock in microseconds)."""
    import dataclasses
    nj = sc.nj if sc.nj > 1 else 2
    ncalls = rng.choice([2, 3, 3, 4, 5])
    calls = []
    for i in range(ncalls):
        n = rng.choice([0, 1, 2, 3, 5, 8, 13, 24, 30, 40, 60, rng.randint(1, 60)])
        if i == 0 and rng.random() < 0.6:
            n = rng.choice([24, 40, 60, 80])  # a long first call: the batch size grows
        fail = (rng.randrange(n),) if n and rng.random() < 0.08 else ()
        cons = () if sc.ra == 0 else tuple(rng.choice([1, 1, 5]) for _ in range(rng.choice([0, 0, 2, 4])))
        calls.append(Call(n, fail, -1, cons))
    pd_mode, pd = sc.pd_mode, sc.pd
    if pd_mode != 1 and pd == 0:
        pd_mode, pd = 0, rng.choice([1, 2, nj, 2 * nj])
    return dataclasses.replace(
        sc, nj=nj, bs_auto=True, bs=(1,), timeout=-1, pd_mode=pd_mode, pd=pd, calls=tuple(calls),
        managed=rng.random() < 0.65, sized=rng.random() < 0.6, abort_drops=True, verbose=rng.choice([0, 0, 0, 11]),
        real_ab=True, ab_tick_us=rng.choice([0, 0, 1000, 50_000, 150_000, 700_000, 2_500_000]),
        ab_eps_us=rng.choice([1, 100, 100, 5_000, 30_000]),
        instr=(), midpull_close=(), probe_wait=False, reenter="", warn_error=False, enter_fault=0, enter_cls=0)


def ab_line(sc, ops):
    """The recorded operations on the real mixin as a request to the Lean model of the mixin (JoblibModel/AutoBatch.lean) ->
    (line, expected reply, fragile).  `fragile`: a comparison or an `int()` of the float computation sits within 1e-6 of a
    boundary of the exact (rational) one - such sequences are not compared."""
    from fractions import Fraction
    toks, outs = ["AB"], []
    eff, dur, fragile = 1, Fraction(0), False
    for i, op in enumerate(ops):
        if op[0] == "c":
            v = op[1]
            if dur > 0:
                for thr in (Fraction(1, 5), Fraction(2)):
                    if abs(dur - thr) < Fraction(1, 10**6):
                        fragile = True
                q = Fraction(eff, 5) / dur
                # `int(old * 0.2 / duration)` decides only in the "too slow" branch (in the "too fast" one it is >= old, and
                # `min(2 * old, 2 * ideal)` is `2 * old` whatever the rounding)
                if dur > 2 and abs(q - round(q)) < Fraction(1, 10**6):
                    fragile = True
            toks.append("c")
            outs.append(v)
            if v != eff:
                dur = Fraction(0)
            eff = v
        elif op[0] == "d":
            toks += ["d", str(op[1]), str(op[2]), "1000000"]
            if op[1] == eff:
                d = Fraction(op[2], 10**6)
                dur = d if dur == 0 else Fraction(4, 5) * dur + Fraction(1, 5) * d
                if op[2] == 0:
                    fragile = True
        elif op[0] == "r":
            toks.append("r")
            eff, dur = 1, Fraction(0)
        elif op[0] == "n":
            nxt = next((o for o in ops[i + 1:] if o[0] in ("c", "n")), None)
            nt = nxt[2] if nxt is not None and nxt[0] == "c" and nxt[2] is not None else -1
            toks += ["n", str(nt), "0", str(sc.nj)]
    return " ".join(toks), " ".join(map(str, outs)), fragile


# ------------------------------------------------------------------ oracles on the implementation's log


def split_calls(log):
    """-> list of (call_no, events) ; events before the first call / after the last go to call -1."""
    out, cur, no = [], [], -1
    for e in log:
        m = re.fullmatch(r"call (\d+)", e)
        if m:
            out.append((no, cur))
            cur, no = [], int(m.group(1))
        else:
            cur.append(e)
    out.append((no, cur))
    return out


def ids_of(e):
    body = e.split(" ", 1)[1] if " " in e else ""
    body = body.replace(" @cb", "")
    return [int(x) for x in body.split(",") if x.strip().lstrip("-").isdigit()]


def stale_window_call(sc, log):
    """First call during whose window between `_reset_run_tracking` and the new call id (observable as the span
    `call k` .. `start_call`) a completion of a batch was delivered (finding F17); None if there is none."""
    cno, in_window = None, False
    for e in log:
        m = re.fullmatch(r"call (\d+)", e)
        if m:
            cno, in_window = int(m.group(1)), True
        elif e == "start_call":
            in_window = False
        elif in_window and e.startswith("complete"):
            return cno
    return None


def reenter_oracle(sc, run):
    """C16 "calling the object again during an unfinished run raises RuntimeError instead of mixing the two runs" - also while
    the unfinished run is still in its start-up (inside backend.configure / start_call / the first compute_batch_size)."""
    if sc.reenter and run.reenter_result is not None and run.reenter_result[0] != "rejected":
        return [("C16", "overlapping-call-accepted:during-start-up", dict(where=sc.reenter, got=run.reenter_result))]
    return []


def oracle(sc: Scenario, run: ctl.Run, props):
    """Returns list of (property, signature, detail)."""
    bad = []
    log = run.log
    stale_from = stale_window_call(sc, log)
    if "hang" in log:
        pre = ""
        for p in ("C01", "C04", "C16"):
            bad.append((p, pre + "call-never-returns", "hang"))
        return [b for b in bad if b[0] in props]
    # exactly once (global): no task executed twice
    for tid, n in run.exec_count.items():
        if n > 1:
            bad.append(("C01", "task-executed-twice", tid))
    base = 0
    per_call = dict(split_calls(log))
    bmax = max(sc.bs)
    for cno, call in enumerate(sc.calls):
        scc = sc.for_call(cno)  # the configuration in force during THIS call (per-call `reconf`)
        bmax = max(scc.bs)
        evs = per_call.get(cno, [])
        n_bad_before = len(bad)
        ids = list(range(base, base + call.n))
        failing = [base + p for p in call.fail]
        iterfail_id = base + call.iterfail if call.iterfail >= 0 else None
        effective = ids if iterfail_id is None else ids[: call.iterfail]
        base += call.n
        term = [e for e in evs if e == "stop" or e.startswith(("ret", "raise", "closed", "dropped"))]  # not `stop_call`
        final = term[-1] if term else None
        yields = [int(e.split()[1]) for e in evs if e.startswith("yield ")]
        if final is None:
            bad.append(("C01", "call-without-outcome", cno))
            continue
        got = ids_of(final) if final.startswith("ret") else yields
        raised = final[6:] if final.startswith("raise ") else None
        fname = fault_name(call.fault, call.fault_cls) if call.fault else None
        # is the statement the fault breaks certainly executed by this call? (kind 2: only when the call configures the backend
        # itself; n_jobs == 1: start_call / pre_dispatch / islice are not used; `iter` may never be reached if the consumer
        # closes the generator first)
        # (a `configure` AFTER the call's own start belongs to a re-call made by the consumer - e.g. after it left the with
        # block while the generator was alive -, not to this call: found as a false alarm of the thorough tier)
        own_start = [e for e in evs[:([i for i, e in enumerate(evs) if e in ("start_call",) or e.startswith("pull ")] + [len(evs)])[0]]]
        fault_sure = bool(call.fault) and (call.fault in (1, 3) or (call.fault == 2 and "configure" in own_start)
                                           or (scc.nj > 1 and call.fault in (4, 5, 6, 7)))
        clean = not failing and iterfail_id is None and (fname is None or raised != fname) and not fault_sure
        # was the call cut short by the consumer?
        cut = final in ("closed", "dropped") or 6 in call.cons or "exit" in evs
        recalled_ok = any(e == "recall-ok" for e in evs)
        pre = ""  # (before fix 1724bf3 this carried the F17 window label, see corpus/m1)
        foreign = [v for v in got if v not in set(ids)]
        if raised is not None:
            m = re.search(r"Boom\((\d+)\)", raised)
            if m and int(m.group(1)) not in set(ids) | {iterfail_id}:
                foreign.append(int(m.group(1)))
        if foreign and cno > 0:
            for p_ in ("C01", "C04", "C16"):
                bad.append((p_, pre + "leftover-from-earlier-call", dict(call=cno, got=got, raised=raised, want=ids)))
            continue
        if raised == "RuntimeError":
            # the previous generator-mode call was abandoned while running
            bad.append(("C16", "reusable-after-abandon:RuntimeError", cno))
            bad.append(("C04", "reusable-after-failure:RuntimeError", cno))
            continue
        timeouts_possible = scc.timeout >= 0
        abandoned_block = 6 in call.cons or "exit" in evs  # the consumer left the with-block with the generator alive
        if fname is not None and raised == fname:
            # ---- C04 / F52: a call that failed while starting up
            if any(e.startswith(("pull", "submit", "exec", "complete")) and
                   (e.startswith("pull-raise") or set(ids_of(e)) & set(ids)) for e in evs):
                bad.append(("C04", "failed-start:tasks-dispatched", dict(call=cno, fault=call.fault)))
            if scc.nj > 1 or call.fault == 3:
                if "start_call" in evs and call.fault != 4 and "stop_call" not in evs[evs.index("start_call"):]:
                    bad.append(("C04", "failed-start:backend-call-left-open", dict(call=cno, fault=call.fault)))
                if "configure" in evs and call.fault != 2 and "terminate" not in evs[evs.index("configure"):]:
                    bad.append(("C04", "failed-start:backend-not-terminated", dict(call=cno, fault=call.fault)))
        elif fault_sure:
            bad.append(("C04", "startup-fault-not-surfaced", dict(call=cno, fault=call.fault, want=fname, got=final)))
        elif abandoned_block:
            pass
        elif raised is None and not cut:
            # normal completion: values and exactly-once
            may_fail = [f for f in failing if f in effective]
            if may_fail or iterfail_id is not None:
                sig = "failure-not-surfaced"
                if scc.pd_mode != 1 and scc.pd == 0:
                    sig = "pre_dispatch-zero-drops-tasks"
                elif iterfail_id is not None and not any(run.exec_count.get(f) for f in may_fail):
                    sig = "iterator-error-swallowed"
                bad.append(("C04", pre + sig, dict(call=cno, got=got)))
            else:
                if sc.ra == 2:
                    okv = sorted(got) == ids
                else:
                    okv = got == ids
                if not okv:
                    sig = "wrong-results"
                    if scc.pd_mode != 1 and scc.pd == 0 and not got:
                        sig = "pre_dispatch-zero-drops-tasks"
                    bad.append(("C01", pre + sig, dict(call=cno, got=got, want=ids)))
                for t in ids:
                    if okv and run.exec_count.get(t, 0) != 1:
                        bad.append(("C01", "task-not-executed-once", t))
        elif raised is not None:
            allowed = {f"TaskBoom({f})" for f in failing}
            if iterfail_id is not None:
                allowed.add(f"IterBoom({iterfail_id})")
            if timeouts_possible:
                allowed.add("TimeoutError")
            if sc.warn_error:
                allowed.add("UserWarning")  # the escalated early-exit warning of an abandoned generator
            if fname is not None:
                allowed.add(fname)
            if raised not in allowed:
                if clean:
                    bad.append(("C01", "unexpected-exception:" + re.sub(r"\d+", "N", raised), dict(call=cno, raised=raised)))
                    if sc.ra != 0:
                        bad.append(("C16", "unexpected-exception:" + re.sub(r"\d+", "N", raised), dict(call=cno, raised=raised)))
                bad.append(("C04", pre + "wrong-exception:" + re.sub(r"\d+", "N", raised), dict(call=cno, raised=raised, allowed=sorted(allowed))))
            # partial results delivered before the failure must still be right (generator modes)
        if sc.ra == 1 and yields != ids[: len(yields)]:
            bad.append(("C16", "ordered-generator-out-of-order", dict(call=cno, yields=yields)))
        if sc.ra == 2 and scc.nj > 1:
            # completion order, each exactly once
            comp = []
            for e in evs:
                if e.startswith("complete"):
                    comp += ids_of(e)
            if len(set(yields)) != len(yields):
                bad.append(("C16", "unordered-duplicate", dict(call=cno, yields=yields)))
            ci = [x for x in comp if x in set(yields)]
            if ci != yields and raised is None and not recalled_ok:
                bad.append(("C16", "unordered-not-completion-order", dict(call=cno, yields=yields, completions=comp)))
        # ---- C04 timeout: no completion at all for more than `timeout` ticks while the caller waits for a batch of this call
        if scc.timeout >= 0 and run.max_idle_with_parked.get(cno, 0) >= scc.timeout + 2 and raised is None and not cut:
            bad.append(("C04", "timeout-not-raised", dict(call=cno, idle_ticks=run.max_idle_with_parked.get(cno), timeout=scc.timeout)))
        # ---- C04 timeout, the converse: TimeoutError only when the caller really waited longer than `timeout` for ONE result
        # (ordered modes: the batch at the head of the queue; the fake clock advances by one tick per sleep of the retrieval loop)
        if (raised == "TimeoutError" and scc.timeout >= 0 and sc.ra in (0, 1) and scc.nj > 1
                and run.max_wait_same_head.get(cno, 0) < scc.timeout):
            bad.append(("C04", "timeout-raised-without-waiting-that-long-for-one-result",
                        dict(call=cno, timeout=scc.timeout, longest_wait_for_one_result=run.max_wait_same_head.get(cno, 0))))
        # ---- C01: what the caller would have seen had it evaluated its wait predicate in the middle of a callback
        if clean and not cut:
            idset = set(ids)
            for (pos, c_, where, off) in run.early_exit_seen:
                if c_ != cno:
                    continue
                later = [e for e in log[pos:] if e.startswith("exec ") and int(e.split()[1]) in idset]
                if later:
                    bad.append(("C01", "retrieval-loop-can-exit-before-all-tasks-completed",
                                dict(call=cno, at=f"{where}+{off}", tasks_still_to_run=len(later))))
                    break
        # ---- C09 look-ahead
        if scc.nj == 1:
            # sequential path: lazy — items taken exceed tasks executed by at most one (re-)batch
            pulled = executed = 0
            over = False
            for e in evs:
                if e.startswith("pull "):
                    pulled += 1
                    if over:
                        bad.append(("C09", "pull-after-failure", dict(call=cno, ev=e)))
                        over = False
                elif e.startswith("exec "):
                    executed += 1
                    if int(e.split()[1]) in failing:
                        over = True
                elif e in ("closed", "dropped"):
                    over = True
                if pulled - executed > bmax:
                    bad.append(("C09", "sequential-lookahead-exceeds-batch", dict(call=cno, pulled=pulled, executed=executed)))
                    break
        elif scc.pd_mode == 1:
            first_out = next((i for i, e in enumerate(evs) if e.startswith(("yield", "ret", "stop"))), len(evs))
            for i, e in enumerate(evs):
                if e.startswith("pull") and (" @cb" in e or i > first_out):
                    bad.append(("C09", "all-not-eager", dict(call=cno, ev=e)))
                    break
        else:
            pulled = completed = 0
            c_during_start = 0
            max_la = 0
            fail_seen = closed_seen = abort_seen = False
            parked = 0
            max_parked = 0
            # `_start` is over at the latest when the caller first sleeps in the retrieval loop (or pulls results)
            call_off = log.index(f"call {cno}") + 1 if f"call {cno}" in log else 0
            start_end = run.first_sleep_at.get(cno, 10**9) - call_off
            idset = set(ids)
            for i, e in enumerate(evs):
                if e == "next":
                    start_end = min(start_end, i)
                if e.startswith("pull ") or e.startswith("pull-raise"):
                    if e.startswith("pull "):
                        pulled += 1
                    if fail_seen or closed_seen or abort_seen:
                        j = i
                        while j > 0 and evs[j - 1].startswith("pull") and evs[j - 1].endswith("@cb"):
                            j -= 1
                        if "close-during-pull" in evs[:i] and evs[j - 1] == "closed":
                            sig = "pull-after-close-within-running-slice"
                        elif fail_seen:
                            sig = "pull-after-failure"
                        else:
                            sig = "pull-after-close"
                        bad.append(("C09", sig, dict(call=cno, ev=e)))
                        fail_seen = closed_seen = abort_seen = False
                elif e.startswith("submit"):
                    parked += 1
                    max_parked = max(max_parked, parked)
                elif e.startswith("complete"):
                    mine = [t for t in ids_of(e) if t in idset]
                    if mine:
                        parked -= 1
                        if i < start_end:
                            c_during_start += 1
                        if any(t in failing for t in mine):
                            # its callback registers the failure: from the end of this delivery on, no item may be taken
                            fail_seen = True
                        else:
                            completed += len(mine)
                elif e in ("closed", "dropped"):
                    closed_seen = True
                elif e.startswith("abort"):
                    abort_seen = True
                max_la = max(max_la, pulled - completed)
            n_start_batches = sum(1 for e in evs if e.startswith("submit") and " @cb" not in e)
            if c_during_start == 0 and n_start_batches and max_parked > n_start_batches:
                bad.append(("C09", "in-flight-exceeds-predispatched", dict(call=cno, max_in_flight=max_parked, predispatched=n_start_batches)))
            strict = (scc.pd + scc.nj) * bmax
            partial = scc.pd + scc.nj * bmax * (1 + c_during_start) + scc.nj * bmax
            if max_la > strict:
                if c_during_start > 0 and max_la <= max(partial, strict):
                    bad.append(("C09", "lookahead-grows-with-completions-during-predispatch",
                                dict(call=cno, max_lookahead=max_la, strict=strict, completions_during_start=c_during_start)))
                else:
                    bad.append(("C09", pre + "lookahead-exceeds-bound", dict(call=cno, max_lookahead=max_la, strict=strict, partial=partial)))
        # ---- C16 close stops dispatch
        if cut and any(e in ("closed", "dropped") for e in evs):
            idx = max(i for i, e in enumerate(evs) if e in ("closed", "dropped"))
            if any(e.startswith("submit") for e in evs[idx + 1:]):
                bad.append(("C16", "dispatch-after-close", cno))
        # ---- C16 recall while running must raise RuntimeError
        for i, e in enumerate(evs):
            if e == "recall-ok":
                done_before = set()
                for e2 in evs[:i]:
                    if e2.startswith("complete"):
                        done_before |= set(ids_of(e2))
                # the run is over once every task completed, or once the generator ran its clean-up after an abort
                aborts = [j for j, e2 in enumerate(evs[:i]) if e2.startswith("abort")]
                finalized = bool(aborts) and any(e2 in ("next", "closed", "dropped") for e2 in evs[aborts[-1]:i])
                if not set(effective) <= done_before and not finalized:
                    bad.append(("C16", "overlapping-call-accepted", dict(call=cno)))
        # everything observed from the first stale-window call on is attributed to that window (finding F17)
        if False and stale_from is not None and cno >= stale_from:
            for i in range(n_bad_before, len(bad)):
                p_, sg, d_ = bad[i]
                if not sg.startswith("stale-completion-before-new-call-id:"):
                    bad[i] = (p_, "stale-completion-before-new-call-id:" + sg, d_)
    if run.reentered:
        bad.append(("C09", "input-iterator-entered-concurrently", ""))
    return [b for b in bad if b[0] in props]


def real_ab_checks(sc, run, res, pending):
    """`real_ab` scenarios: (oracle) the backend contract M1 assumes - every value the real `compute_batch_size()` returned to
    the real Parallel object is >= 1, in every call; (correspondence) the values equal what the Lean model of the mixin computes
    from the recorded (batch size, duration) history alone."""
    bad = []
    comp = [o for o in run.ab_ops if o[0] == "c"]
    res.count("real-autobatch-computes", len(comp))
    if any(o[1] != 1 for o in comp):
        res.nontrivial.add(("real-ab", sc.line(), sc.ab_tick_us, sc.ab_eps_us, sc.sized))
    below = [o for o in comp if not (isinstance(o[1], int) and o[1] >= 1)]
    if below:
        o = below[0]
        bad.append(("C01", "backend-contract:auto-batch-size-below-one",
                    dict(returned=o[1], n_tasks=o[2], n_dispatched_tasks=o[3], n_workers=o[4], managed=sc.managed)))
    line, want, fragile = ab_line(sc, run.ab_ops)
    if fragile:
        res.count("real-autobatch-skipped-float-boundary")
        return bad
    pending.append((line, want, sc, [list(o) for o in run.ab_ops][:60]))
    return bad


def real_ab_compare(res, pending, driver_prop):
    if not pending:
        return
    try:
        reps = core.Driver(driver_prop).run([p[0] for p in pending])
    except core.InfraError:
        raise
    for (line, want, sc, ops), rep in zip(pending, reps):
        res.traces_validated += 1
        if rep != want:
            res.diverge("auto-batch-sizes-on-parallel", sc.to_json(), dict(impl=want, ops=ops), dict(model=rep))


def promptness_oracle(sc, run):
    """C16: with return_as='generator', a `next()` issued when the next result's batch has already completed
    yields it without waiting for any further completion."""
    bad = []
    if sc.nj == 1 and sc.ra in (1, 2):
        # sequential path (n_jobs == 1): a task's result is available as soon as the task has run; it must be handed to
        # the consumer before any LATER task is executed ("without waiting for later tasks")
        failing, b0 = set(), 0
        for c in sc.calls:
            failing |= {b0 + p for p in c.fail}
            b0 += c.n
        pending = None
        for e in run.log:
            if e.startswith("exec "):
                k = int(e.split()[1])
                if pending is not None:
                    bad.append(("C16", "result-not-prompt:sequential", dict(result=pending, waited_for=e)))
                    break
                pending = None if k in failing else k
            elif e.startswith("yield ") or e.startswith(("call ", "raise", "stop", "closed", "dropped")):
                pending = None
        return bad
    if sc.ra != 1:
        return bad
    done = set()
    expect = 0
    in_next = False
    ready_at_next = False
    base = 0
    failing, b0 = set(), 0
    failed = False
    for c in sc.calls:
        failing |= {b0 + p for p in c.fail}
        b0 += c.n
    for e in run.log:
        if (e.startswith("exec ") and int(e.split()[1]) in failing) or e.startswith("pull-raise"):
            ready_at_next = False
            failed = True  # a failure is being surfaced (C04): promptness no longer applies to this call
            expect = -1
        if e.startswith("call "):
            k = int(e.split()[1])
            base = sum(c.n for c in sc.calls[:k])
            expect = base
            in_next = False
            failed = False
        elif e == "next":
            in_next = True
            ready_at_next = expect in done
        elif e.startswith("complete"):
            if in_next and ready_at_next:
                bad.append(("C16", "result-not-prompt", dict(result=expect, waited_for=e)))
                ready_at_next = False
            done |= set(ids_of(e))
        elif e.startswith("yield "):
            # results of batches completed BEFORE the failure may still be yielded; they do not re-arm the oracle
            expect = -1 if failed else int(e.split()[1]) + 1
            in_next = False
        elif e.startswith(("raise", "stop", "closed", "dropped")):
            in_next = False
    return bad


# ------------------------------------------------------------------ runner


def explore(ctx, props, n, salt, focus=None, scenarios=None, driver_prop=None):
    res = Result()
    res.rule = ("scenarios = (n_jobs 2..4, scripted auto / fixed batch size, pre_dispatch int|'all'|expression, return_as, "
                "timeout, managed, abort policy) x 1..3 calls on one Parallel object (task counts boundary-biased around "
                "pre_dispatch, batch*n_jobs, 10*n_jobs; failing tasks; failing iterator step; consumer ops) x schedule "
                "(completions delivered at hook points); non-trivial = at least one task and one completion delivered out of "
                "the default order or a failure/consumer op/second call; distinct by the scenario's integer encoding")
    rng = ctx.rng(salt)
    if scenarios is not None:
        scs = scenarios
    else:
        scs = []
        for _ in range(n):
            sc = gen_scenario(rng, focus, big=ctx.thorough)
            if rng.random() < 0.3:
                sc = oracle_only_variant(rng, sc)
            scs.append(sc)
        import os
        if not os.environ.get("VERIF_M1_NO_ROUND5"):
            # round 5: the configuration of the object changes between calls (model-compared), own stream
            rngc = ctx.rng(f"{salt}/reconf")
            for _ in range(max(1, n // 12)):
                scs.append(reconf_variant(rngc, gen_scenario(rngc, focus, big=ctx.thorough)))
        if "C01" in props and not os.environ.get("VERIF_M1_NO_ROUND5"):
            # round 5: two more oracle-only scenario kinds, drawn from their own stream (the scenarios above are unchanged)
            rng5 = ctx.rng(f"{salt}/round5")
            for _ in range(max(1, n // 10)):
                scs.append(insub_variant(rng5, _gen_scenario(rng5, focus, big=ctx.thorough)))
            for _ in range(max(1, n // 12)):
                scs.append(real_ab_variant(rng5, _gen_scenario(rng5, focus, big=ctx.thorough)))
    import dataclasses
    guard, note = probe_start_guard()
    res.count("startGuard=%d" % guard)
    if note:
        res.count("startGuard-probe-" + note)
    scs = [sc if sc.start_guard == guard else dataclasses.replace(sc, start_guard=guard) for sc in scs]
    runs = []
    for sc in scs:
        try:
            r = ctl.run_scenario(sc)
            err = None
        except Exception as e:  # noqa: BLE001  (the harness itself must not crash the check)
            r, err = None, f"{type(e).__name__}: {e}"
        runs.append((r, err))
    comparable = [sc for sc in scs if not sc.oracle_only()]
    reps = iter(core.Driver(driver_prop or ctx.prop).run([sc.line() for sc in comparable]))
    replies = [None if sc.oracle_only() else next(reps) for sc in scs]
    ab_pending = []
    for sc, (r, err), rep in zip(scs, runs, replies):
        res.evaluations += 1
        case = sc.to_json()
        if err is not None:
            res.fail("harness-run-crashed:" + err.split(":")[0], case, err)
            continue
        line = " | ".join(r.log)
        if rep is None:
            res.count("oracle-only-scenarios")
        else:
            res.traces_validated += 1
        res.count(f"ra={sc.ra}")
        res.count("pd=" + ("all" if sc.pd_mode == 1 else "expr" if sc.pd_mode == 2 else "int"))
        res.count("calls=%d" % len(sc.calls))
        res.count("bs=" + ("auto" if sc.bs_auto else "fixed"))
        if sc.has_reconf():
            res.count("reconfigured-between-calls-scenarios")
            if len({c.reconf[0] for c in sc.calls}) > 1:
                res.count("reconfigured:n_jobs-changes")
        for c_ in sc.calls:
            if c_.fault:
                res.count("startup-fault=%d" % c_.fault)
        if sc.enter_fault:
            res.count("startup-fault=enter")
        for e in r.log:
            k = e.split(" ")[0]
            if k in ("raise", "hang", "closed", "dropped", "recall-RuntimeError", "recall-ok", "abort"):
                res.count("ev:" + (e if k == "raise" and "Boom" not in e else k))
        nontriv = any(c.n for c in sc.calls) and (len(sc.calls) > 1 or any(c.fail or c.cons or c.iterfail >= 0 or c.fault for c in sc.calls)
                                                   or any(any(i != 0 for i in e) for e in sc.sched))
        if nontriv:
            res.nontrivial.add(sc.line())
        res.sample(dict(scenario=sc.line(), log=line[:600]), cap=3)
        if rep is not None and rep != line:
            # first differing event
            a, b = line.split(" | "), rep.split(" | ")
            k = next((i for i in range(min(len(a), len(b))) if a[i] != b[i]), min(len(a), len(b)))
            res.diverge("event-log", case, dict(at=k, impl=a[max(0, k - 3):k + 3]), dict(model=b[max(0, k - 3):k + 3]))
        stale = stale_window_call(sc, r.log) is not None
        prompt = [(p, sg, d)
                  for p, sg, d in promptness_oracle(sc, r) + reenter_oracle(sc, r) if p in props]
        if sc.insub or sc.real_ab:
            res.count("in-submit-completion-scenarios" if sc.insub else "real-autobatch-scenarios")
            if r.insub_fired:
                res.count("in-submit-completions-delivered", len(r.insub_fired))
                res.nontrivial.add(("insub",) + tuple(sc.insub) + (sc.line(),))
            extra = real_ab_checks(sc, r, res, ab_pending) if sc.real_ab else []
            # these two kinds are judged for C01 only (return values, exactly once, no foreign exception, wait predicate)
            for p, sig, detail in [x for x in oracle(sc, r, props) if x[0] == "C01"] + extra:
                res.fail(sig, case, dict(detail=detail, in_submit=r.insub_fired[:20], log=line[:1500]))
            continue
        for p, sig, detail in oracle(sc, r, props) + prompt:
            res.fail(sig, case, dict(detail=detail, log=line[:1500]))
    real_ab_compare(res, ab_pending, driver_prop or ctx.prop)
    res.assumptions = [
        "completion callbacks run to completion at hook points (caller between two of: configure, compute_batch_size, sleep, consumer pause, "
        "abort_everything, between calls / after the last call)",
        "backend contract: each submitted batch is executed at most once and its callback invoked at most once",
    ]
    return res


def _shard(args):
    prop, tier, seed, props, n, salt, focus = args
    from pathlib import Path
    import tempfile
    ctx = core.Ctx(prop=prop, tier=tier, seed=seed, scratch=Path(tempfile.gettempdir()))
    return explore(ctx, set(props), n, salt, focus)


def merge(results):
    out = results[0]
    for r in results[1:]:
        out.evaluations += r.evaluations
        out.nontrivial |= r.nontrivial
        out.traces_validated += r.traces_validated
        out.divergences += r.divergences
        out.oracle_failures += r.oracle_failures
        for k, v in r.dist.items():
            out.dist[k] = out.dist.get(k, 0) + v
    out.divergences = out.divergences[:50]
    return out


def explore_sharded(ctx, props, total, salt, focuses=(None,), shards=14):
    """Thorough tier: `total` scenarios over a process pool; every shard has its own derived seed (salt)."""
    import concurrent.futures as cf
    per = max(1, total // shards)
    jobs = [(ctx.prop, ctx.tier, ctx.seed, sorted(props), per, f"{salt}-{i}", focuses[i % len(focuses)]) for i in range(shards)]
    with cf.ProcessPoolExecutor(max_workers=min(shards, 14)) as ex:
        rs = list(ex.map(_shard, jobs))
    return merge(rs)


def run_prop(ctx, prop, focuses):
    if ctx.replay and ctx.replay.get("case", {}).get("kind") == "native-threads":
        from . import m1_threads
        out = Result()
        out.rule = "replay of a native-thread probe case (repeated 5 times: OS scheduling)"
        m1_threads.probe(ctx, out, {prop}, 5, cases=[ctx.replay["case"]] * 5)
        return out
    if ctx.replay and ctx.replay.get("case", {}).get("kind") == "native-legacy-backend":
        from . import m1_threads
        out = Result()
        out.rule = "replay: the legacy-protocol backend probe is re-run (OS scheduling decides the interleaving)"
        m1_threads.legacy_backend_probe(ctx, out, {prop}, 12)
        return out
    if ctx.replay and ctx.replay.get("case", {}).get("kind") == "native-process":
        from . import m1_threads
        out = Result()
        out.rule = "replay of a native process-backend probe case"
        m1_threads.process_probe(ctx, out, {prop}, 1, cases=[ctx.replay["case"]])
        return out
    if ctx.replay and ctx.replay.get("case", {}).get("kind") == "m1l":
        from . import m1_lock
        out = Result()
        out.rule = "replay of a forced real-thread schedule at lock-boundary granularity (M1L)"
        m1_lock.replay_case(ctx, out, ctx.replay["case"])
        return out
    if ctx.replay and ctx.replay.get("case", {}).get("kind") == "native-managed-reuse":
        from . import m1_threads
        out = Result()
        out.rule = "replay of a native probe case: successive calls on one Parallel object, process backend (repeated 3 times)"
        m1_threads.managed_reuse_probe(ctx, out, {prop}, 3, cases=[ctx.replay["case"]] * 3)
        return out
    if ctx.replay and ctx.replay.get("case", {}).get("kind") == "native-exc-kind":
        from . import m1_threads
        out = Result()
        out.rule = "replay of a native exception-kind probe case"
        m1_threads.exception_kind_probe(ctx, out, {prop}, 1, cases=[ctx.replay["case"]])
        return out
    if ctx.replay and ctx.replay.get("case", {}).get("kind") == "native-stuck-sibling":
        from . import m1_threads
        out = Result()
        out.rule = "replay: the stuck-sibling probe is re-run"
        m1_threads.stuck_sibling_probe(ctx, out, {prop}, 4)
        return out
    if ctx.replay and ctx.replay.get("case", {}).get("kind") == "native-stuck-sibling-process":
        from . import m1_threads
        out = Result()
        out.rule = "replay: the process-backend stuck-sibling probe is re-run"
        m1_threads.stuck_sibling_process_probe(ctx, out, {prop}, 8)
        return out
    if ctx.replay and ctx.replay.get("case", {}).get("kind") == "native-startup-fault":
        from . import m1_threads
        out = Result()
        out.rule = "replay: the start-up fault probe is re-run"
        m1_threads.startup_fault_probe(ctx, out, {prop}, 100)
        return out
    if ctx.replay and ctx.replay.get("case", {}).get("kind") == "native-shutdown-fault":
        from . import m1_threads
        out = Result()
        out.rule = "replay: the shutdown-fault probe is re-run"
        m1_threads.shutdown_fault_probe(ctx, out, {prop}, 16)
        return out
    if ctx.replay and ctx.replay.get("case", {}).get("instr"):
        sc = Scenario.from_json(ctx.replay["case"])
        out = Result()
        out.rule = "replay of a bytecode-level pre-emption scenario"
        r = ctl.run_scenario(sc)
        out.evaluations = 1
        for p, sig, detail in oracle(sc, r, {prop}) + [x for x in promptness_oracle(sc, r) + reenter_oracle(sc, r) if x[0] == prop]:
            out.fail(sig, sc.to_json(), dict(detail=detail, fired=r.instr_fired, log=" | ".join(r.log)[:1500]))
        return out
    if ctx.replay:
        sc = Scenario.from_json(ctx.replay["case"])
        return explore(ctx, {prop}, 1, "replay", scenarios=[sc])
    if ctx.thorough:
        out = explore_sharded(ctx, {prop}, 60000, "thorough", focuses)
        if prop == "C04":
            bad_pd_table_probe(out)
        instr_sweep(ctx, out, {prop}, 10**9)
        insub_sweep(ctx, out, {prop})
        if prop in ("C01", "C09"):
            autobatch_probe(ctx, out, {prop}, 20000, prop)
        if prop in ("C01", "C04", "C09", "C16"):
            from . import m1_lock
            m1_lock.run_lock_scenarios(ctx, out, prop)
        if prop in ("C01", "C04", "C09"):
            from . import m1_threads
            m1_threads.probe(ctx, out, {prop}, 80)
            m1_threads.process_probe(ctx, out, {prop}, 16)
            m1_threads.legacy_backend_probe(ctx, out, {prop}, 24)
            m1_threads.exception_kind_probe(ctx, out, {prop}, 24)
            m1_threads.stuck_sibling_probe(ctx, out, {prop}, 8)
            m1_threads.stuck_sibling_process_probe(ctx, out, {prop}, 8)
            m1_threads.shutdown_fault_probe(ctx, out, {prop}, 16)
            m1_threads.startup_fault_probe(ctx, out, {prop}, 100)
            m1_threads.managed_reuse_probe(ctx, out, {prop}, 10)
        return out
    rs = [explore(ctx, {prop}, 2400 // len(focuses), f"quick-{f}", f) for f in focuses]
    out = merge(rs)
    if prop == "C04":
        bad_pd_table_probe(out)
    instr_sweep(ctx, out, {prop}, 150)
    insub_sweep(ctx, out, {prop})
    if prop in ("C01", "C09"):
        autobatch_probe(ctx, out, {prop}, 400, prop)
    if prop in ("C01", "C04", "C09", "C16"):
        from . import m1_lock
        m1_lock.run_lock_scenarios(ctx, out, prop)
    if prop in ("C01", "C04", "C09"):
        from . import m1_threads
        m1_threads.probe(ctx, out, {prop}, 12)
        m1_threads.process_probe(ctx, out, {prop}, 4)
        m1_threads.legacy_backend_probe(ctx, out, {prop}, 8)
        m1_threads.exception_kind_probe(ctx, out, {prop}, 12)
        m1_threads.stuck_sibling_probe(ctx, out, {prop}, 3)
        m1_threads.stuck_sibling_process_probe(ctx, out, {prop}, 8)
        m1_threads.shutdown_fault_probe(ctx, out, {prop}, 16)
        m1_threads.startup_fault_probe(ctx, out, {prop}, 100)
        m1_threads.managed_reuse_probe(ctx, out, {prop}, 4)
    return out


def search_prop(ctx, prop, res, focuses):
    return explore_sharded(ctx, {prop}, 30000, "search", focuses)


# ------------------------------------------------------------------ bytecode-level pre-emption sweep (oracle only)

SWEEP_BASES = [
    Scenario(nj=2, bs_auto=False, bs=(1,), pd=1, ra=1, calls=(Call(2),)),
    Scenario(nj=2, bs_auto=False, bs=(1,), pd=2, ra=0, calls=(Call(5),)),
    Scenario(nj=2, bs_auto=False, bs=(1,), pd=1, ra=0, calls=(Call(3, fail=(1,)), Call(2))),
    Scenario(nj=3, bs_auto=False, bs=(2,), pd=3, ra=2, calls=(Call(9),)),
    Scenario(nj=2, bs_auto=True, bs=(1, 2), pd_mode=1, ra=1, calls=(Call(4, cons=(1, 2)), Call(3))),
    Scenario(nj=2, bs_auto=False, bs=(1,), pd=2, ra=1, timeout=3, abort_drops=False, calls=(Call(4, iterfail=3), Call(2))),
    Scenario(nj=3, bs_auto=False, bs=(1,), pd=1, ra=0, calls=(Call(6),)),
    Scenario(nj=2, bs_auto=False, bs=(1,), pd=2, ra=2, managed=True, calls=(Call(4, cons=(1, 3)), Call(3, cons=()))),
]


def instr_sweep(ctx, res, props, per_base):
    """Every (sampled) bytecode of the caller inside joblib/parallel.py as a pre-emption point at which parked batches
    complete (all of them / the oldest one).  Finer than the Lean model: judged by the oracles only."""
    import dataclasses
    rng = ctx.rng("instr")
    for bi, base in enumerate(SWEEP_BASES):
        try:
            total = ctl.count_instructions(base)
        except Exception as e:  # noqa: BLE001
            res.fail("harness-run-crashed:" + type(e).__name__, base.to_json(), repr(e))
            continue
        ks = list(range(total)) if total <= per_base else sorted(rng.sample(range(total), per_base))
        res.count(f"instr-sweep-base{bi}-points", len(ks))
        for k in ks:
            for how in (-1, 0):
                sc = dataclasses.replace(base, instr=((k, how),))
                try:
                    r = ctl.run_scenario(sc)
                except Exception as e:  # noqa: BLE001
                    res.fail("harness-run-crashed:" + type(e).__name__, sc.to_json(), repr(e))
                    continue
                res.evaluations += 1
                if r.instr_fired:
                    res.nontrivial.add(("instr", bi, k, how))
                for p, sig, detail in oracle(sc, r, props) + [x for x in promptness_oracle(sc, r) + reenter_oracle(sc, r) if x[0] in props]:
                    res.fail(sig, sc.to_json(), dict(detail=detail, fired=r.instr_fired, log=" | ".join(r.log)[:1500]))


def insub_sweep(ctx, res, props):
    """Round 5, systematic part of the in-submit completions (oracle only, C01): for small calls, EVERY subset of the submits
    completes inline (the batch's own callback runs inside `backend.submit`), in the three return modes, with the caller's wait
    predicate evaluated at every bytecode of the callbacks delivered while the caller sleeps."""
    import os
    if "C01" not in props or os.environ.get("VERIF_M1_NO_ROUND5"):
        return
    for ra in (0, 1, 2):
        for (n, pd, bs) in ((3, 2, 1), (4, 2, 1), (5, 3, 1), (6, 1, 2)):
            nb = n if bs == 1 else (n + 1) // 2 + 1
            for mask in range(1, 1 << min(nb, 5)):
                ins = tuple((k, -1) for k in range(nb) if mask >> k & 1)
                sc = Scenario(nj=2, bs_auto=False, bs=(bs,), pd=pd, ra=ra, calls=(Call(n), Call(2)), insub=ins, probe_wait=True)
                try:
                    r = ctl.run_scenario(sc)
                except Exception as e:  # noqa: BLE001
                    res.fail("harness-run-crashed:" + type(e).__name__, sc.to_json(), repr(e))
                    continue
                res.evaluations += 1
                res.count("in-submit-sweep-scenarios")
                if r.insub_fired:
                    res.nontrivial.add(("insub-sweep", ra, n, pd, bs, mask))
                for p, sig, detail in oracle(sc, r, props):
                    if p == "C01":
                        res.fail(sig, sc.to_json(), dict(detail=detail, in_submit=r.insub_fired, log=" | ".join(r.log)[:1500]))


# ------------------------------------------------------------------ the source of the batch sizes: AutoBatchingMixin


def autobatch_probe(ctx, res, props, n, driver_prop):
    """M1 takes the values of `compute_batch_size()` as a script with every value >= 1.  This validates that
    hypothesis (and the 'at most doubles' growth used by the C09 bound) on the real AutoBatchingMixin, and ties the
    Lean model JoblibModel/AutoBatch.lean to it: random compute/batch_completed sequences, exact rational durations."""
    from fractions import Fraction
    from types import SimpleNamespace
    core.use_repo()
    from joblib._parallel_backends import AutoBatchingMixin

    class B(AutoBatchingMixin):
        pass

    rng = ctx.rng("autobatch")
    lines, expected, cases = [], [], []
    for _ in range(n):
        b = B()
        # the state of the Parallel object the mixin could read (round 5): a sized or unsized input, the dispatch counters (biased
        # to "nothing left to dispatch": the compute made by the dispatch that discovers the end of the input), the workers
        par = SimpleNamespace(verbose=0, _print=lambda *_: None, n_tasks=None, n_dispatched_tasks=0, n_dispatched_batches=0,
                              n_completed_tasks=0, n_jobs=2, _cached_effective_n_jobs=2, _n_jobs=2, return_as="list",
                              pre_dispatch="2*n_jobs", batch_size="auto", _managed_backend=True)
        b.parallel = par
        ops, outs, toks = [], [], ["AB"]

        def new_par_state():
            nw = rng.choice([1, 2, 2, 3, 4, 8])
            nt = None if rng.random() < 0.35 else rng.choice([0, 1, 2, 3, 5, 30, 400, rng.randint(0, 1000)])
            nd = rng.randint(0, 40) if nt is None else rng.choice([nt, nt, nt, max(nt - 1, 0), rng.randint(0, nt)])
            par.n_tasks, par.n_dispatched_tasks, par.n_completed_tasks = nt, nd, rng.randint(0, nd)
            par.n_dispatched_batches = nd
            par.n_jobs = par._n_jobs = par._cached_effective_n_jobs = nw
            ops.append(f"n {nt} {nd} {nw}")
            toks.extend(["n", str(-1 if nt is None else nt), str(nd), str(nw)])
        eff_exact, dur_exact = 1, Fraction(0)
        fragile = False
        for _ in range(rng.randint(1, 30)):
            u = rng.random()
            if u < 0.12:
                new_par_state()
                continue
            if u < 0.16:
                b.reset_batch_stats()  # terminate() of the process backends
                ops.append("r")
                toks.append("r")
                eff_exact, dur_exact = 1, Fraction(0)
                continue
            if rng.random() < 0.45:
                # margins: would the float computation sit on a boundary of the exact one?
                d = dur_exact
                if d > 0:
                    for thr in (Fraction(1, 5), Fraction(2)):
                        if abs(d - thr) < Fraction(1, 10**6):
                            fragile = True
                    q = Fraction(eff_exact, 5) / d
                    # `int(old * 0.2 / duration)` decides in the "too slow" branch only (see ab_line)
                    if d > 2 and abs(q - round(q)) < Fraction(1, 10**6):
                        fragile = True
                if rng.random() < 0.5:
                    new_par_state()
                old = b._effective_batch_size
                v = b.compute_batch_size()
                ops.append("c")
                outs.append(v)
                toks.append("c")
                if v < 1 and ("C01" in props or "C09" in props):
                    res.fail("backend-contract:auto-batch-size-below-one", dict(ops=list(ops)),
                             dict(returned=v, n_tasks=par.n_tasks, n_dispatched_tasks=par.n_dispatched_tasks, n_workers=par.n_jobs))
                if v > 2 * max(old, 1) and "C09" in props:
                    res.fail("backend-contract:auto-batch-size-more-than-doubles", dict(ops=list(ops)), dict(old=old, returned=v))
                if v != eff_exact:
                    dur_exact = Fraction(0)
                eff_exact = v
            else:
                bs = rng.choice([b._effective_batch_size] * 4 + [1, 2, 3])
                ms = rng.choice([1, 5, 20, 50, 90, 150, 199, 201, 400, 900, 1500, 1999, 2001, 3000, 8000, 20000])
                dur = Fraction(ms, 1000)
                b.batch_completed(bs, ms / 1000)
                ops.append(f"d {bs} {ms}ms")
                toks += ["d", str(bs), str(ms), "1000"]
                if bs == eff_exact:
                    dur_exact = dur if dur_exact == 0 else Fraction(4, 5) * dur_exact + Fraction(1, 5) * dur
        res.evaluations += 1
        if fragile:
            res.count("autobatch-skipped-float-boundary")
            continue
        res.count("autobatch-sequences")
        if any(o != 1 for o in outs):
            res.nontrivial.add(("autobatch", tuple(ops)))
        lines.append(" ".join(toks))
        expected.append(" ".join(map(str, outs)))
        cases.append(ops)
    if lines:
        for rep, exp, ops in zip(core.Driver(driver_prop).run(lines), expected, cases):
            res.traces_validated += 1
            if rep != exp:
                res.diverge("auto-batch-sizes", dict(ops=ops), exp, rep)
