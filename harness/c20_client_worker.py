"""C20 client side — processes run under python3-vt (numpy) with PYTHONPATH=$VERIF_REPO. See harness/c20_client.py.

modes
  parent <scratch> <sendlog>      : the "main program": real Parallel objects (loky / multiprocessing backends), real
                                    get_memmapping_executor, ArrayMemmapForwardReducer, TemporaryResourcesManager,
                                    delete_folder, driven one operation per stdin line (JSON) — no task is ever
                                    submitted, so loky starts no worker: the workers are the `child` processes below
  child <fd> <tracker pid> <sendlog> : a stand-in for a loky / pool worker: shares the tracker pipe as loky's spawn does,
                                    unpickles what the parent pickled (real load_temporary_memmap + finalizers), keeps or
                                    drops the memmaps on command
Every request a process hands to `ResourceTracker._send` is appended to its <sendlog> (one JSON line, flushed) before
it is written to the pipe.
"""

import base64
import gc
import io
import json
import os
import pickle
import sys
import time


def _install_send_log(path):
    from joblib.externals.loky.backend import resource_tracker as rt

    logf = open(path, "a", buffering=1)
    orig = rt._resource_tracker._send

    def _send(cmd, name, rtype):
        if rtype != "semlock":
            logf.write(json.dumps([cmd, name, rtype]) + "\n")
            logf.flush()
        return orig(cmd, name, rtype)

    rt._resource_tracker._send = _send
    return orig


def _reply(obj):
    sys.stdout.write(json.dumps(obj) + "\n")
    sys.stdout.flush()


# ----------------------------------------------------------------------------------------------------- child


def child_main(fd, tracker_pid, sendlog):
    import numpy as np  # noqa: F401
    from joblib.externals.loky.backend import resource_tracker as rt

    rt._resource_tracker._fd = fd  # what loky's spawn does for a worker: the parent's tracker is the worker's tracker
    rt._resource_tracker._pid = tracker_pid
    _install_send_log(sendlog)
    held = {}
    _reply(dict(ready=os.getpid()))
    for line in sys.stdin:
        t = json.loads(line)
        op = t["op"]
        try:
            if op == "load":
                obj = pickle.loads(base64.b64decode(t["data"]))
                arr = obj.items[0][1][0]
                del obj
                fn = getattr(arr, "filename", None)
                if fn is not None:
                    held[t["hid"]] = arr
                _reply(dict(ok=True, filename=fn, kind=type(arr).__name__))
                del arr
            elif op == "drop":
                del held[t["hid"]]
                gc.collect()
                _reply(dict(ok=True))
            elif op == "check":
                _reply(dict(ok=True, held={h: [a.filename, os.path.exists(a.filename), bool((a == a).all())] for h, a in held.items()}))
            elif op == "exit":
                _reply(dict(ok=True))
                sys.exit(0)  # weakref.finalize's atexit hook runs the pending finalizers
            else:
                _reply(dict(err="bad-op"))
        except SystemExit:
            raise
        except BaseException as e:  # noqa: BLE001
            _reply(dict(ok=False, err=type(e).__name__, msg=str(e)[-200:]))


# ----------------------------------------------------------------------------------------------------- parent


class _SyncTime:
    """Stands in for the `time` module inside joblib.disk: `delete_folder` sleeps 0.1 s between its 11 attempts so that
    the tracker can catch up; here the wait is replaced by a real synchronisation with the tracker (a sentinel file
    registered and released through the same pipe), which is what the sleep is meant to achieve."""

    def __init__(self, sync):
        self._sync = sync

    def sleep(self, _t):
        self._sync()

    def __getattr__(self, k):
        return getattr(time, k)


def parent_main(scratch, sendlog):
    import numpy as np
    import joblib
    import joblib.disk
    from joblib import Parallel
    from joblib.externals.loky import reusable_executor
    from joblib.externals.loky.backend import resource_tracker as rt
    from joblib.externals.loky.backend.reduction import dumps
    from joblib.parallel import BatchedCalls
    from joblib.pool import CustomizablePickler

    tmp = os.path.join(scratch, "tmp")
    own = os.path.join(scratch, "own")
    syncd = os.path.join(scratch, "sync")
    raw_send = _install_send_log(sendlog)
    rt.ensure_running()
    nsync = [0]

    def sync():
        nsync[0] += 1
        s = os.path.join(syncd, "p%d" % nsync[0])
        open(s, "w").close()
        raw_send("REGISTER", s, "file")
        raw_send("MAYBE_UNLINK", s, "file")
        t_end = time.time() + 20
        while os.path.exists(s):
            if time.time() > t_end:
                raise RuntimeError("tracker does not answer")
            time.sleep(0.0005)

    joblib.disk.time = _SyncTime(sync)

    cfg = json.loads(sys.stdin.readline())
    max_nbytes = cfg["max_nbytes"]
    n_par = cfg["n_parallel"]
    pool_ks = set(cfg["pool_ks"])
    P = {}
    for k in range(n_par):
        if k in pool_ks:
            P[k] = Parallel(n_jobs=2, backend="multiprocessing", max_nbytes=max_nbytes, temp_folder=tmp)
        else:
            P[k] = Parallel(n_jobs=2, backend="loky", max_nbytes=max_nbytes, temp_folder=tmp, mmap_mode=("r", "c")[k % 2])
    arrays = {}
    wrapped = set()

    def callback(**kw):
        """Ask the orchestrator to do something now (end the workers of an executor) and wait until it is done."""
        _reply(dict(cb=kw))
        ack = json.loads(sys.stdin.readline())
        assert ack.get("ack")

    def mgr_id(ex):
        return ex._temp_folder_manager._id

    def wrap(ex):
        # the stand-in workers of this executor live and die with it: when the real code shuts the executor down, the
        # orchestrator ends them the way loky would (normal exit for kill_workers=False, SIGKILL otherwise)
        # (marked on the object itself: an id() can be reused by a later executor once an earlier one has been collected,
        # and an unwrapped executor's shutdown would leave its stand-in workers and queued pickles alive in the orchestrator)
        if getattr(ex, "_verif_wrapped", False):
            return
        ex._verif_wrapped = True
        real = ex.shutdown

        def shutdown(wait=True, kill_workers=False):
            callback(end_workers=mgr_id(ex), kill=bool(kill_workers))
            return real(wait=wait, kill_workers=kill_workers)

        ex.shutdown = shutdown

    def array_for(d):
        key = d["id"]
        if key not in arrays:
            if d["memmap_backed"]:
                fn = os.path.join(own, "src%d.bin" % key)
                a = np.memmap(fn, dtype=np.uint8, mode="w+", shape=(max(1, d["nbytes"]),))
            elif d["hasobject"]:
                a = np.empty(max(1, d["nbytes"] // 8), dtype=object)
                a[:] = None
            else:
                a = np.zeros(d["nbytes"], dtype=np.uint8)
            arrays[key] = a
        return arrays[key]

    def workers_of(k):
        b = P[k]._backend
        return getattr(b, "_pool", None) if k in pool_ks else getattr(b, "_workers", None)

    def live(k):
        w = workers_of(k)
        if w is None:
            return None
        if k in pool_ks:
            return w
        return None if w._flags.shutdown else w

    _reply(dict(ready=True, tracker_pid=rt._resource_tracker._pid, fd=rt._resource_tracker._fd,
                pids={k: p._id for k, p in P.items()}))
    for line in sys.stdin:
        t = json.loads(line)
        op = t["op"]
        out = dict(status="ok")
        try:
            if op in ("configure", "poolConfigure"):
                k = t["k"]
                P[k].__enter__()
                P[k]([])  # defines Parallel._reducer_callback exactly as a real call does; dispatches nothing
                w = workers_of(k)
                if k not in pool_ks:
                    wrap(w)
                out["mgr"] = w._temp_folder_manager._id
            elif op == "spawn":
                w = live(t["k"])
                if w is None:
                    out["status"] = "skip"
                else:
                    out["mgr"] = w._temp_folder_manager._id
            elif op == "reduce":
                k = t["k"]
                w = live(k)
                if w is None:
                    out["status"] = "skip"
                else:
                    a = array_for(t["a"])
                    bc = BatchedCalls([(len, (a,), {})], P[k]._backend.get_nested_backend(), P[k]._reducer_callback, {})
                    if k in pool_ks:
                        buf = io.BytesIO()
                        CustomizablePickler(buf, w._forward_reducers).dump(bc)
                        data = buf.getvalue()
                        red = w._forward_reducers[np.ndarray]
                    else:
                        data = bytes(dumps(bc, reducers=w._call_queue._reducers))
                        red = w._call_queue._reducers[np.ndarray]
                    try:
                        out["basename"] = red._memmaped_arrays.get(a)
                    except KeyError:
                        out["basename"] = None
                    out["mgr"] = w._temp_folder_manager._id
                    out["temp_memmap"] = b"load_temporary_memmap" in data
                    out["data"] = base64.b64encode(data).decode()
            elif op in ("terminate", "poolTerminate"):
                k = t["k"]
                w = workers_of(k)
                if w is None:
                    out["status"] = "skip"
                else:
                    if k in pool_ks:
                        callback(end_workers=w._temp_folder_manager._id, kill=True)  # Pool.terminate kills its workers
                    P[k].__exit__(None, None, None)
            elif op == "abort":
                k = t["k"]
                if workers_of(k) is None:
                    out["status"] = "skip"
                else:
                    P[k]._backend.abort_everything(ensure_ready=t["ensure_ready"])
                    w = workers_of(k)
                    if w is not None:
                        wrap(w)
                        out["mgr"] = w._temp_folder_manager._id
            elif op == "execTerminate":
                ex = reusable_executor._executor
                if ex is None:
                    out["status"] = "skip"
                else:
                    ex.terminate(kill_workers=t["kill"])
            elif op == "exit":
                _reply(out)
                sys.exit(0)
            else:
                out = dict(status="bad-op")
        except BaseException as e:  # noqa: BLE001
            if isinstance(e, SystemExit):
                raise
            import traceback

            out = dict(status="raised", err=type(e).__name__, msg=traceback.format_exc()[-600:])
        try:
            sync()
        except RuntimeError as e:
            out["sync_failed"] = str(e)
        _reply(out)


if __name__ == "__main__":
    mode = sys.argv[1]
    if mode == "child":
        child_main(int(sys.argv[2]), int(sys.argv[3]), sys.argv[4])
    elif mode == "parent":
        parent_main(sys.argv[2], sys.argv[3])
    else:
        raise SystemExit("mode?")
