"""Probe shared by C08 and C02 (oracle only, no model): values that hold a component pickle REJECTS (a lock, a generator,
an open file: TypeError "cannot pickle ...").  joblib.hash may refuse such a value; what it must not do is "succeed" on a
stream that stops at the rejected component, so that two values differing in a leaf after it get one digest (C08: "any
differing leaf of a nested container") and a Memory-cached function serves one the other's result (C02).

Pairs (v0, v1) are built by one constructor from a leaf 0 / 1000; the poisoned component comes BEFORE the leaf in pickling
order (attribute names and dict keys are pickled sorted by the Hasher; list items in order)."""
import io
import tempfile
import threading


class Source:
    def __init__(self, poison, start):
        self.guard = poison  # 'guard' < 'start'
        self.start = start


class SlotsSource:
    __slots__ = ("aguard", "start")

    def __init__(self, poison, start):
        self.aguard, self.start = poison, start


class Handle:
    """An unpicklable value object whose repr does not show its content (as most handles / connections / sessions)."""

    def __init__(self, poison, start):
        self.guard = poison
        self.start = start

    def __repr__(self):
        return "<Handle>"


def _gen():
    yield 1


POISONS = {
    "lock": threading.Lock,
    "rlock": threading.RLock,
    "generator": _gen,
    "file": lambda: io.open(__file__, "rb"),
}

SHAPES = {
    "instance-attribute": lambda p, x: Source(p, x),
    "slots-attribute": lambda p, x: SlotsSource(p, x),
    "instance-lossy-repr": lambda p, x: Handle(p, x),
    "list-after": lambda p, x: [p, x],
    "tuple-after": lambda p, x: (p, x),
    "dict-value-after": lambda p, x: {"a": p, "b": x},
    "nested-list": lambda p, x: [[p], {"k": [x]}],
    "instance-in-list": lambda p, x: [Source(p, x), 7],
}

WRAPS = {
    "bare": lambda v: v,
    "in-dict": lambda v: {"src": v},            # the form Memory hashes (argument name -> value)
    "in-dict-2": lambda v: {"n": 2, "src": v},
    "in-list": lambda v: [v],
}


def _digest(joblib, v):
    try:
        return ("ok", joblib.hash(v))
    except Exception as e:  # noqa: BLE001
        return ("raises", type(e).__name__)


def run_hash(res, joblib):
    """C08: a pair with a differing leaf never gets one digest."""
    for pn, mk in POISONS.items():
        for sn, shape in SHAPES.items():
            for wn, wrap in WRAPS.items():
                d0 = _digest(joblib, wrap(shape(mk(), 0)))
                d1 = _digest(joblib, wrap(shape(mk(), 1000)))
                res.evaluations += 1
                res.count("poison-probe:" + d0[0])
                if d0[0] == "ok" and d1[0] == "ok":
                    res.nontrivial.add(("poison", pn, sn, wn))
                    if d0[1] == d1[1]:
                        res.fail("collision:value-holding-an-unpicklable-component",
                                 dict(kind="poison-probe", poison=pn, shape=sn, wrap=wn),
                                 f"joblib.hash gives {d0[1]} for the leaf 0 and for the leaf 1000 (the stream stops at the rejected component)")


def _leaf(v):
    if isinstance(v, (Source, SlotsSource, Handle)):
        return v.start
    if isinstance(v, dict):
        return _leaf(v["b"] if "b" in v else v["k"])
    if isinstance(v, (list, tuple)):
        return _leaf(v[-1]) if not isinstance(v[-1], int) or len(v) == 2 and not isinstance(v[0], (Source,)) else _leaf(v[0])
    return v


def read_leaf(v, n=2):
    return [_leaf(v) + i for i in range(n)]


def run_memory(res, joblib):
    """C02: a cached function called with v0 then v1 returns f(v1) for v1 (or refuses the call)."""
    for pn, mk in POISONS.items():
        for sn, shape in SHAPES.items():
            if sn == "instance-in-list":
                continue
            d = tempfile.mkdtemp(prefix="verif-poison-")
            try:
                cached = joblib.Memory(d, verbose=0).cache(read_leaf)
                outs = []
                for x in (0, 1000):
                    try:
                        outs.append(("ok", cached(shape(mk(), x))))
                    except Exception as e:  # noqa: BLE001
                        outs.append(("raises", type(e).__name__))
                res.evaluations += 1
                res.count("poison-probe:" + outs[1][0])
                if outs[0][0] == "ok" and outs[1][0] == "ok":
                    res.nontrivial.add(("poison-memory", pn, sn))
                    if outs[1][1] != read_leaf(shape(mk(), 1000)):
                        res.fail("wrong-cached-value:argument-holding-an-unpicklable-component",
                                 dict(kind="poison-probe", poison=pn, shape=sn),
                                 f"cached(v(0)) = {outs[0][1]}, then cached(v(1000)) = {outs[1][1]}")
            finally:
                import shutil

                shutil.rmtree(d, ignore_errors=True)


# values that differ only in the TYPE of a key / element of a container whose keys cannot be sorted (mixed types): the order
# fallback of the Hasher must keep them apart
TWINS = [
    ({1: "x", "name": "y"}, {"1": "x", "name": "y"}),
    ({1, "a"}, {"1", "a"}),
    (frozenset([1, "a"]), frozenset(["1", "a"])),
    ({1.5: "x", "k": 0}, {"1.5": "x", "k": 0}),
    ({None: 1, "k": 2}, {"None": 1, "k": 2}),
    ({(1, 2): "t", "k": 0}, {"(1, 2)": "t", "k": 0}),
    ({b"a": 1, "a": 2, 3: 4}, {"b'a'": 1, "a": 2, 3: 4}),
    ([{1: "x", "name": "y"}], [{"1": "x", "name": "y"}]),
]


def describe(v):
    return repr(v)


def run_twins(res, joblib):
    """C02 (and C08 through joblib.hash): a cached function called with v0 then with its twin v1 returns f(v1)."""
    for k, (v0, v1) in enumerate(TWINS):
        d = tempfile.mkdtemp(prefix="verif-twin-")
        try:
            cached = joblib.Memory(d, verbose=0).cache(describe)
            outs = []
            for v in (v0, v1):
                try:
                    outs.append(("ok", cached(v)))
                except Exception as e:  # noqa: BLE001
                    outs.append(("raises", type(e).__name__))
            res.evaluations += 1
            res.count("twin-probe:" + outs[1][0])
            res.nontrivial.add(("twin", k))
            if outs[1] != ("ok", describe(v1)):
                res.fail("wrong-cached-value:mixed-type-keys-vs-their-string-twins", dict(kind="poison-probe", twin=k, v0=repr(v0), v1=repr(v1)),
                         f"cached(v0) = {outs[0]}, then cached(v1) = {outs[1]}")
        finally:
            import shutil

            shutil.rmtree(d, ignore_errors=True)
