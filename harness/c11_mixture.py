"""C11 "Concurrent writers of one entry leave one complete result, never a mixture" — native probe (no model).

Run as a script in its own interpreter (PYTHONPATH = the tree under test):  c11_mixture.py <json spec>  → one JSON line.

W writer threads call ONE cached function with ONE argument at the same time; all miss the cache.  The function's result
is individually valid for every writer but carries the writer's tag in every element (a function whose result depends on
who computed it: a timestamp, a host name, a random draw), so a stored entry made of parts of two results is visible.
Writer 0 is parked twice INSIDE the dump of its result (an element whose `__reduce__` waits), the other writers store
their complete results meanwhile, then a reader calls the cached function, then writer 0 finishes, then a final read.
Thread names are given by the spec: Python does not require thread names to be unique (`Thread(name="worker")` in a
loop), so "same name" is a legal configuration, as are different names.

Judged: nobody raises; every value returned (to the writers, the reader, the final read) consists of the parts of ONE
computation.
"""
import json
import os
import shutil
import sys
import tempfile
import threading
import warnings

TIMEOUT = 40
me = threading.local()
at_gate = [threading.Event(), threading.Event()]
leave_gate = [threading.Event(), threading.Event()]


class Gate(object):
    """An element of the result; pickling it in writer 0 parks writer 0 (module level: it must be picklable)."""

    def __init__(self, idx):
        self.idx = idx

    def __reduce__(self):
        if getattr(me, "tag", None) == 0 and getattr(me, "dumping", False):
            at_gate[self.idx].set()
            if not leave_gate[self.idx].wait(TIMEOUT):
                raise RuntimeError("gate timeout")
        return (Gate, (self.idx,))


def main(spec):
    warnings.simplefilter("ignore")
    from joblib import Memory

    n_items = spec["n_items"]
    gates = spec["gates"]  # two positions inside the result
    names = spec["names"]
    W = len(names)
    compress = spec.get("compress", False)
    all_computing = threading.Barrier(W, timeout=TIMEOUT)
    def compute(x):
        tag = getattr(me, "tag", "R")
        if tag != "R":
            all_computing.wait()
            if tag != 0 and not at_gate[0].wait(TIMEOUT):
                raise RuntimeError("writer 0 never reached its first gate")
        out = []
        for i in range(n_items):
            if i == gates[0]:
                out.append(Gate(0))
            if i == gates[1]:
                out.append(Gate(1))
            out.append("%s-%06d-%s" % (str(tag) * 6, i, str(tag) * 6))
        me.dumping = True
        return out

    def tags_of(result):
        return sorted({item[0] for item in result if isinstance(item, str)})

    tmp = tempfile.mkdtemp(prefix="c11mix-", dir=spec.get("scratch"))
    out = dict(errors=[], writers={}, reader=None, final=None)
    try:
        memory = Memory(tmp, verbose=0, compress=compress)
        cached = memory.cache(compute)

        def writer(tag):
            me.tag = tag
            try:
                out["writers"][str(tag)] = tags_of(cached(7))
            except BaseException as exc:  # noqa: BLE001
                out["errors"].append((str(tag), type(exc).__name__, str(exc)[:200]))

        ts = [threading.Thread(target=writer, args=(k,), name=names[k], daemon=True) for k in range(W)]
        for t in ts:
            t.start()
        for t in ts[1:]:
            t.join(TIMEOUT)
        if any(t.is_alive() for t in ts[1:]) or not at_gate[0].is_set():
            out["errors"].append(("harness", "stuck", "the other writers did not finish while writer 0 was parked"))
        else:
            leave_gate[0].set()
            if not at_gate[1].wait(TIMEOUT):
                out["errors"].append(("harness", "stuck", "writer 0 did not reach its second gate"))
            me.tag = "R"
            try:
                out["reader"] = tags_of(cached(7))
            except BaseException as exc:  # noqa: BLE001
                out["errors"].append(("reader", type(exc).__name__, str(exc)[:200]))
        leave_gate[0].set()
        leave_gate[1].set()
        ts[0].join(TIMEOUT)
        try:
            out["final"] = tags_of(cached(7))
        except BaseException as exc:  # noqa: BLE001
            out["errors"].append(("final", type(exc).__name__, str(exc)[:200]))
    finally:
        leave_gate[0].set()
        leave_gate[1].set()
        shutil.rmtree(tmp, ignore_errors=True)
    print(json.dumps(out))
    sys.stdout.flush()
    os._exit(0)


if __name__ == "__main__":
    threading.Timer(150, lambda: os._exit(3)).start()
    main(json.loads(sys.argv[1]))
