"""fstrace — file-system operation recorder, canonicaliser and crash injector (DESIGN 2.4), shared by C05 and C11.

* `run_traced(cmd, log, inject_when=k)` runs a command under
  `strace -f -y -e trace=<file syscalls>`; with `inject_when=(name, n)` the n-th invocation of the mutating file
  syscall `name` is answered with a real SIGKILL (`-e inject=name:signal=SIGKILL:when=n`, delivered on syscall entry:
  everything before that call is done, the call itself is not). `kill_points` lists the (name, n) of every mutating call
  a clean run makes under the cache directory.
* `parse_log` / `Canon.canon` turn the strace log into model operations on canonical paths (paths relative to the scratch
  cache directory, argument-hash directories -> `E<arg>`, `.thread-<id>-pid-<pid>` suffixes -> `.tmp<participant>`).
* `python fstrace.py worker <spec.json>` is the workload process (one cache user): it imports joblib from `spec.repo`,
  imports the generated module `wl_mod` from `spec.moddir` and performs `spec.action`; one JSON line on stdout.

Canonical operations (one string each; the Lean drivers print exactly the same syntax):
  stat P yes|no          os.path.exists / makedirs' parent probe / rmtree's lstat            (newfstatat on a path)
  mkdir P ok|eexist|enoent
  creat P ok|enoent      open(P, 'wb')  (O_WRONLY|O_CREAT|O_TRUNC)
  write P                all consecutive write(2) calls of one open file, merged
  rename P Q ok|enoent
  unlink P ok|enoent     rmdir P ok|enoent|enotempty
  openr P ok|enoent      open(P, 'rb');   read P  = the first read(2) on that open file
  opendir P ok|enoent    readdir P a,b,c  = the first getdents64 on that open directory (names in kernel order)
"""

from __future__ import annotations

import json
import os
import re
import subprocess
import sys

TRACE_SET = ("open,openat,creat,rename,renameat,renameat2,mkdir,mkdirat,unlink,unlinkat,rmdir,write,pwrite64,"
             "read,stat,lstat,newfstatat,statx,getdents64,ftruncate,truncate,link,linkat,symlink,symlinkat,"
             "sendfile,copy_file_range")
# sendfile / copy_file_range: how shutil.copyfile fills a file — counted as writes of the destination (a store that falls
# back from rename to copy, e.g. across file systems, fills the FINAL name this way)
KILL_SET = ("open,openat,creat,rename,renameat,renameat2,mkdir,mkdirat,unlink,unlinkat,rmdir,write,pwrite64,ftruncate,"
            "sendfile,copy_file_range")
KILL_NAMES = set(KILL_SET.split(","))

PY = "/venv/bin/python"


def run_traced(cmd, log, inject_when=None, env=None, timeout=120, cwd=None):
    """Run `cmd` under strace; returns (returncode, stdout, stderr). returncode of a SIGKILLed tracee is -9/137."""
    st = ["strace", "-f", "-y", "-v", "-s", "300", "-o", str(log), "-e", "trace=" + TRACE_SET]
    if inject_when is None:
        st.insert(1, "--seccomp-bpf")  # faster; but injection is silently not performed with it (strace 6.1)
    else:
        # strace counts `when=` per system call number: (name, n) = the n-th invocation of `name` by the process
        name, n = inject_when
        if name not in KILL_NAMES:
            raise ValueError(name)
        st += ["-e", f"inject={name}:signal=SIGKILL:when={int(n)}"]
    p = subprocess.run(st + list(cmd), capture_output=True, text=True, timeout=timeout, env=env, cwd=cwd)
    return p.returncode, p.stdout, p.stderr


_LINE = re.compile(r"^(\d+)\s+(.*)$")
_CALL = re.compile(r"^(\w+)\((.*)\)\s+=\s+(-?\d+|\?)(?:<([^>]*)>)?(?:\s+(E[A-Z]+)\b.*)?$")


def parse_log(path):
    """-> list of dict(tid, name, args, ret, retpath, err, killed_here). Merges `<unfinished ...>`/`resumed` pairs.
    A syscall the tracee was killed in (never resumed) is returned with ret=None."""
    pending = {}
    out = []
    for raw in open(path, errors="replace"):
        m = _LINE.match(raw.rstrip("\n"))
        if not m:
            continue
        tid, rest = int(m.group(1)), m.group(2)
        if rest.startswith("+++") or rest.startswith("---"):
            continue
        if rest.endswith("<unfinished ...>"):
            pending[tid] = rest[: -len("<unfinished ...>")].rstrip()
            continue
        r = re.match(r"^<\.\.\. (\w+) resumed>\s*(.*)$", rest)
        if r:
            head = pending.pop(tid, r.group(1) + "(")
            rest = head + r.group(2)
        c = _CALL.match(rest)
        if not c:
            continue
        name, args, ret, retpath, err = c.groups()
        out.append(dict(tid=tid, name=name, args=args, ret=None if ret == "?" else int(ret), retpath=retpath, err=err))
    for tid, head in pending.items():
        nm = head.split("(", 1)[0]
        out.append(dict(tid=tid, name=nm, args=head.split("(", 1)[1] if "(" in head else "", ret=None, retpath=None,
                        err=None))
    return out


def _split_args(s):
    """Top-level comma split of a strace argument list (quotes, <...> fd annotations, {...} structs)."""
    parts, depth, cur, q = [], 0, [], False
    i = 0
    while i < len(s):
        ch = s[i]
        if q:
            cur.append(ch)
            if ch == "\\" and i + 1 < len(s):
                cur.append(s[i + 1])
                i += 1
            elif ch == '"':
                q = False
        elif ch == '"':
            q = True
            cur.append(ch)
        elif ch in "{[<(":
            depth += 1
            cur.append(ch)
        elif ch in "}]>)":
            depth -= 1
            cur.append(ch)
        elif ch == "," and depth == 0:
            parts.append("".join(cur).strip())
            cur = []
        else:
            cur.append(ch)
        i += 1
    if cur:
        parts.append("".join(cur).strip())
    return parts


def _q(s):
    """strace string literal -> str (paths are printed in full, never abbreviated)."""
    m = re.match(r'^"((?:[^"\\]|\\.)*)"(\.\.\.)?$', s)
    if not m:
        return None
    return bytes(m.group(1), "latin-1").decode("unicode_escape").encode("latin-1").decode("utf-8", "replace")


def _fdpath(s):
    """`3</a/b>`, `3</a/b>(deleted)` or `AT_FDCWD</cwd>` -> '/a/b'."""
    m = re.match(r"^(?:-?\d+|AT_FDCWD)<(.*)>(?:\(deleted\))?$", s)
    if not m:
        return None
    p = m.group(1)
    if p.endswith(" (deleted)"):
        p = p[: -len(" (deleted)")]
    return p


def _at(dirarg, patharg):
    p = _q(patharg)
    if p is None:
        return None
    if p.startswith("/"):
        return os.path.normpath(p)
    d = _fdpath(dirarg)
    if d is None:
        return None
    return os.path.normpath(os.path.join(d, p)) if p else d


ERR = {None: "ok", "ENOENT": "enoent", "EEXIST": "eexist", "ENOTEMPTY": "enotempty", "ENOTDIR": "enotdir",
       "EISDIR": "eisdir", "EXDEV": "exdev"}

DIR_NAMES = re.compile(r"^(C|C/joblib|C/joblib/M|C/joblib/M/F|C/joblib/M/F/E\w+)$")


class Canon:
    """Canonicaliser for one scratch cache directory.

    root     absolute path of the directory given to `Memory(location=…)`  (-> `C`)
    mod, fn  module directory / function directory names under `<root>/joblib` (-> `M`, `F`)
    argmap   {args_id hex digest: argument label}  (-> `E<label>`)
    """

    def __init__(self, root, mod, fn, argmap):
        self.root = os.path.normpath(str(root))
        self.mod, self.fn, self.argmap = mod, fn, dict(argmap)
        self.participants = {}  # temp-file suffix -> index

    def path(self, p):
        if p is None:
            return None
        p = os.path.normpath(p)
        if p != self.root and not p.startswith(self.root + "/"):
            return None
        rel = p[len(self.root):].strip("/")
        parts = rel.split("/") if rel else []
        out = ["C"]
        for i, x in enumerate(parts):
            if i == 1 and x == self.mod and parts[0] == "joblib":
                out.append("M")
            elif i == 2 and x == self.fn and out[-1] == "M":
                out.append("F")
            elif i == 3 and out[-1] == "F" and x in self.argmap:
                out.append("E" + str(self.argmap[x]))
            else:
                m = re.match(r"^(.*)\.(thread-\d+-pid-\d+)$", x)
                if m:
                    k = self.participants.setdefault(m.group(2), len(self.participants))
                    out.append(f"{m.group(1)}.tmp{k}")
                else:
                    out.append(x)
        return "/".join(out)

    def name(self, n):
        """Canonical form of a directory-entry name returned by readdir."""
        if n in self.argmap:
            return "E" + str(self.argmap[n])
        if n == self.mod:
            return "M"
        if n == self.fn:
            return "F"
        m = re.match(r"^(.*)\.(thread-\d+-pid-\d+)$", n)
        if m:
            k = self.participants.setdefault(m.group(2), len(self.participants))
            return f"{m.group(1)}.tmp{k}"
        return n

    def canon(self, calls, with_tid=False, with_raw_index=False):
        """-> list of op strings (or (tid, op) / (tid, op, raw_index) tuples)."""
        ops = []
        open_files = {}  # (fd path) bookkeeping is by path: -y gives us the path of every fd

        def emit(tid, s, idx):
            if with_raw_index:
                ops.append((tid, s, idx))
            elif with_tid:
                ops.append((tid, s))
            else:
                ops.append(s)

        # state for merging write/read/getdents per open file description: keyed by (fd number) since threads share fds
        fdstate = {}  # fd -> dict(kind, path, used)
        gd_last = {}  # fd -> index in ops of the listing being read, None after its terminator
        for idx, c in enumerate(calls):
            nm, tid = c["name"], c["tid"]
            a = _split_args(c["args"])
            if c["ret"] is None:
                continue  # killed inside / never returned: not executed (injection is on syscall entry)
            err = c["err"]
            res = ERR.get(err, (err or "").lower())
            try:
                if nm in ("open", "openat", "creat"):
                    if nm == "openat":
                        p, flags = _at(a[0], a[1]), a[2]
                    elif nm == "open":
                        p, flags = os.path.normpath(_q(a[0])), a[1]
                    else:
                        p, flags = os.path.normpath(_q(a[0])), "O_WRONLY|O_CREAT|O_TRUNC"
                    cp = self.path(p)
                    if cp is None or "O_PATH" in flags:  # O_PATH: a handle of the harness, not an access
                        if c["ret"] >= 0:
                            fdstate.pop(c["ret"], None)
                        continue
                    if "O_WRONLY" in flags or "O_RDWR" in flags:
                        kind = "creat"
                    elif "O_DIRECTORY" in flags or DIR_NAMES.match(cp):
                        kind = "opendir"
                    else:
                        kind = "openr"
                    emit(tid, f"{kind} {cp} {res}", idx)
                    if c["ret"] >= 0:
                        fdstate[c["ret"]] = dict(kind=kind, path=cp, used=False)
                elif nm == "getdents64":
                    fd = int(re.match(r"^(-?\d+)", a[0]).group(1))
                    cp = self.path(_fdpath(a[0]))
                    if cp is None:
                        continue
                    names = [self.name(x) for x in re.findall(r'd_name="((?:[^"\\]|\\.)*)"', c["args"]) if x not in (".", "..")]
                    if c["ret"] > 0:
                        if gd_last.get(fd) is not None and ops and gd_last[fd] == len(ops) - 1:
                            # a long directory: several getdents64 calls, merged
                            prev = ops[-1]
                            s0 = prev if isinstance(prev, str) else prev[1]
                            head, old_names = s0.rsplit(" ", 1)
                            s1 = head + " " + ",".join(([] if old_names == "-" else old_names.split(",")) + names)
                            ops[-1] = s1 if isinstance(prev, str) else (prev[0], s1) + tuple(prev[2:])
                        else:
                            emit(tid, f"readdir {cp} " + (",".join(names) or "-"), idx)
                            gd_last[fd] = len(ops) - 1
                    else:
                        if gd_last.get(fd) is not None:
                            gd_last[fd] = None  # the terminating empty read of a listing already reported
                        else:
                            emit(tid, f"readdir {cp} -", idx)  # directory removed after it was opened
                elif nm in ("write", "pwrite64", "read", "sendfile", "copy_file_range"):
                    fda = a[2] if nm == "copy_file_range" else a[0]  # the destination descriptor
                    fd = int(re.match(r"^(-?\d+)", fda).group(1))
                    st = fdstate.get(fd)
                    if st is None:
                        continue
                    want = "openr" if nm == "read" else "creat"
                    if st["kind"] != want:
                        continue
                    # the name the open file has NOW (strace -y): a temporary that was renamed meanwhile shows its new name
                    cur = self.path(_fdpath(fda)) or st["path"]
                    if not st["used"] or cur != st.get("cur", st["path"]):
                        emit(tid, f"{'write' if want == 'creat' else 'read'} {cur}", idx)
                        st["used"] = True
                        st["cur"] = cur
                elif nm in ("mkdir", "mkdirat"):
                    p = os.path.normpath(_q(a[0])) if nm == "mkdir" else _at(a[0], a[1])
                    cp = self.path(p)
                    if cp is not None:
                        emit(tid, f"mkdir {cp} {res}", idx)
                elif nm in ("rename", "renameat", "renameat2"):
                    if nm == "rename":
                        p, q = os.path.normpath(_q(a[0])), os.path.normpath(_q(a[1]))
                    else:
                        p, q = _at(a[0], a[1]), _at(a[2], a[3])
                    cp, cq = self.path(p), self.path(q)
                    if cp is not None or cq is not None:
                        emit(tid, f"rename {cp} {cq} {res}", idx)
                elif nm in ("unlink", "rmdir"):
                    cp = self.path(os.path.normpath(_q(a[0])))
                    if cp is not None:
                        emit(tid, f"{nm} {cp} {res}", idx)
                elif nm == "unlinkat":
                    cp = self.path(_at(a[0], a[1]))
                    if cp is not None:
                        emit(tid, f"{'rmdir' if 'AT_REMOVEDIR' in a[2] else 'unlink'} {cp} {res}", idx)
                elif nm in ("stat", "lstat"):
                    cp = self.path(os.path.normpath(_q(a[0])))
                    if cp is not None:
                        emit(tid, f"stat {cp} {'yes' if err is None else 'no'}", idx)
                elif nm in ("newfstatat", "statx"):
                    if _q(a[1]) == "":
                        continue  # fstat of an open fd
                    cp = self.path(_at(a[0], a[1]))
                    if cp is not None:
                        emit(tid, f"stat {cp} {'yes' if err is None else 'no'}", idx)
                elif nm in ("ftruncate", "truncate", "link", "linkat", "symlink", "symlinkat"):
                    if self.root in c["args"]:
                        emit(tid, f"{nm} ? unexpected", idx)
            except (IndexError, TypeError, AttributeError):
                continue
        return ops


def kill_points(calls, canon: Canon):
    """For a clean run: the `when=` values (1-based count over KILL_SET syscalls of the whole process) at which a kill
    lands on a syscall under the cache directory. -> list of dict(when, op, op_index) in order."""
    ops = canon.canon(calls, with_raw_index=True)
    raw_to_op = {idx: (i, s) for i, (_, s, idx) in enumerate(ops)}
    pts, per = [], {}
    for idx, c in enumerate(calls):
        if c["name"] in KILL_NAMES:
            per[c["name"]] = per.get(c["name"], 0) + 1
            when = (c["name"], per[c["name"]])
            if idx in raw_to_op:
                i, s = raw_to_op[idx]
                pts.append(dict(when=when, op=s, op_index=i))
            else:
                # a later write(2) of a merged `write P`: still a crash point
                a = _split_args(c["args"])
                p = None
                if a and c["name"] in ("write", "pwrite64", "sendfile"):
                    p = _fdpath(a[0])
                elif len(a) > 2 and c["name"] == "copy_file_range":
                    p = _fdpath(a[2])
                cp = canon.path(p) if p else None
                if cp is not None:
                    pts.append(dict(when=when, op=f"write+ {cp}", op_index=None))
    return pts


# --------------------------------------------------------------------------------------------- the workload process

# The source of the cached function contains 2-, 3- and 4-byte UTF-8 characters (docstring, identifier, string constant):
# func_code.py is written in place, so a kill can tear it inside a character.
# The function is NOT pure: its value is tagged with the epoch the harness controls (`EPOCH`, set by the workload process
# from the epoch file named in its spec; 0 = the value has the historical 3-element form).
MOD_TEMPLATE = '''CALLS = []
EPOCH = 0


def f(x):
    """Doubles x (2π, ☃, 😀)."""
    naïve = "☃😀π"
    CALLS.append(x)
    return [x, x * 2, "{version}"] + ([EPOCH] if EPOCH else []) if naïve else None
'''

EPOCH_SHIFT = 1.0e6      # seconds by which `time.time()` is shifted per epoch in a workload process (no sleeps)
EXPIRY_DELTA = 5.0e5     # `expires_after(seconds=EXPIRY_DELTA)`: an entry of an earlier epoch has expired, one of this epoch not


def write_module(moddir, version):
    os.makedirs(moddir, exist_ok=True)
    with open(os.path.join(moddir, "wl_mod.py"), "w", encoding="utf-8") as fh:
        fh.write(MOD_TEMPLATE.format(version=version))


def expected(version, x, epoch=0):
    return [x, x * 2, version] + ([epoch] if epoch else [])


def value_epoch(v):
    """Epoch tag of a value of `f` (None when it is not a value of `f`)."""
    if isinstance(v, list) and len(v) in (3, 4) and v[1] == 2 * v[0]:
        return v[3] if len(v) == 4 else 0
    return None


def _worker(spec):
    import warnings

    if spec.get("tmpdir"):
        # the environment is an input: where the system temporary folder is (possibly another file system than the cache)
        import tempfile

        os.environ["TMPDIR"] = spec["tmpdir"]
        tempfile.tempdir = None
    sys.path.insert(0, spec["repo"])
    sys.path.insert(0, spec["moddir"])
    sys.dont_write_bytecode = True
    import joblib  # noqa
    from joblib import Memory, expires_after
    import wl_mod

    # the epoch this process lives in (read from the file the harness wrote): the value of `f` and `time.time()` follow it
    epoch = 0
    if spec.get("epoch_file"):
        epoch = int(open(spec["epoch_file"]).read().strip() or 0)
    wl_mod.EPOCH = epoch
    if epoch:
        import time as _time

        _real_time = _time.time
        _time.time = lambda: _real_time() + epoch * EPOCH_SHIFT

    if not os.path.realpath(joblib.__file__).startswith(os.path.realpath(spec["repo"]) + os.sep):
        print(json.dumps(dict(infra="joblib imported from " + joblib.__file__)))
        return 3
    warnings.simplefilter("ignore")
    out = dict(results=[], version=None)
    act = spec["action"]
    cb = None
    if spec.get("callback") == "long":
        cb = expires_after(days=1)
    elif spec.get("callback") == "now":
        cb = expires_after(seconds=-1)
    elif spec.get("callback") == "since":
        # "valid iff stored at or after the threshold instant" — `expires_after` seen from a fixed instant
        thr = float(spec["threshold"])

        def cb(metadata, _thr=thr):
            return "time" in metadata and metadata["time"] >= _thr
    elif spec.get("callback") == "expafter":
        cb = expires_after(seconds=EXPIRY_DELTA)  # the real helper; entries of an earlier epoch are EPOCH_SHIFT older
    elif spec.get("callback") is not None:
        print(json.dumps(dict(infra="unknown callback " + str(spec.get("callback")))))
        return 3
    try:
        mem = Memory(spec["cache"], verbose=0, compress=bool(spec.get("compress")))
    except BaseException as e:  # noqa: BLE001
        out["results"].append(dict(arg=None, outcome=["raise", type(e).__name__, str(e)[:200], "Memory()"]))
        print(json.dumps(out))
        return 0
    if act == "args_ids":
        cf = mem.cache(wl_mod.f)
        print(json.dumps(dict(func_id=cf.func_id, ids={str(a): cf._get_args_id(a) for a in spec["args"]})))
        return 0
    if act == "call":
        try:
            cf = mem.cache(wl_mod.f, cache_validation_callback=cb)
        except BaseException as e:  # noqa: BLE001
            out["results"].append(dict(arg=None, outcome=["raise", type(e).__name__, str(e)[:200], "cache()"]))
            print(json.dumps(out))
            return 0
        for a in spec["args"]:
            n0 = len(wl_mod.CALLS)
            try:
                if spec.get("shelve"):
                    v = cf.call_and_shelve(a).get()
                else:
                    v = cf(a)
                oc = ["ok", v]
            except BaseException as e:  # noqa: BLE001
                oc = ["raise", type(e).__name__, str(e)[:200]]
            out["results"].append(dict(arg=a, outcome=oc, executed=len(wl_mod.CALLS) - n0))
    elif act == "reduce":
        try:
            mem.reduce_size(items_limit=spec.get("items_limit"), bytes_limit=spec.get("bytes_limit"))
            out["results"].append(dict(arg=None, outcome=["ok", None]))
        except BaseException as e:  # noqa: BLE001
            out["results"].append(dict(arg=None, outcome=["raise", type(e).__name__, str(e)[:200]]))
    elif act == "clear":
        try:
            mem.clear(warn=False)
            out["results"].append(dict(arg=None, outcome=["ok", None]))
        except BaseException as e:  # noqa: BLE001
            out["results"].append(dict(arg=None, outcome=["raise", type(e).__name__, str(e)[:200]]))
    else:
        print(json.dumps(dict(infra="unknown action " + str(act))))
        return 3
    print(json.dumps(out))
    return 0


def worker_cmd(spec_path):
    return [PY, "-B", os.path.abspath(__file__), "worker", str(spec_path)]


if __name__ == "__main__":
    if len(sys.argv) == 3 and sys.argv[1] == "worker":
        sys.exit(_worker(json.loads(open(sys.argv[2]).read())))
    print(__doc__)
    sys.exit(2)
