"""Recursive object generator for the C03 round-trip runs (and the container shells of C19).

Importable (`harness.objs`) so that instances of the user classes below pickle by reference under every
protocol.  Everything is generated from a `random.Random` passed in; `canon(obj)` turns an object graph into a
plain nested tuple that records values, types, container order AND the identity structure (which mutable
objects are shared, where the cycles are), so that `canon(load(dump(x))) == canon(x)` is the round-trip
oracle: equal values, shared and recursive references preserved.
"""

from __future__ import annotations

import collections
import dataclasses
import enum
import math
import struct

# ----------------------------------------------------------------------------- user classes


class Plain:
    """Ordinary class: state in __dict__."""

    def __init__(self, **kw):
        self.__dict__.update(kw)


class Slotted:
    __slots__ = ("a", "b")

    def __init__(self, a=None, b=None):
        self.a = a
        self.b = b


class WithState:
    """Custom __getstate__/__setstate__ (state is a tuple, not a dict)."""

    def __init__(self, x, y):
        self.x = x
        self.y = y

    def __getstate__(self):
        return (self.x, self.y, "tag")

    def __setstate__(self, st):
        self.x, self.y, tag = st
        assert tag == "tag"


class WithReduce:
    """Custom __reduce__ with constructor arguments, state, list items and dict items."""

    def __init__(self, n):
        self.n = n
        self.items = []
        self.kv = {}
        self.extra = None

    def append(self, v):
        self.items.append(v)

    def extend(self, vs):
        self.items.extend(vs)

    def __setitem__(self, k, v):
        self.kv[k] = v

    def __reduce__(self):
        return (WithReduce, (self.n,), {"extra": self.extra}, iter(self.items), iter(self.kv.items()))


class ListSub(list):
    """list subclass with an attribute."""


class DictSub(dict):
    """dict subclass with an attribute."""


@dataclasses.dataclass
class Data:
    name: str
    values: list
    nested: object = None


Point = collections.namedtuple("Point", "x y")


class Color(enum.Enum):
    RED = 1
    GREEN = "g"


def module_function(x):
    return x


# ----------------------------------------------------------------------------- scalars

INTS = [0, 1, -1, 255, 256, 65535, 65536, -32768, 2**31 - 1, 2**31, -(2**31), -(2**31) - 1, 2**32, 2**63 - 1, 2**63,
        -(2**63), 2**64, 2**70, -(2**70), 10**40, 2**2040, -(2**2048)]
FLOATS = [0.0, -0.0, 1.5, -2.25, 1e308, 5e-324, float("inf"), float("-inf"), float("nan"), 0.1, 1 / 3]
STRS = ["", "a", "abc", "é", "日本語", " line", "\x00nul", "a\nb", "tab\there", "quote'\"", "\\back", "😀",
        "\ud800", "x" * 255, "y" * 256, "\r\n", " lead", "trail "]
BYTES = [b"", b"a", b"\x00", b"\xff" * 3, b"\n", b"abc" * 85, b"d" * 256, bytes(range(256))]


def scalar(rng):
    k = rng.randrange(12)
    if k == 0:
        return None
    if k == 1:
        return rng.choice([True, False])
    if k == 2:
        return rng.choice(INTS)
    if k == 3:
        return rng.randint(-1000, 1000)
    if k == 4:
        return rng.choice(FLOATS)
    if k == 5:
        return complex(rng.choice(FLOATS[:8]), rng.choice(FLOATS[:8]))
    if k == 6:
        return rng.choice(STRS)
    if k == 7:
        return rng.choice(BYTES)
    if k == 8:
        return rng.choice([Color.RED, Color.GREEN, Ellipsis, NotImplemented, int, Plain, module_function, len, range(3),
                           slice(1, None, 2), type(None)])
    if k == 9:
        return rng.getrandbits(rng.choice([8, 16, 31, 32, 33, 63, 64, 65, 200]))
    if k == 10:
        return "".join(rng.choice("abcdefgh é日\n") for _ in range(rng.randint(0, 12)))
    return bytes(rng.getrandbits(8) for _ in range(rng.randint(0, 12)))


def hashable(rng, depth=0):
    """Something that can be a dict key / set element (and whose hash does not depend on identity)."""
    k = rng.randrange(8 if depth < 2 else 6)
    if k == 0:
        return rng.choice([None, True, False])
    if k == 1:
        return rng.choice(INTS)
    if k == 2:
        return rng.choice([f for f in FLOATS if f == f])
    if k == 3:
        return rng.choice(STRS)
    if k == 4:
        return rng.choice(BYTES)
    if k == 5:
        return rng.randint(-50, 50)
    if k == 6:
        return tuple(hashable(rng, depth + 1) for _ in range(rng.randint(0, 3)))
    return frozenset(hashable(rng, depth + 2) for _ in range(rng.randint(0, 3)))


# ----------------------------------------------------------------------------- recursive generator


class Gen:
    """Builds one object graph; keeps a pool of already built mutable objects to share / to close cycles."""

    def __init__(self, rng, max_depth=4, share=0.15):
        self.rng = rng
        self.max_depth = max_depth
        self.share = share
        self.pool = []  # mutable objects built so far (candidates for sharing and cycles)

    def value(self, depth=0):
        rng = self.rng
        if self.pool and rng.random() < self.share:
            return rng.choice(self.pool)  # shared or (if it is an ancestor) recursive reference
        if depth >= self.max_depth or rng.random() < 0.35:
            return scalar(rng)
        k = rng.randrange(14)
        n = rng.choice([0, 1, 1, 2, 3, 4])
        if k == 0:
            out = []
            self.pool.append(out)
            out.extend(self.value(depth + 1) for _ in range(n))
            return out
        if k == 1:
            return tuple(self.value(depth + 1) for _ in range(n))
        if k == 2:
            out = {}
            self.pool.append(out)
            for _ in range(n):
                out[hashable(rng)] = self.value(depth + 1)
            return out
        if k == 3:
            out = set()
            self.pool.append(out)
            for _ in range(n):
                out.add(hashable(rng))
            return out
        if k == 4:
            return frozenset(hashable(rng) for _ in range(n))
        if k == 5:
            out = Plain()
            self.pool.append(out)
            for i in range(n):
                setattr(out, f"f{i}", self.value(depth + 1))
            if rng.random() < 0.3:
                out.me = out  # direct self reference
            return out
        if k == 6:
            out = Slotted()
            self.pool.append(out)
            out.a = self.value(depth + 1)
            out.b = self.value(depth + 1)
            return out
        if k == 7:
            out = WithState(None, None)
            self.pool.append(out)
            out.x = self.value(depth + 1)
            out.y = self.value(depth + 1)
            return out
        if k == 8:
            out = WithReduce(rng.randint(0, 9))
            self.pool.append(out)
            out.extra = self.value(depth + 1)
            for _ in range(n):
                out.append(self.value(depth + 1))
            for _ in range(rng.randint(0, 2)):
                out[hashable(rng)] = self.value(depth + 1)
            return out
        if k == 9:
            out = ListSub()
            self.pool.append(out)
            out.tag = self.value(depth + 1)
            out.extend(self.value(depth + 1) for _ in range(n))
            return out
        if k == 10:
            out = DictSub()
            self.pool.append(out)
            out.tag = rng.choice(STRS)
            for _ in range(n):
                out[hashable(rng)] = self.value(depth + 1)
            return out
        if k == 11:
            out = Data(rng.choice(STRS), [])
            self.pool.append(out)
            out.values.extend(self.value(depth + 1) for _ in range(n))
            out.nested = self.value(depth + 1)
            return out
        if k == 12:
            return Point(self.value(depth + 1), self.value(depth + 1))
        out = bytearray(rng.getrandbits(8) for _ in range(rng.randint(0, 20)))
        self.pool.append(out)
        return out


def gen_object(rng, max_depth=4, share=0.15):
    return Gen(rng, max_depth, share).value(0)


# sizes around the 8 KiB decompression block, pickle's 64 KiB frame target, the 1 MiB io buffer
SIZE_POINTS = {
    "8k": [8191, 8192, 8193],
    "64k": [65535, 65536, 65537],
    "1m": [1048575, 1048576, 1048577],
}


def sized_object(rng, size_class):
    """An object whose pickle is around the given size boundary: one large leaf inside a small shell."""
    n = rng.choice(SIZE_POINTS[size_class])
    n = max(0, n + rng.choice([0, 0, -3, 5, -40, 41]))
    kind = rng.randrange(6)
    if kind == 0:
        leaf = bytes(rng.getrandbits(8) for _ in range(257)) * (n // 257) + b"z" * (n % 257)
    elif kind == 1:
        leaf = ("héllo wörld " * (n // 12 + 1))[:n]
    elif kind == 2:
        leaf = bytearray(b"\x00\x01\xfe\xff" * (n // 4 + 1))[:n]
    elif kind == 3:
        leaf = list(range(n // 5 + 1))  # many small opcodes: crosses frames and the 1000-item batches
    elif kind == 4:
        leaf = {i: str(i) for i in range(n // 12 + 1)}
    else:
        leaf = [rng.random() for _ in range(n // 9 + 1)]
    shell = rng.randrange(4)
    if shell == 0:
        return leaf
    if shell == 1:
        return [leaf, leaf, "tail"]  # shared large leaf
    if shell == 2:
        p = Plain(big=leaf, small=1)
        p.me = p
        return p
    return {"k": leaf, "t": (1, 2.5, None), "l": [leaf]}


BIG_SIZES = {"1m+": [1048575, 1048576, 1048577], "2m": [2 * 1048576], "5m": [5 * 1048576]}


def big_leaf_object(rng, size_class):
    """One single large leaf (bytes / str / bytearray) — handed to the target's write() in ONE call by the
    pickler — inside a small shell, with something pickled after it."""
    n = rng.choice(BIG_SIZES[size_class])
    kind = rng.randrange(3)
    if kind == 0:
        leaf = bytes(rng.getrandbits(8) for _ in range(4099)) * (n // 4099) + b"q" * (n % 4099)
    elif kind == 1:
        leaf = ("0123456789abcdef" * (n // 16 + 1))[:n]
    else:
        leaf = bytearray(b"\x00\x7f\x80\xff" * (n // 4 + 1))[:n]
    shell = rng.randrange(3)
    if shell == 0:
        return [leaf, ("after", 1, 2.5)]
    if shell == 1:
        return {"blob": leaf, "again": [leaf], "tail": None}
    return Plain(big=leaf, tail="t")


def batch_object(rng):
    """Lists / dicts / sets whose lengths straddle pickle's 1000-item batching."""
    n = rng.choice([999, 1000, 1001, 1999, 2000, 2001])
    k = rng.randrange(3)
    if k == 0:
        return [i if i % 7 else None for i in range(n)]
    if k == 1:
        return {i: i * 2 for i in range(n)}
    return set(range(n))


# ----------------------------------------------------------------------------- canonical form

_IDENTITY_TYPES = (list, dict, set, bytearray)


def _tracks_identity(o):
    if isinstance(o, _IDENTITY_TYPES):
        return True
    t = type(o)
    return t.__module__ == __name__ and not isinstance(o, (tuple, enum.Enum)) and not isinstance(o, type)


def _float_key(f):
    return ("float", struct.pack(">d", f).hex()) if f == f else ("float", "nan")


def canon(obj):
    """Nested tuples describing values, types, order and identity structure. Iterative-safe for cycles;
    recursion depth is bounded by the generator's depth (large leaves are flat)."""
    seen = {}

    def go(o):
        if _tracks_identity(o):
            k = id(o)
            if k in seen:
                return ("ref", seen[k])
            seen[k] = len(seen)
            me = seen[k]
        else:
            me = None
        t = type(o)
        if o is None or o is Ellipsis or o is NotImplemented:
            return repr(o)
        if t is bool:
            return ("bool", o)
        if t is int:
            return ("int", o)
        if t is float:
            return _float_key(o)
        if t is complex:
            return ("complex", _float_key(o.real), _float_key(o.imag))
        if t is str:
            return ("str", o.encode("utf-8", "surrogatepass").hex() if len(o) < 64 else (len(o), hash_bytes(o.encode("utf-8", "surrogatepass"))))
        if t is bytes:
            return ("bytes", o.hex() if len(o) < 64 else (len(o), hash_bytes(o)))
        if t is bytearray:
            return ("bytearray", me, len(o), hash_bytes(bytes(o)))
        if t is tuple:
            return ("tuple",) + tuple(go(x) for x in o)
        if t is Point:
            return ("Point",) + tuple(go(x) for x in o)
        if t is list or t is ListSub:
            head = (t.__name__, me)
            if t is ListSub:
                head += (go(getattr(o, "tag", None)),)
            return head + tuple(go(x) for x in o)
        if t is dict or t is DictSub:
            head = (t.__name__, me)
            if t is DictSub:
                head += (go(getattr(o, "tag", None)),)
            return head + tuple((go(k), go(v)) for k, v in o.items())
        if t is set:
            return ("set", me) + tuple(sorted((go(x) for x in o), key=repr))
        if t is frozenset:
            return ("frozenset",) + tuple(sorted((go(x) for x in o), key=repr))
        if t is Plain:
            return ("Plain", me) + tuple((k, go(v)) for k, v in o.__dict__.items())
        if t is Slotted:
            return ("Slotted", me, go(o.a), go(o.b))
        if t is WithState:
            return ("WithState", me, go(o.x), go(o.y))
        if t is WithReduce:
            return ("WithReduce", me, o.n, go(o.extra), tuple(go(x) for x in o.items),
                    tuple((go(k), go(v)) for k, v in o.kv.items()))
        if t is Data:
            return ("Data", me, go(o.name), go(o.values), go(o.nested))
        if isinstance(o, enum.Enum):
            return ("enum", t.__name__, o.name)
        if t is range:
            return ("range", o.start, o.stop, o.step)
        if t is slice:
            return ("slice", go(o.start), go(o.stop), go(o.step))
        if isinstance(o, type) or callable(o):
            return ("global", getattr(o, "__module__", None), getattr(o, "__qualname__", repr(o)))
        raise TypeError(f"canon: unsupported {t}")

    return go(obj)


def hash_bytes(b):
    import hashlib

    return hashlib.sha1(b).hexdigest()


def describe(obj, limit=200):
    r = repr(canon(obj))
    return r if len(r) <= limit else r[:limit] + f"…(+{len(r) - limit})"


def is_finite(x):
    return not (isinstance(x, float) and (math.isnan(x) or math.isinf(x)))
