"""C04 — exception transport of the pool backends (worker-side traceback capture).

Model: lean/JoblibModel/ExcTransport.lean (`wrap`, `transport`, `retrieve`, `poolRaw`, `deliver`); theorems
C04.transport_preserves_outcome, C04.thread_transport_is_exact, C04.raw_pool_exception_is_raised,
C04.returned_exception_instance_is_raised_witness, C04.transport_table (lean/JoblibProofs/C04.lean).

THIS TIE IS A TRANSCRIPTION, NOT A DRIVER RUN. The functions `m_*` below are a Python transcription of the Lean
definitions, function for function (the Lean text is quoted above each). A Lean driver executable for this model
would have meant editing the shared lakefile / ParallelDriver, ruled out for this late increment. What keeps the
transcription honest: `C04.transport_table` proves (by `decide`) the value of the model's finite table
`ExcTransport.table`; `table_check` READS the literal rows of that theorem from lean/JoblibProofs/C04.lean and compares
them with what `m_deliver` computes on the same inputs; a missing / changed row is a divergence.

`probe(ctx, res)` runs the REAL `_TracebackCapturingWrapper`, `PoolManagerMixin.retrieve_result_callback`
(= `_retrieve_traceback_capturing_wrapped_call`), loky's `_ExceptionWithTraceback` and `pickle` in-process on synthetic
task functions × three channels:
  none    the object is handed over as it is                                  (model: Transport.thread)
  pickle  pickle.loads(pickle.dumps(·)) of what the wrapper returned           (model: Transport.process)
  reduce  `_ExceptionWithTraceback.__reduce__` taken by hand: rebuild(*pickle round trip of its args); other objects:
          pickle round trip                                                   (model: Transport.process)
and the pool's raw-exception path (`error_callback=callback`: checked on the real `PoolManagerMixin.submit` with a
recording pool). Compared: the outcome class (ret-list / ret-exc / raised / raised-with-remote-traceback /
transport-error). Oracle independent of the model: a task that raised (cls, args) must never yield a return value and,
when something is raised, it has the same class and args; a returned list comes back as an equal list.
"""

import pickle
import re

from . import core

KIND = "exc-transport"
STREAM = "exc-transport"
CHANNELS = {"none": "thread", "pickle": "process", "reduce": "process"}


# ----------------------------------------------------------------------------- transcription of the model
# ExcV = (cls, args, cause)      Val = ("list", xs) | ("excInst", e)      Outcome = ("returns", v) | ("raises", e)
# Wire = ("val", v) | ("ewt", e, tb)      Delivered = ("ret", v) | ("raised", e) | ("transportError",)


def m_wrap(o, tb):
    """def wrap (o) (tb) : Wire := match o with | .returns v => .val v | .raises e => .ewt e tb"""
    return ("val", o[1]) if o[0] == "returns" else ("ewt", o[1], tb)


def m_rebuild_exc(e, tb):
    """def rebuildExc (e) (tb) : ExcV := { e with cause := some tb }"""
    return (e[0], e[1], tb)


def m_transport(t, rt, w):
    """| .thread, w => some w | .process, .val (.list xs) => some (.val (.list xs))
    | .process, .val (.excInst e) => (rt e).map fun e' => .val (.excInst e')
    | .process, .ewt e tb => (rt e).map fun e' => .val (.excInst (rebuildExc e' tb))"""
    if t == "thread":
        return w
    if w[0] == "val" and w[1][0] == "list":
        return w
    if w[0] == "val":
        e2 = rt(w[1][1])
        return None if e2 is None else ("val", ("excInst", e2))
    e2 = rt(w[1])
    return None if e2 is None else ("val", ("excInst", m_rebuild_exc(e2, w[2])))


def m_retrieve(w):
    """let out := match w with | .ewt e tb => .excInst (rebuildExc e tb) | .val v => v
    match out with | .excInst e => .raised e | .list xs => .ret (.list xs)"""
    out = ("excInst", m_rebuild_exc(w[1], w[2])) if w[0] == "ewt" else w[1]
    return ("raised", out[1]) if out[0] == "excInst" else ("ret", out)


def m_pool_raw(e):
    """def poolRaw (e) : Wire := .val (.excInst e)"""
    return ("val", ("excInst", e))


def m_deliver(t, rt, o, tb):
    """match transport t rt (wrap o tb) with | some w => retrieve w | none => .transportError"""
    w = m_transport(t, rt, m_wrap(o, tb))
    return ("transportError",) if w is None else m_retrieve(w)


def m_cls(d):
    """Delivered.cls"""
    if d[0] == "ret":
        return "ret-list" if d[1][0] == "list" else "ret-exc"
    if d[0] == "raised":
        return "raised-with-remote-traceback" if d[1][2] is not None else "raised"
    return "transport-error"


def m_rt_grid(e):
    """def rtGrid (e) := if e.cls = 9 then none else some { e with cause := none }"""
    return None if e[0] == 9 else (e[0], e[1], None)


# the inputs of ExcTransport.table, by kind
KIND_INPUT = {
    "returns-list": ("returns", ("list", [1, 2])),
    "returns-exc": ("returns", ("excInst", (1, [3], None))),
    "raises": ("raises", (1, [3], None)),
    "raises-unrebuildable": ("raises", (9, [3], None)),
    "returns-exc-unrebuildable": ("returns", ("excInst", (9, [3], None))),
}


def model(transport, kind):
    return m_cls(m_deliver(transport, m_rt_grid, KIND_INPUT[kind], 5))


def table_check(res):
    """the literal rows of theorem C04.transport_table == the transcription"""
    text = (core.LEAN / "JoblibProofs" / "C04.lean").read_text()
    m = re.search(r"theorem transport_table : table = \[(.*?)\] := by decide", text, re.S)
    rows = re.findall(r'\("([\w-]+)", "([\w-]+)", "([\w-]+)"\)', m.group(1)) if m else []
    want = {(t, k) for t in ("thread", "process") for k in KIND_INPUT}
    if {(t, k) for t, k, _ in rows} != want or len(rows) != len(want):
        res.diverge(STREAM, dict(kind=KIND, what="transport_table rows"), sorted((t, k) for t, k, _ in rows), sorted(want))
    for t, k, v in rows:
        res.evaluations += 1
        if (t, k) in want and model(t, k) != v:
            res.diverge(STREAM, dict(kind=KIND, what="transcription vs C04.transport_table", transport=t, task=k), model(t, k), v)
    res.count("exc-transport:table-rows", len(rows))


# ----------------------------------------------------------------------------- synthetic tasks (module level: picklable)


class AppError(Exception):
    pass


class CustomBase(BaseException):
    pass


class NoRebuild(Exception):
    """pickles (class, self.args) but cls(*args) fails: the instance cannot be rebuilt in the parent"""

    def __init__(self, a, b):
        super().__init__(a)
        self.b = b


def _unpicklable():
    return lambda: 0


def tasks(rng):
    """name -> (kind, thunk building the task function, what it raises/returns as (class, args) or the list)"""
    r = lambda: rng.choice([0, 1, -1, 2**40, "x", "", ("a", 1), None, 2.5, b"\x00"])
    a1, a2, a3 = r(), r(), r()
    out = {
        "list": ("returns-list", ("ret", [a1, a2, [a3]])),
        "empty-list": ("returns-list", ("ret", [])),
        "list-holding-exception": ("returns-list", ("ret", [a1, ValueError(3)])),
        "returns-ValueError": ("returns-exc", ("ret", ValueError(a1))),
        "returns-KeyboardInterrupt": ("returns-exc", ("ret", KeyboardInterrupt())),
        "returns-NoRebuild": ("returns-exc-unrebuildable", ("ret", NoRebuild(a1, a2))),
        "ValueError": ("raises", ("raise", ValueError, (a1, a2))),
        "KeyError": ("raises", ("raise", KeyError, (a1,))),
        "no-args": ("raises", ("raise", RuntimeError, ())),
        "OSError-2": ("raises", ("raise", OSError, (2, "gone"))),
        "AppError": ("raises", ("raise", AppError, (a1, a2, a3))),
        "SystemExit": ("raises", ("raise", SystemExit, (3,))),
        "KeyboardInterrupt": ("raises", ("raise", KeyboardInterrupt, ())),
        "GeneratorExit": ("raises", ("raise", GeneratorExit, ())),
        "CustomBase": ("raises", ("raise", CustomBase, (a1, a2))),
        "unpicklable-args": ("raises-unrebuildable", ("raise", ValueError, (_unpicklable(),))),
        "NoRebuild": ("raises-unrebuildable", ("raise", NoRebuild, (a1, a2))),
    }
    return out


def make_func(spec):
    if spec[0] == "ret":
        return lambda: spec[1]

    def f():
        raise spec[1](*spec[2])

    return f


def same_list(a, b):
    """equal lists; exception instances compare by class and args"""
    if type(a) is not list or type(b) is not list or len(a) != len(b):
        return False
    for x, y in zip(a, b):
        if isinstance(x, BaseException):
            if type(x) is not type(y) or x.args != y.args:
                return False
        elif type(x) is list:
            if not same_list(x, y):
                return False
        elif x != y or type(x) is not type(y):
            return False
    return True


def run_real(joblib_utils, mixin, ewt_cls, remote_tb_cls, spec, channel):
    """-> (outcome class, the exception raised or the value returned or None)"""
    try:
        out = joblib_utils._TracebackCapturingWrapper(make_func(spec))()
    except BaseException as e:  # noqa: B036 — the wrapper must never let the task's exception out (a pool worker would die)
        return "escaped-the-wrapper", e
    try:
        if channel == "pickle":
            out = pickle.loads(pickle.dumps(out))
        elif channel == "reduce":
            if isinstance(out, ewt_cls):
                rebuild, args = out.__reduce__()
                out = rebuild(*pickle.loads(pickle.dumps(args)))
            else:
                out = pickle.loads(pickle.dumps(out))
    except Exception:
        return "transport-error", None
    try:
        got = mixin.retrieve_result_callback(None, out)
    except BaseException as e:  # noqa: B036 — SystemExit / KeyboardInterrupt are grid points
        return ("raised-with-remote-traceback" if isinstance(e.__cause__, remote_tb_cls) else "raised"), e
    if isinstance(got, list):
        return "ret-list", got
    return ("ret-exc" if isinstance(got, BaseException) else "ret-other"), got


def judge(res, name, kind, spec, channel, cls, obj):
    """the oracle: does not use the model"""
    case = dict(kind=KIND, task=name, channel=channel)
    if spec[0] == "raise":
        exp = spec[1](*spec[2])  # what the task raised: OSError(2, ...) IS a FileNotFoundError, NoRebuild keeps one arg
        if cls == "escaped-the-wrapper":
            res.fail("exc-transport:exception-escapes-the-wrapper", case, f"{type(exp).__name__} raised by the task is not captured by _TracebackCapturingWrapper")
        elif cls.startswith("ret"):
            res.fail("exc-transport:raise-delivered-as-result", case, f"task raised {type(exp).__name__}, the caller got a value")
        elif cls.startswith("raised") and (type(obj) is not type(exp) or obj.args != exp.args):
            res.fail("exc-transport:class-or-args-changed", case,
                     f"task raised {type(exp).__name__} with {len(exp.args)} args, the caller got {type(obj).__name__} with {len(obj.args)} args")
    elif isinstance(spec[1], list):
        if cls != "ret-list" or not same_list(obj, spec[1]):
            res.fail("exc-transport:list-result-changed", case, f"task returned a list, the caller got {cls}")


def submit_check(res, be_mod, utils):
    """PoolManagerMixin.submit: the task is wrapped and callback IS error_callback; the raw exception is raised"""
    seen = {}

    class Pool:
        def apply_async(self, func, args=(), callback=None, error_callback=None):
            seen.update(func=func, callback=callback, error_callback=error_callback)

    class B(be_mod.PoolManagerMixin):
        def _get_pool(self):
            return Pool()

    cb = lambda out: None
    B().submit(lambda: [1], cb)
    ok = isinstance(seen.get("func"), utils._TracebackCapturingWrapper) and seen.get("callback") is cb and seen.get("error_callback") is cb
    res.evaluations += 1
    if not ok:
        res.diverge(STREAM, dict(kind=KIND, what="PoolManagerMixin.submit"), sorted((k, type(v).__name__) for k, v in seen.items()),
                    "func wrapped by _TracebackCapturingWrapper, callback is error_callback")
    for raw in (RuntimeError("pool", 1), KeyboardInterrupt(), CustomBase(2)):
        res.evaluations += 1
        try:
            be_mod.PoolManagerMixin.retrieve_result_callback(None, raw)
            impl = "ret"
        except BaseException as e:  # noqa: B036
            impl = "raised" if e is raw else "raised-other"
        mod = m_cls(m_retrieve(m_pool_raw((1, [3], None))))
        if impl != mod:
            res.diverge(STREAM, dict(kind=KIND, what="raw pool exception", cls=type(raw).__name__), impl, mod)
        if impl != "raised":
            res.fail("exc-transport:raw-pool-exception-not-raised", dict(kind=KIND, task="raw:" + type(raw).__name__, channel="raw"), impl)
        res.nontrivial.add((KIND, "raw", type(raw).__name__))


def is_replay(ctx):
    return bool(ctx.replay) and ctx.replay.get("case", {}).get("kind") == KIND


def replay(ctx):
    res = core.Result()
    res.rule = "replay of an exception-transport case"
    return probe(ctx, res, only=ctx.replay["case"])


def probe(ctx, res, only=None):
    core.use_repo()
    import joblib._parallel_backends as be_mod
    import joblib._utils as utils
    from joblib.externals.loky.process_executor import _ExceptionWithTraceback, _RemoteTraceback

    table_check(res)
    submit_check(res, be_mod, utils)
    rng = ctx.rng("exc-transport")
    for rnd in range(1 if only else (8 if ctx.thorough else 2)):
        for name, (kind, spec) in tasks(rng).items():
            for channel, transport in CHANNELS.items():
                if only and (only.get("task"), only.get("channel")) != (name, channel):
                    continue
                impl, obj = run_real(utils, be_mod.PoolManagerMixin, _ExceptionWithTraceback, _RemoteTraceback, spec, channel)
                mod = model(transport, kind)
                res.evaluations += 1
                res.count(f"exc-transport:{channel}:{kind}:{impl}")
                if impl != mod:
                    res.diverge(STREAM, dict(kind=KIND, task=name, channel=channel), impl, mod)
                judge(res, name, kind, spec, channel, impl, obj)
                if kind != "returns-list":
                    res.nontrivial.add((KIND, name, channel))
    return res
