"""C12 — a cached function never returns a value computed by different source code.

Model: lean/JoblibModel/FuncCode.lean (`_check_previous_func_code`, `func_code_info`, the process-global `_FUNCTION_HASHES` and
`_FUNC_CODE_WRITERS`, and per cache location func_code.py — missing / unreadable / garbled / a source — with the entries of one
function id); theorems: lean/JoblibProofs/C12.lean; driver: lean/Driver/C12.lean.

A case is a history over ONE function name in 1..3 cache directories, addressed by 1..4 `Memory` objects (`mems`: each has a
directory `dir` and a spelling `sp` of its path: 0 canonical, 1 `<dir>/.`, 2 `<dir>/../<name>`, 3 relative to the cwd), split into
sessions (interpreter processes); every session builds all its `Memory` objects anew:
  def o k m      a new function object o with the source text of version k is created and wrapped with mems[m].cache (wrapper o)
  wrap w o m     mems[m].cache(f_o) once more: a second MemorizedFunc on the same function, at the same location or another one
  swap o p       f_o.__code__ = <the code object function p was defined with>   (p = o: swap back to the original)
  call w a       the cached function w is called with argument a     (functions log executions)
  check w a      check_call_in_cache, always followed by the identical call
  clearfn w / clearall m     MemorizedFunc.clear() / mems[m].clear()
  damage w kind  func_code.py of w's location is deleted or truncated (empty, inside the `# first line:` header, header without
                 number, after the header, inside a multi-byte character, one byte short, two thirds) — between sessions and between calls
  fresh          the session ends; the next one starts on the same cache directories
  call / check / clearfn … fault=<open|write>:<errno>   the operation runs while the NEXT open(func_code.py, 'wb') of the store backend
                 raises OSError(errno) / succeeds and the write after it raises (one-shot, armed for this operation only; the writes
                 of the results are not concerned); the injected OSError may reach the caller — a value that is returned must be right
A case may carry `enc`: the session programs are then written in that DECLARED source encoding (PEP 263 cookie on line 1 or 2, or a
UTF-8 BOM) and the versions differ only in characters outside ASCII (a literal, an identifier, the docstring; three scripts).
Every session is a GENERATED PROGRAM — one Python file, rewritten for each session ("edited between sessions") — run in its own
interpreter: as a script (`__main__` functions), as an imported module (module-level functions), with the defs nested in a
factory function (nested functions), or with lambdas.  Redefinition under the same name in one session is literally
`def f ... ; f_1 = f ; def f ... ; f_2 = f`.

VERSIONS of the function are edits of one base text of many kinds: a constant, an operator, indentation only (a statement moved
out of / into a loop), comment only, docstring only, a blank line, trailing whitespace, a default argument, a renamed local,
reordered statements (with and without effect); the same text also appears at other line numbers.  What a version computes is
obtained by running its plain text, never written down by hand.

Streams `fault` (write faults on first use, after an edit, after a damaged file, in clear; then the function is edited and every
cached argument called) and `enc` (declared source encodings) use the same machinery; `_source_stream` checks the layer below
`_text_stream` in-process (`get_func_code` on files in declared encodings).  Three older streams: `main` — one location, one Memory object (the histories this check always ran); `multi` — 2..3 directories and / or
several Memory objects on one directory, the same function object cached at several locations, `Memory.clear()` and faults at one of
them; `alias` — one directory under two spellings (F46, a known finding of the tree as it is).

* correspondence: per step (value, executed?, check flag) against the model driver (model configuration = what the tree under
  test does on the F10, F38, writer-key and F46 probes);
* oracle (no model): every call of a live wrapper whose function's current code has version k returns what version k's plain
  text returns; and a call is not executed again while the stored code OF THAT LOCATION is still its own version's text (no call /
  check / clear by another text there, no damage there, since) and the argument was computed under it there.
"""

import concurrent.futures
import json
import os
import random
import shutil
import subprocess

from .. import core
from ..core import Result

REQUIRED_THEOREMS = [
    "C12.value_from_own_version",
    "C12.value_from_own_version_from",
    "C12.reachable_inv",
    "C12.unchanged_code_keeps_cache",
    "C12.hit_when_code_unchanged",
    "C12.value_from_own_version_resolved",
    "C12.locations_independent",
    "C12.shortcut_implies_directory_is_own",
    "C12.shortcut_implies_stored_code_is_own",
    "C12.writer_key_without_location_counterexample",
    "C12.writer_key_without_location_one_process_counterexample",
    "C12.writer_key_without_location_value_from_own_version_false",
    "C12.fixed_on_the_writer_key_witnesses",
    "C12.aliased_location_counterexample",
    "C12.aliased_location_value_from_own_version_false",
    "C12.resolved_on_the_aliased_witness",
    "C12.old_F38_counterexample",
    "C12.old_F38_two_wrappers_counterexample",
    "C12.old_F38_value_from_own_version_false",
    "C12.fixed_on_the_F38_witnesses",
    "C12.deleted_func_code_counterexample",
    "C12.truncated_func_code_witness",
    "C12.old_F10_counterexample",
    "C12.old_F10_check_counterexample",
    "C12.old_value_from_own_version_false",
    "C12.fixed_on_the_witnesses",
    "C12.extract_write_roundtrip",
    "C12.torn_reads",
    "C12.intact_same_iff",
    "C12.torn_same_only_for_prefix",
    "C12.torn_never_untracked",
    "C12.torn_prefix_version_witness",
    "C12.value_from_own_version_with_write_faults",
    "C12.entries_only_beside_their_code",
    "C12.write_fault_raises_or_is_plain",
    "C12.swallowed_write_error_counterexample",
    "C12.swallowed_write_error_entries_without_code",
    "C12.swallowed_write_error_value_from_own_version_false",
    "C12.fixed_on_the_write_fault_witnesses",
]
TRUSTED_EXTRA = [
    "text layer of func_code.py (JoblibModel.FuncCodeText): texts are code points; UTF-8 is a parameter (a byte prefix decodes to a "
    "code-point prefix or raises UnicodeDecodeError, a ValueError); int() is modelled for ASCII fields up to 4000 characters (the "
    "model abstains on non-ASCII digits / white space, counted in the evidence as text:model-abstains); what a torn file means for "
    "the cache (clear and rewrite) is the history model's `damage` operation",
    "write faults (JoblibModel.FuncCodeFault): one-shot faults on open(func_code.py, 'wb') and on the write after it, injected through the "
    "store backend's _open_item hook; a failed write leaves no file (open) or an empty file (write: a partially written one is the "
    "`damage` operation); faults on the directory creation, on the result files and on reads are not modelled",
    "modelled, not verified: the text of a function is what Python compiled from the file's bytes (PEP 263 cookie / BOM): the model's "
    "`Src` is that text; checked on the implementation by the `enc` histories and the source-text stream (latin / cyrillic / CJK scripts "
    "in 13 codecs), not derived in Lean (no model of the codecs)",
    "modelled, not verified: a source text determines the function's behaviour (closures over differing captured values, differing "
    "defaults at equal text and lambdas sharing a line are outside the domain of the property); func_inspect.get_func_code returns "
    "the text of the def block (validated by the correspondence for module-level, nested, __main__ and lambda definitions, and after "
    "code-object swaps)",
    "modelled, not verified: hash(func.__code__) tells two code objects apart (it covers co_firstlineno; the generated programs never "
    "put two defs on one line); a fresh process starts with empty _FUNCTION_HASHES / _FUNC_CODE_WRITERS; dead function objects "
    "leaving the weak table are not modelled",
    "the class of a damaged func_code.py (unreadable / readable garbage) is computed by the generated program from the bytes left "
    "(utf-8 decodable? header number parsable?), independently of joblib, and is an input of the model",
    "sessions are sequential (one process at a time on the cache directories); concurrent sessions are C11's",
    "modelled, not verified: a location string denotes one directory throughout a process (no os.chdir under a relative location, no "
    "symlink retargeted); which strings denote the same directory is an input of the model (the generated programs use `<dir>`, "
    "`<dir>/.`, `<dir>/../<name>` and a path relative to the cwd)",
]

RULE = ("histories of 3..18 operations over 1..3 sessions (interpreter processes) sharing 1..3 cache directories addressed by 1..4 "
        "Memory objects (stream main: one directory, one Memory; stream multi: 2..3 directories and / or two Memory objects on one "
        "directory, the same function object cached at several locations; stream alias: one directory under two spellings), 1..4 versions of "
        "one same-named function drawn from 13 kinds of edits (constant, operator, indentation-only, comment, docstring, blank line, "
        "trailing whitespace, default argument, renamed local, reordered statements), up to 4 live function objects and 2 extra "
        "wrappers per session, arguments 0..2; definition styles: module-level (imported module), nested def, __main__ script, lambda; "
        "code-object swaps there and back, check_call_in_cache, MemorizedFunc.clear, Memory.clear of one location, func_code.py of one "
        "location deleted / truncated at 8 boundary-biased places; transient write faults (open / write of func_code.py, 7 errno values) on "
        "calls, checks and clears; source files in 13 declared encodings (cookie on line 1 / 2 in 3 spellings, UTF-8 BOM) with versions that "
        "differ only in non-ASCII characters of a literal / an identifier / the docstring; non-trivial = a call step; distinct by (style, versions seen so far, "
        "versions live in the session, the caller's version and argument, whose text is stored at the caller's location, which arguments "
        "are cached under it there, swapped?, damaged?, executed?; with several locations also: the location, whose text the OTHER "
        "locations hold, at how many locations the caller's function object is wrapped)")

STYLES = ["module", "nested", "main", "lambda"]

# ----------------------------------------------------------------------------- versions: edits of one base text

BASE = [
    "def f(x, y=1):",
    '    """é doc"""',
    "    t = 0",
    "    u = 5",
    "    for i in range(3):",
    "        t += 2",
    "        u += t",
    "    t += 100",
    "    N.append(0)",
    "    return (t, u, x, y)",
]


def _edit(**kw):
    lines = list(BASE)
    for i, new in sorted(kw.get("set", {}).items()):
        lines[i] = new
    for i, new in sorted(kw.get("ins", {}).items(), reverse=True):
        lines.insert(i, new)
    if "swap" in kw:
        i, j = kw["swap"]
        lines[i], lines[j] = lines[j], lines[i]
    return lines


VERSIONS = {
    1: ("base", BASE),
    2: ("constant", _edit(set={5: "        t += 7"})),  # same bytecode as the base, another constant
    3: ("operator", _edit(set={5: "        t -= 2"})),
    4: ("indentation-only:out-of-loop", _edit(set={6: "    u += t"})),
    5: ("indentation-only:into-loop", _edit(set={7: "        t += 100"})),
    6: ("comment-only", _edit(ins={2: "    # a comment"})),
    7: ("docstring-only", _edit(set={1: '    """é other doc"""'})),
    8: ("blank-line", _edit(ins={4: ""})),
    9: ("default-argument", _edit(set={0: "def f(x, y=2):"})),
    10: ("renamed-local", BASE),  # replaced below
    11: ("reordered-with-effect", _edit(swap=(5, 6))),
    12: ("reordered-without-effect", _edit(swap=(2, 3))),
    13: ("trailing-whitespace", _edit(set={2: "    t = 0   "})),
}
# version 10: rename the local `t` to `s` textually, carefully
VERSIONS[10] = ("renamed-local", [
    "def f(x, y=1):", '    """é doc"""', "    s = 0", "    u = 5", "    for i in range(3):", "        s += 2", "        u += s",
    "    s += 100", "    N.append(0)", "    return (s, u, x, y)"])
LAMBDAS = {
    21: ("lambda-base", ["f = lambda x: (N.append(0), ('é', 1, x))[1]"]),
    22: ("lambda-constant", ["f = lambda x: (N.append(0), ('é', 2, x))[1]"]),
    23: ("lambda-operator", ["f = lambda x: (N.append(0), ('é', 1, -x))[1]"]),
    24: ("lambda-whitespace", ["f = lambda x: (N.append(0), ( 'é', 1, x ))[1]"]),
}
NO_SWAP = {9}  # defaults live on the function object, not on the code object

# ---- versions whose texts differ ONLY in characters outside ASCII (a string literal, an identifier, the docstring), per script; the
# module file is written in a declared source encoding (PEP 263 cookie on line 1 or 2, or a UTF-8 BOM) that covers the script
SCRIPTS = {
    "latin": (30, "\u00e9\u00e8\u00ea\u00e0\u00fc\u00f1", ["latin-1", "cp1252", "iso-8859-15", "utf-8"]),
    "cyrillic": (40, "\u0416\u042f\u044e\u0434\u0444\u0449", ["koi8-r", "cp1251", "iso-8859-5", "utf-8"]),
    "cjk": (50, "\u4e2d\u6587\u5b57\u65e5\u672c\u8a9e", ["big5", "gbk", "shift_jis", "euc-jp", "utf-8"]),
}


def _enc_lines(lit, ident, doc, extra=""):
    return ["def f(x, y=1):", '    """%s doc"""' % doc, "    w%s = 'caf%s'%s" % (ident, lit, extra), "    N.append(0)",
            "    return (w%s, sorted(_k for _k in locals() if _k.startswith('w')), x, y)" % ident]


ENCV = {}
for _name, (_base, _chars, _codecs) in SCRIPTS.items():
    _c1, _c2, _c3 = _chars[0], _chars[1], _chars[2]
    ENCV[_base + 1] = (_name + ":base", _enc_lines(_c1, _c1, _c1))
    ENCV[_base + 2] = (_name + ":non-ascii-char-of-a-literal", _enc_lines(_c2, _c1, _c1))
    ENCV[_base + 3] = (_name + ":non-ascii-char-of-an-identifier", _enc_lines(_c1, _c2, _c1))
    ENCV[_base + 4] = (_name + ":non-ascii-chars-of-both", _enc_lines(_c3, _c3, _c1))
    ENCV[_base + 5] = (_name + ":ascii-edit-in-a-non-ascii-line", _enc_lines(_c1, _c1, _c1, " + '!'"))
    ENCV[_base + 6] = (_name + ":non-ascii-char-of-the-docstring", _enc_lines(_c1, _c1, _c2))
    ENCV[_base + 7] = (_name + ":another-non-ascii-char-of-the-literal", _enc_lines(_c3, _c1, _c1))
COOKIES = ["# -*- coding: %s -*-", "# coding=%s", "# vim: set fileencoding=%s :"]


def version_name(k):
    return (VERSIONS.get(k) or LAMBDAS.get(k) or ENCV[k])[0]
# groups of versions worth meeting in one history
GROUPS = [[1, 2], [1, 3], [1, 4], [1, 5], [4, 5, 1], [1, 6, 7], [1, 8, 13], [1, 9], [1, 10], [1, 11, 12], [2, 3, 11], [4, 11], [1, 2, 4, 5]]
LGROUPS = [[21, 22], [21, 23], [21, 24], [21, 22, 23, 24]]

_PLAIN = {}


def version_lines(k):
    return (VERSIONS.get(k) or LAMBDAS.get(k) or ENCV[k])[1]


def plain(k, a):
    """What version k's plain text returns for argument a (JSON form)."""
    if k not in _PLAIN:
        ns = {"N": []}
        exec("\n".join(version_lines(k)) + "\n", ns)  # noqa: S102 - generated text only
        _PLAIN[k] = ns["f"]
    return json.loads(json.dumps(_PLAIN[k](a)))


def def_text(style, k):
    """Source of one definition of version k (identical text wherever it appears)."""
    body = version_lines(k)
    if style == "nested":
        return ["def make():"] + ["    " + ln if ln else ln for ln in body] + ["    return f", "f = make()"]
    return list(body)


# ----------------------------------------------------------------------------- program generation

PRELUDE = '''import json, os, sys, warnings
sys.path.insert(0, os.environ['VERIF_REPO'])
warnings.simplefilter('ignore')
from joblib import Memory
_mems = [Memory(_p, verbose=0) for _p in %r]
N = []
_out = []

def _classify(b):
    try:
        t = b.decode('utf-8')
    except UnicodeDecodeError:
        return 'unreadable'
    if t.startswith('# first line:'):
        try:
            int(t.split('\\n')[0][len('# first line:'):])
        except ValueError:
            return 'unreadable'
    return 'other'

_fault = dict(kind=None, fired=False)

def _cls(e):
    return 'OSError' if isinstance(e, OSError) else type(e).__name__

class _FailingFile:
    def __init__(self, f, no):
        self._f, self._no = f, no
    def __enter__(self):
        return self
    def __exit__(self, *a):
        self._f.close()
        return False
    def write(self, b):
        raise OSError(self._no, os.strerror(self._no))
    def close(self):
        self._f.close()

def _flaky_open(f, mode='r', *a, **k):
    if _fault['kind'] and os.path.basename(str(f)) == 'func_code.py' and 'w' in mode:
        (at, name), _fault['kind'], _fault['fired'] = _fault['kind'], None, True
        import errno
        no = getattr(errno, name)
        if at == 'open':
            raise OSError(no, os.strerror(no), str(f))
        return _FailingFile(open(f, mode, *a, **k), no)
    return open(f, mode, *a, **k)

def _arm(at, name):
    """The next open(func_code.py, 'wb') of the store backend fails (at == 'open') / succeeds and its write fails."""
    from joblib._store_backends import FileSystemStoreBackend
    _fault.update(kind=(at, name), fired=False)
    FileSystemStoreBackend._open_item = staticmethod(_flaky_open)

def _disarm():
    from joblib._store_backends import FileSystemStoreBackend
    FileSystemStoreBackend._open_item = staticmethod(open)
    _fault['kind'] = None
    return 'fired' if _fault['fired'] else 'unfired'

def _damage(cf, kind):
    p = os.path.join(cf.store_backend.location, cf.func_id, 'func_code.py')
    if not os.path.exists(p):
        _out.append(['damage', 'absent'])
        return
    b = open(p, 'rb').read()
    if kind == 'delete':
        os.remove(p)
        _out.append(['damage', 'delete'])
        return
    nl = b.index(b'\\n') + 1 if b'\\n' in b else len(b)
    n = dict(empty=0, inheader=5, nonumber=13, midnumber=14, afterheader=nl,
             multibyte=(b.index(b'\\xc3') + 1 if b'\\xc3' in b else len(b) - 1),
             oneshort=len(b) - 1, twothirds=2 * len(b) // 3)[kind]
    if n >= len(b):
        _out.append(['damage', 'intact'])
        return
    open(p, 'wb').write(b[:n])
    _out.append(['damage', _classify(b[:n])])

'''

DAMAGES = ["delete", "empty", "inheader", "nonumber", "midnumber", "afterheader", "multibyte", "oneshort", "twothirds"]


def case_mems(case):
    """The Memory objects of a case: [{dir, sp}]; histories written before locations existed have one Memory on directory 0."""
    return case.get("mems") or [dict(dir=0, sp=0)]


def mem_key(mem):
    """The model's name of a location string: the canonical spelling of directory d is d."""
    return mem["dir"] + 10 * mem.get("sp", 0)


def mem_path(workdir, mem):
    """The path handed to Memory(location=...). The programs run with cwd = workdir."""
    name = "cache%d" % mem["dir"]
    sp = mem.get("sp", 0)
    if sp == 0:
        return os.path.join(workdir, name)
    if sp == 1:
        return os.path.join(workdir, name, ".")
    if sp == 2:
        return os.path.join(workdir, name, os.pardir, name)
    if sp == 3:
        return name
    raise core.InfraError(f"unknown spelling {sp}")


def program(style, paths, result, ops, pad=0, enc=None):
    """`pad` lines (and, when odd, another function) are inserted ABOVE everything: the same definitions at other line numbers."""
    src = [f"# line {n} inserted above" for n in range(pad)] + (["def _inserted_above(x):", "    return x", ""] if pad % 2 else [])
    if enc and enc.get("cookie") is not None:
        line = COOKIES[enc["cookie"]] % enc["codec"]
        src = (["#!/usr/bin/env python", line] if enc.get("cookie_line") == 2 else [line]) + src
    src += (PRELUDE % (list(paths),)).split("\n")
    for op in ops:
        o = op.get("o")
        w = op.get("w")
        if op["op"] == "def":
            src += def_text(style, op["k"]) + [f"f_{o} = f", f"k_{o} = f_{o}.__code__", f"c_{o} = _mems[{op.get('m', 0)}].cache(f_{o})", ""]
        elif op["op"] == "wrap":
            src += [f"c_{w} = _mems[{op.get('m', 0)}].cache(f_{o})", "_out.append(['ok'])", ""]
        elif op["op"] == "swap":
            src += [f"f_{o}.__code__ = k_{op['p']}", "_out.append(['ok'])", ""]
        elif op["op"] in ("call", "check", "clearfn") and op.get("fault"):
            at, name = op["fault"].split(":")
            body = {"call": [f"    _v = c_{w}({op.get('a')})", "    _out.append(['val', json.loads(json.dumps(_v)), len(N) > _n])"],
                    "check": [f"    _out.append(['flag', bool(c_{w}.check_call_in_cache({op.get('a')}))])"],
                    "clearfn": [f"    c_{w}.clear(warn=False)", "    _out.append(['ok'])"]}[op["op"]]
            src += [f"_arm({at!r}, {name!r})", "_n = len(N)", "try:"] + body + [
                "except Exception as _e:", "    _out.append(['raise', _cls(_e)])", "finally:", "    _out[-1].append(_disarm())", ""]
        elif op["op"] == "call":
            src += [
                "_n = len(N)",
                "try:",
                f"    _v = c_{w}({op['a']})",
                "    _out.append(['val', json.loads(json.dumps(_v)), len(N) > _n])",
                "except Exception as _e:",
                "    _out.append(['raise', type(_e).__name__])",
                "",
            ]
        elif op["op"] == "check":
            src += [
                "try:",
                f"    _out.append(['flag', bool(c_{w}.check_call_in_cache({op['a']}))])",
                "except Exception as _e:",
                "    _out.append(['raise', type(_e).__name__])",
                "",
            ]
        elif op["op"] == "clearfn":
            src += [f"c_{w}.clear(warn=False)", "_out.append(['ok'])", ""]
        elif op["op"] == "clearall":
            src += [f"_mems[{op.get('m', 0)}].clear(warn=False)", "_out.append(['ok'])", ""]
        elif op["op"] == "damage":
            src += [f"_damage(c_{w}, {op['kind']!r})", ""]
    src += [f"open({result!r}, 'w', encoding='utf-8').write(json.dumps(_out))", ""]
    return "\n".join(src)


def sessions_of(case):
    out, cur = [], []
    for op in case["ops"]:
        if op["op"] == "fresh":
            out.append(cur)
            cur = []
        else:
            cur.append(op)
    out.append(cur)
    return out


def run_case(case, workdir):
    """Run every session in its own interpreter. Returns one record per op (`def` and `fresh` → ['ok'])."""
    workdir = str(workdir)
    os.makedirs(workdir, exist_ok=True)
    paths = [mem_path(workdir, m) for m in case_mems(case)]
    for m in case_mems(case):
        os.makedirs(os.path.join(workdir, "cache%d" % m["dir"]), exist_ok=True)  # `<dir>/../<name>` needs the directory
    style = case["style"]
    fname = "prog.py" if style == "main" else "c12mod.py"
    path = os.path.join(workdir, fname)
    result = os.path.join(workdir, "result.json")
    recs = []
    env = dict(os.environ)
    env["VERIF_REPO"] = str(core.REPO)
    env.pop("PYTHONPATH", None)
    for si, ops in enumerate(sessions_of(case)):
        enc = case.get("enc")
        with open(path, "wb") as f:
            pads = case.get("pads") or [0]
            text = program(style, paths, result, ops, pads[min(si, len(pads) - 1)], enc)
            f.write((b"\xef\xbb\xbf" if enc and enc.get("bom") else b"") + text.encode(enc["codec"] if enc else "utf-8"))
        shutil.rmtree(os.path.join(workdir, "__pycache__"), ignore_errors=True)
        if os.path.exists(result):
            os.remove(result)
        cmd = [core.PY, "-B", path] if style == "main" else [core.PY, "-B", "-c", "import c12mod"]
        p = subprocess.run(cmd, cwd=workdir, env=env, capture_output=True, text=True, timeout=120)
        if p.returncode != 0 or not os.path.exists(result):
            raise core.InfraError(f"session {si} of {case.get('label')} failed: {p.stderr[-600:]}")
        got = json.load(open(result, encoding="utf-8"))
        it = iter(got)
        if si > 0:
            recs.append(["ok"])  # the `fresh` op
        for op in ops:
            recs.append(["ok"] if op["op"] == "def" else next(it))
    return recs


# ----------------------------------------------------------------------------- model side


def akey(defver, a):
    """The args id covers the DEFAULT values (filter_args binds them): calls of a function defined with another default are other
    entries. The model's argument keys are kept apart accordingly."""
    return a + 10 if defver in NO_SWAP else a


def model_lines(case, recs, cfg):
    """Request lines; None for steps that are no model operation (damage of an absent / intact file)."""
    lines = ["reset " + " ".join(str(b) for b in cfg)]  # f10 f38 wkl f46 wfr
    idx = []
    ver = {}
    wobj = {}
    wmem = {}
    mems = case_mems(case)
    for op, rec in zip(case["ops"], recs):
        k = op["op"]
        ln = None
        if k == "fresh":
            wobj, wmem = {}, {}
        if k == "def":
            ver[op["o"]] = op["k"]
            wobj[op["o"]] = op["o"]
            m = wmem[op["o"]] = mems[op.get("m", 0)]
            ln = f"def {op['o']} {op['k']} {0 if case['style'] == 'lambda' else 1} {m['dir']}"
            if mem_key(m) != m["dir"]:
                # the wrapper `def` creates belongs to a Memory addressed under another spelling
                lines.append(ln)
                ln = f"wrap {op['o']} {op['o']} {mem_key(m)} {m['dir']}"
        elif k == "wrap":
            wobj[op["w"]] = op["o"]
            m = wmem[op["w"]] = mems[op.get("m", 0)]
            ln = f"wrap {op['w']} {op['o']} {mem_key(m)} {m['dir']}"
        elif k == "swap":
            ln = f"swap {op['o']} {op['p']} {ver[op['p']]}"
        elif k in ("call", "check"):
            ln = f"{k} {op['w']} {akey(ver[wobj[op['w']]], op['a'])}"
        elif k == "clearfn":
            ln = f"clearfn {op['w']}"
        elif k == "clearall":
            ln = f"clearall {mems[op.get('m', 0)]['dir']}"
        elif k == "damage":
            cls = rec[1] if rec and rec[0] == "damage" else "?"
            if cls in ("delete", "unreadable", "other"):
                ln = f"damage {wmem[op['w']]['dir']} {cls}"
        else:
            ln = k
        if ln is not None and op.get("fault"):
            ln = f"fault {op['fault'].split(':')[0]} {ln}"
        idx.append(None if ln is None else len(lines))
        if ln is not None:
            lines.append(ln)
    return lines, idx


def canon_model(rep):
    t = rep.split()
    if t[0] == "val":
        return ["val", plain(int(t[2]), int(t[3]) % 10), t[1] == "x"]
    if t[0] == "flag":
        return ["flag", t[1] == "1"]
    if rep == "ok":
        return ["ok"]
    if rep == "raised":
        return ["raise", "OSError"]
    return [rep]


# ----------------------------------------------------------------------------- oracle (no model)


class _DirState:
    """What the oracle knows of one cache directory (the function's sub-directory in it)."""

    def __init__(self):
        self.owner, self.valid = None, set()  # the version whose text was last certainly written there; arguments computed under it
        self.deleted = self.damaged = False
        self.stored_any = False  # a call completed there since the last clear: the directory may hold entries
        # func_code.py damaged and not certainly rewritten yet; a fresh process (no in-memory shortcut) rewrites it
        self.dirty = self.healable = False
        self.faulted = False  # a write of func_code.py failed there since the last clear

    def cleared(self, owner):
        self.owner, self.valid = owner, set()
        self.deleted = self.damaged = self.dirty = self.healable = self.stored_any = self.faulted = False

    def write_failed(self):
        """The write of func_code.py was attempted (so: the directory had no func_code.py, or was being cleared) and failed: what
        the file holds now is unknown to the oracle; no hit is expected until the text is certainly written again."""
        self.owner, self.valid = None, set()
        self.faulted = True


def enc_class(enc):
    if enc["codec"].replace("-", "").lower() == "utf8":
        return "utf8-bom" if enc.get("bom") else "utf8-cookie"
    return "declared-non-utf8"


def judge(case, recs, res):
    mems = case_mems(case)
    ndirs = len({m["dir"] for m in mems})
    aliased = any(a["dir"] == b["dir"] and mem_key(a) != mem_key(b) for a in mems for b in mems)
    several = len(mems) > 1
    cur, wobj, wdir, swapped, defver = {}, {}, {}, set(), {}
    dirs = {}
    seen_versions, session_sources = set(), set()
    prev_check = None

    def D(d):
        return dirs.setdefault(d, _DirState())

    for j, (op, out) in enumerate(zip(case["ops"], recs)):
        k = op["op"]
        ctx = dict(case=case, step=j, op=op, out=out)
        if k == "fresh":
            cur, wobj, wdir, swapped, session_sources, prev_check = {}, {}, {}, set(), set(), None
            for ds in dirs.values():
                ds.healable = ds.dirty
            continue
        if k == "def":
            cur[op["o"]] = op["k"]
            defver[op["o"]] = op["k"]
            wobj[op["o"]] = op["o"]
            wdir[op["o"]] = mems[op.get("m", 0)]["dir"]
            seen_versions.add(op["k"])
            session_sources.add(op["k"])
            continue
        if k == "wrap":
            wobj[op["w"]] = op["o"]
            wdir[op["w"]] = mems[op.get("m", 0)]["dir"]
            continue
        if k == "swap":
            # the code object function p was DEFINED with
            cur[op["o"]] = next(o2["k"] for o2 in case["ops"][:j][::-1] if o2["op"] == "def" and o2["o"] == op["p"])
            swapped.add(op["o"])
            continue
        if k == "clearall":
            D(mems[op.get("m", 0)]["dir"]).cleared(None)
            continue
        ds = D(wdir[op["w"]])
        if k == "damage":
            if out[1] in ("delete", "unreadable", "other"):
                ds.damaged = ds.dirty = True
                ds.healable = False
                if out[1] == "delete" and ds.stored_any:
                    ds.deleted = True
                ds.owner, ds.valid = None, set()
            continue
        o = wobj[op["w"]]
        mine = cur[o]
        fault = op.get("fault")
        fired = bool(fault) and out[-1] == "fired"
        if fault:
            out = out[:-1]
            res.count("write-fault:" + fault.split(":")[0] + (":fired" if fired else ":not-fired") + (":raised" if out[0] == "raise" else ""))
            if out[0] == "raise" and not (fired and out[1] == "OSError"):
                res.fail(k + "-raises:" + case["style"], ctx, out)  # not the injected error
        if k == "clearfn":
            ds.cleared(None if fired else mine)
            ds.faulted = fired
            continue
        if aliased:
            tag = case["style"] + ":aliased-location"
        else:
            tag = case["style"] + (":code-swap" if o in swapped else ":redefined-in-session" if len(session_sources) > 1 else "")
            if several:
                tag += ":several-locations"
        if k == "check" and fired:
            ds.write_failed()
            prev_check = None
            continue
        if k == "check":
            if ds.dirty and ds.healable:
                ds.dirty = ds.healable = False
            if ds.owner != mine:
                ds.owner, ds.valid = mine, set()
            if ds.dirty:
                ds.owner, ds.valid = None, set()
            prev_check = (op["w"], op["a"], out)
            continue
        # call
        owner = ds.owner
        res.count("call:" + ("stored-text-is-own" if owner == mine else "stored-text-is-other" if owner is not None else "no-known-stored-text"))
        res.count("caller-version=" + version_name(mine))
        others = sorted(("own" if x.owner == mine else "other" if x.owner is not None else "none") for d2, x in dirs.items() if d2 != wdir[op["w"]])
        nwrapped = len({wdir[w2] for w2, o2 in wobj.items() if o2 == o})
        if several:
            res.count("call@location-%d-of-%d" % (wdir[op["w"]], ndirs))
            res.count("caller-object-wrapped-at-%d-locations" % nwrapped)
            if "other" in others and owner == mine:
                res.count("call:own-here-while-another-location-holds-another-version")
            if "own" in others and owner != mine and owner is not None:
                res.count("call:other-here-while-another-location-holds-own-version")
        ak = akey(defver[o], op["a"])
        expect_hit = owner == mine and ak in ds.valid
        if out[0] != "val":
            if not fired:
                res.fail("call-raises:" + case["style"], ctx, out)
        else:
            want = plain(mine, op["a"])
            if out[1] != want:
                sig = ("stale-after-func-code-deleted" if ds.deleted else
                       "wrong-version-value:" + tag + (":after-damage" if ds.damaged and not aliased else "")
                       + (":after-func-code-write-fault" if ds.faulted else "")
                       + (":source-encoding=" + enc_class(case["enc"]) if case.get("enc") else ""))
                res.fail(sig, ctx, dict(returned=out[1], own_version=mine, own_version_returns=want, stored_text_last_written_for=owner,
                                        location=wdir[op["w"]]))
            elif expect_hit and out[2]:
                res.fail("unchanged-code-recomputed:" + tag, ctx, dict(version=mine, location=wdir[op["w"]]))
            if prev_check is not None and prev_check[:2] == (op["w"], op["a"]) and prev_check[2][0] == "flag":
                if prev_check[2][1] != (not out[2]):
                    # after func_code.py was deleted the check writes it (answer False) and the entries left behind are served
                    res.fail("stale-after-func-code-deleted" if ds.deleted else "check-call-in-cache-disagrees:" + tag, ctx,
                             dict(check_said=prev_check[2][1], executed=out[2]))
            ds.stored_any = True
            key = [case["style"], sorted(seen_versions), sorted(session_sources), mine, op["a"],
                   "own" if owner == mine else "other" if owner is not None else "none", sorted(ds.valid),
                   o in swapped, ds.damaged, out[2]]
            if several:
                key += [wdir[op["w"]], others, nwrapped, aliased]
            if fault or ds.faulted:
                key += [fault, fired, ds.faulted]
            if case.get("enc"):
                key += [enc_class(case["enc"]), case["enc"]["codec"]]
            res.nontrivial.add(json.dumps(key))
        if fired:
            ds.write_failed()
            prev_check = None
            continue
        if ds.dirty and ds.healable:
            ds.dirty = ds.healable = False
        if ds.owner != mine:
            ds.owner, ds.valid = mine, set()
        ds.valid.add(ak)
        if ds.dirty:  # the in-memory shortcut may have answered: the damaged file is possibly still there
            ds.owner, ds.valid = None, set()
        prev_check = None


# ----------------------------------------------------------------------------- generator


def gen_case(rng, idx, thorough, label):
    style = rng.choice(["module", "module", "nested", "main", "main", "lambda"])
    pool = list(rng.choice(LGROUPS if style == "lambda" else GROUPS))
    shape = rng.random()
    pads = [rng.choice([0, 1, 2, 5]) for _ in range(4)]  # per session: lines inserted above the definitions
    if shape < 0.25:
        return dict(label=f"{label}{idx}", style=style, ops=fault_history(rng, pool), pads=pads)
    if shape < 0.45 and style != "lambda":
        return dict(label=f"{label}{idx}", style=style, ops=swap_history(rng, [v for v in pool if v not in NO_SWAP] or [1, 2]), pads=pads)
    ops, live, wraps = [], [], []
    ver = {}
    nobj, nw = 0, 100
    n = rng.randint(3, 24 if thorough else 18)
    sessions = 1
    while len(ops) < n:
        r = rng.random()
        if not live or (r < 0.20 and len(live) < 4):
            nobj += 1
            ver[nobj] = rng.choice(pool)
            ops.append(dict(op="def", o=nobj, k=ver[nobj]))
            live.append(nobj)
            wraps.append(nobj)
        elif r < 0.66:
            w = rng.choice(wraps)
            a = rng.choice([0, 0, 1, 2])
            if rng.random() < 0.15:
                ops.append(dict(op="check", w=w, a=a))
            ops.append(dict(op="call", w=w, a=a))
        elif r < 0.74 and style != "lambda":
            cands = [o for o in live if ver[o] not in NO_SWAP]
            if len(cands) >= 1:
                o = rng.choice(cands)
                p = rng.choice(cands)
                ops.append(dict(op="swap", o=o, p=p))
        elif r < 0.78 and len(wraps) < len(live) + 2:
            nw += 1
            ops.append(dict(op="wrap", w=nw, o=rng.choice(live)))
            wraps.append(nw)
        elif r < 0.82:
            ops.append(dict(op="clearfn", w=rng.choice(wraps)))
        elif r < 0.85:
            ops.append(dict(op="clearall"))
        elif r < 0.90:
            ops.append(dict(op="damage", w=rng.choice(wraps), kind=rng.choice(DAMAGES)))
        elif r < 0.98 and sessions < 3 and len(ops) > 1:
            ops.append(dict(op="fresh"))
            live, wraps = [], []
            sessions += 1
    while ops and ops[-1]["op"] in ("fresh", "def", "wrap"):
        ops.pop()
    return dict(label=f"{label}{idx}", style=style, ops=ops, pads=pads)


def fault_history(rng, pool):
    """>= 2 entries stored, func_code.py damaged (between sessions or between calls), then an EDITED definition is called with ALL
    stored arguments."""
    D, C = (lambda o, k: dict(op="def", o=o, k=k)), (lambda w, a: dict(op="call", w=w, a=a))
    v1 = rng.choice(pool)
    v2 = rng.choice([v for v in pool if v != v1] or pool)
    args = rng.sample([0, 1, 2], rng.choice([2, 3]))
    ops = [D(1, v1)] + [C(1, a) for a in args]
    kind = rng.choice(DAMAGES)
    where = rng.choice(["end-of-session", "start-of-next", "same-session"])
    if where == "end-of-session":
        ops += [dict(op="damage", w=1, kind=kind), dict(op="fresh"), D(2, v2)]
    elif where == "start-of-next":
        ops += [dict(op="fresh"), D(2, v2), dict(op="damage", w=2, kind=kind)]
    else:
        ops += [D(2, v2), dict(op="damage", w=1, kind=kind)]
    order = list(args)
    rng.shuffle(order)
    ops += [C(2, a) for a in order]
    if rng.random() < 0.5:
        ops += [dict(op="fresh"), D(3, v1)] + [C(3, a) for a in args]
    return ops


def swap_history(rng, pool):
    """A function's code object is replaced by another version's and put back, on one wrapper or on two."""
    D, C = (lambda o, k: dict(op="def", o=o, k=k)), (lambda w, a: dict(op="call", w=w, a=a))
    va = rng.choice(pool)
    vb = rng.choice([v for v in pool if v != va] or pool)
    ops = [D(1, va), D(2, vb)]
    two = rng.random() < 0.5
    if two:
        ops.append(dict(op="wrap", w=101, o=1))
    ws = [1, 101] if two else [1]
    a = rng.choice([0, 1])
    if rng.random() < 0.7:
        ops.append(C(rng.choice(ws), a))
    for _ in range(rng.randint(2, 5)):
        ops.append(dict(op="swap", o=1, p=rng.choice([1, 2])))
        if rng.random() < 0.2:
            ops.append(dict(op="clearall"))
        for _ in range(rng.randint(1, 2)):
            ops.append(C(rng.choice(ws), rng.choice([a, a, 2])))
    return ops


WRITE_FAULTS = ["open:EMFILE", "open:ENOSPC", "open:EACCES", "open:ENFILE", "write:ENOSPC", "write:EIO", "write:EDQUOT"]


def write_fault_history(rng, pool):
    """A transient fault on the write of func_code.py — on first use, on the first call of an edited definition (after the wipe), after
    a damaged file, or in MemorizedFunc.clear — while the writes of the results succeed; the application repeats the call; further
    arguments are cached; then the function is EDITED and the next session calls every cached argument, in any order."""
    D, C = (lambda o, k: dict(op="def", o=o, k=k)), (lambda w, a: dict(op="call", w=w, a=a))
    F = dict(op="fresh")
    v0, v1 = rng.choice(pool), rng.choice(pool)
    v2 = rng.choice([v for v in pool if v != v1] or pool)
    args = rng.sample([0, 1, 2], rng.choice([2, 3, 3]))
    fault = rng.choice(WRITE_FAULTS)
    where = rng.choice(["first-use", "first-use", "after-edit", "after-damage", "clearfn", "check"])
    ops, o = [], 1
    if where in ("after-edit", "after-damage"):
        ops += [D(o, v0 if where == "after-edit" else v1)] + [C(o, a) for a in args]
        if where == "after-damage":
            ops.append(dict(op="damage", w=o, kind=rng.choice([k for k in DAMAGES if k != "delete"])))
        ops.append(F)
        o += 1
    ops.append(D(o, v1))
    if where == "clearfn":
        ops += [C(o, args[0]), dict(op="clearfn", w=o, fault=fault)]
    elif where == "check":
        ops += [dict(op="check", w=o, a=args[0], fault=fault)]
    else:
        ops += [dict(C(o, args[0]), fault=fault)]
    if rng.random() < 0.3:
        ops += [dict(C(o, args[0]), fault=rng.choice(WRITE_FAULTS))]  # the repetition meets a fault too
    gave_up = rng.random() >= 0.65  # the application gave up on the OSError: the session ends here
    if not gave_up:
        ops += [C(o, a) for a in args]
    if rng.random() < 0.3:
        ops += [dict(C(o, rng.choice(args)), fault=rng.choice(WRITE_FAULTS))]  # (mostly) no write to be done: does not fire
    ops += [F, D(o + 1, v2)]
    order = list(args)
    rng.shuffle(order)
    if gave_up and rng.random() < 0.7:
        order = [a for a in order if a != args[0]] + [args[0]]  # the argument of the faulted call is not the first one called
    ops += [C(o + 1, a) for a in order] + [C(o + 1, order[0])]
    if rng.random() < 0.4:
        ops += [F, D(o + 2, v1)] + [C(o + 2, a) for a in args]
    return ops


def gen_fault_case(rng, idx, thorough, label):
    style = rng.choice(["module", "module", "nested", "main", "main", "lambda"])
    pool = list(rng.choice(LGROUPS if style == "lambda" else GROUPS))
    pads = [rng.choice([0, 1, 2, 5]) for _ in range(4)]
    if rng.random() < 0.7:
        return dict(label=f"{label}{idx}", style=style, ops=write_fault_history(rng, pool), pads=pads)
    # a walk (one or two locations) in which calls, checks and clears meet write faults
    mems = [dict(dir=0, sp=0)] if rng.random() < 0.6 else [dict(dir=0, sp=0), dict(dir=1, sp=0)]
    ops = walk_history(rng, style, pool, mems, rng.randint(6, 24 if thorough else 18))
    for op in ops:
        if op["op"] in ("call", "check", "clearfn") and rng.random() < 0.3:
            op["fault"] = rng.choice(WRITE_FAULTS)
    case = dict(label=f"{label}{idx}", style=style, ops=ops, pads=pads)
    if len(mems) > 1:
        case["mems"] = mems
    return case


def gen_enc(rng):
    """A script, a source encoding that covers it, and how it is declared."""
    script = rng.choice(sorted(SCRIPTS))
    base, _chars, codecs = SCRIPTS[script]
    codec = rng.choice(codecs + [c for c in codecs if c != "utf-8"])  # mostly not UTF-8
    if codec == "utf-8":
        bom = rng.random() < 0.6
        cookie = None if (bom and rng.random() < 0.6) else rng.randrange(len(COOKIES))
        if not bom and cookie is None:
            cookie = 0
    else:
        bom, cookie = False, rng.randrange(len(COOKIES))
    return base, dict(codec=codec, cookie=cookie, cookie_line=rng.choice([1, 1, 2]), bom=bom)


def gen_enc_case(rng, idx, thorough, label):
    """The function lives in a file whose encoding is DECLARED (cookie / BOM); its versions differ only in characters outside ASCII."""
    base, enc = gen_enc(rng)
    style = rng.choice(["module", "module", "nested", "main"])
    pool = rng.sample(range(base + 1, base + 8), rng.choice([2, 3, 4]))
    pads = [rng.choice([0, 1, 2, 5]) for _ in range(4)]
    D, C = (lambda o, k: dict(op="def", o=o, k=k)), (lambda w, a: dict(op="call", w=w, a=a))
    if rng.random() < 0.65:
        # edited between sessions (and perhaps back); every cached argument is called again, the first one twice
        args = rng.sample([0, 1, 2], rng.choice([1, 2, 3]))
        seq = [pool[0], pool[1]] + [rng.choice(pool) for _ in range(rng.choice([0, 1, 1]))]
        ops = []
        for n, v in enumerate(seq):
            order = list(args)
            rng.shuffle(order)
            ops += ([dict(op="fresh")] if ops else []) + [D(n + 1, v)] + [C(n + 1, a) for a in order] + [C(n + 1, order[0])]
    else:
        ops = walk_history(rng, style, pool, [dict(dir=0, sp=0)], rng.randint(5, 18))
    return dict(label=f"{label}{idx}", style=style, ops=ops, pads=pads, enc=enc)


def _mems_multi(rng):
    """Memory objects of a several-location history: mostly two directories, sometimes three, sometimes two Memory objects on one
    directory (same spelling: the same location)."""
    r = rng.random()
    if r < 0.14:
        return [dict(dir=0, sp=0), dict(dir=0, sp=0)]
    if r < 0.20:
        return [dict(dir=0, sp=3), dict(dir=0, sp=3), dict(dir=1, sp=3)]  # all relative: one spelling per directory
    nd = 2 if r < 0.80 else 3
    mems = [dict(dir=d, sp=0) for d in range(nd)]
    if rng.random() < 0.3:
        mems.append(dict(dir=rng.randrange(nd), sp=0))  # a second Memory object on one of the directories
    return mems


def walk_history(rng, style, pool, mems, n, max_sessions=3):
    """A random walk like `gen_case`'s, with every wrapper at the location of one of `mems`; biased towards wrapping one function
    object at several locations and towards calling the same argument everywhere."""
    ops, live, wraps = [], [], []
    ver = {}
    nobj, nw = 0, 100
    sessions = 1
    nm = len(mems)
    hot = rng.choice([0, 0, 1])  # the argument most calls use
    while len(ops) < n:
        r = rng.random()
        if not live or (r < 0.16 and len(live) < 4):
            nobj += 1
            ver[nobj] = rng.choice(pool)
            ops.append(dict(op="def", o=nobj, k=ver[nobj], m=rng.randrange(nm)))
            live.append(nobj)
            wraps.append(nobj)
            if rng.random() < 0.55 and len(wraps) < len(live) + 4:
                # the same function object cached at another location as well
                nw += 1
                ops.append(dict(op="wrap", w=nw, o=nobj, m=rng.choice([m for m in range(nm) if m != ops[-1]["m"]] or [0])))
                wraps.append(nw)
        elif r < 0.66:
            w = rng.choice(wraps)
            a = rng.choice([hot, hot, hot, 0, 1, 2])
            if rng.random() < 0.12:
                ops.append(dict(op="check", w=w, a=a))
            ops.append(dict(op="call", w=w, a=a))
        elif r < 0.71 and style != "lambda":
            cands = [o for o in live if ver[o] not in NO_SWAP]
            if len(cands) >= 1:
                ops.append(dict(op="swap", o=rng.choice(cands), p=rng.choice(cands)))
        elif r < 0.78 and len(wraps) < len(live) + 4:
            nw += 1
            ops.append(dict(op="wrap", w=nw, o=rng.choice(live), m=rng.randrange(nm)))
            wraps.append(nw)
        elif r < 0.81:
            ops.append(dict(op="clearfn", w=rng.choice(wraps)))
        elif r < 0.86:
            ops.append(dict(op="clearall", m=rng.randrange(nm)))
        elif r < 0.91:
            ops.append(dict(op="damage", w=rng.choice(wraps), kind=rng.choice(DAMAGES)))
        elif r < 0.99 and sessions < max_sessions and len(ops) > 1:
            ops.append(dict(op="fresh"))
            live, wraps = [], []
            sessions += 1
    while ops and ops[-1]["op"] in ("fresh", "def", "wrap"):
        ops.pop()
    return ops


def stale_elsewhere_history(rng, pool, mems):
    """Version v1 is cached at location B (and perhaps at A); the definition changes (next session, or a second live definition);
    the new version is called at A FIRST — it enters the in-memory tables there — and then at B with every argument v1 cached."""
    D, C = (lambda o, k, m: dict(op="def", o=o, k=k, m=m)), (lambda w, a: dict(op="call", w=w, a=a))
    W = lambda w, o, m: dict(op="wrap", w=w, o=o, m=m)  # noqa: E731
    v1 = rng.choice(pool)
    v2 = rng.choice([v for v in pool if v != v1] or pool)
    ma, mb = rng.sample(range(len(mems)), 2) if len(mems) > 1 else (0, 0)
    args = rng.sample([0, 1, 2], rng.choice([1, 2, 3]))
    ops = [D(1, v1, mb)] + [C(1, a) for a in args]
    if rng.random() < 0.4:
        ops += [W(101, 1, ma), C(101, args[0])]
    same_process = rng.random() < 0.4
    if not same_process:
        ops.append(dict(op="fresh"))
    ops += [D(2, v2, ma), W(102, 2, mb)]
    first = rng.choice(["call", "call", "check", "clearfn"])
    ops += [C(2, args[0])] if first == "call" else [dict(op="check", w=2, a=args[0]), C(2, args[0])] if first == "check" else [dict(op="clearfn", w=2)]
    order = list(args)
    rng.shuffle(order)
    ops += [C(102, a) for a in order] + [C(2, a) for a in order]
    if same_process:
        ops += [C(1, a) for a in args] + [C(102, args[0])]  # the older definition is still alive: its own values, at B
    if rng.random() < 0.5:
        ops += [dict(op="fresh"), D(3, v2, mb), W(103, 3, ma)] + [C(3, a) for a in args] + [C(103, a) for a in args]
    return ops


def clear_one_history(rng, pool, mems):
    """One version cached at every location; `Memory.clear()` (or a fault, or MemorizedFunc.clear) at ONE of them; every location is
    called again, in this process and in the next: the others must still hit."""
    D, C = (lambda o, k, m: dict(op="def", o=o, k=k, m=m)), (lambda w, a: dict(op="call", w=w, a=a))
    v = rng.choice(pool)
    nm = len(mems)
    args = rng.sample([0, 1, 2], 2)
    ops = [D(1, v, 0)] + [dict(op="wrap", w=100 + m, o=1, m=m) for m in range(1, nm)]
    ws = [1] + [100 + m for m in range(1, nm)]
    for w in ws:
        ops += [C(w, a) for a in args]
    victim = rng.randrange(nm)
    what = rng.choice(["clearall", "clearall", "clearfn", "damage"])
    ops.append(dict(op="clearall", m=victim) if what == "clearall" else dict(op="clearfn", w=ws[victim]) if what == "clearfn"
               else dict(op="damage", w=ws[victim], kind=rng.choice(DAMAGES)))
    order = list(ws)
    rng.shuffle(order)
    for w in order:
        ops += [C(w, a) for a in args]
    ops += [dict(op="fresh"), D(2, v, 0)] + [dict(op="wrap", w=200 + m, o=2, m=m) for m in range(1, nm)]
    for w in [2] + [200 + m for m in range(1, nm)]:
        ops += [C(w, a) for a in args]
    return ops


def gen_multi_case(rng, idx, thorough, label):
    style = rng.choice(["module", "module", "nested", "main", "main", "lambda"])
    pool = list(rng.choice(LGROUPS if style == "lambda" else GROUPS))
    pads = [rng.choice([0, 1, 2, 5]) for _ in range(4)]
    mems = _mems_multi(rng)
    shape = rng.random()
    if shape < 0.25:
        ops = stale_elsewhere_history(rng, pool, mems)
    elif shape < 0.37:
        ops = clear_one_history(rng, pool, mems)
    else:
        ops = walk_history(rng, style, pool, mems, rng.randint(4, 26 if thorough else 20))
    return dict(label=f"{label}{idx}", style=style, mems=mems, ops=ops, pads=pads)


def gen_alias_case(rng, idx, thorough, label):
    """One directory under two spellings (and sometimes a second directory)."""
    style = rng.choice(["module", "nested", "main", "main", "lambda"])
    pool = list(rng.choice(LGROUPS if style == "lambda" else GROUPS))
    sp = rng.sample([0, 1, 2, 3], 2)
    mems = [dict(dir=0, sp=sp[0]), dict(dir=0, sp=sp[1])] + ([dict(dir=1, sp=0)] if rng.random() < 0.3 else [])
    if rng.random() < 0.5:
        D, C = (lambda o, k, m: dict(op="def", o=o, k=k, m=m)), (lambda w, a: dict(op="call", w=w, a=a))
        v1 = rng.choice(pool)
        v2 = rng.choice([v for v in pool if v != v1] or pool)
        a = rng.choice([0, 1])
        ops = [D(1, v1, 0), D(2, v2, 1), C(1, a), C(2, a), C(1, a), C(2, a), C(1, a)]
    else:
        ops = walk_history(rng, style, pool, mems, rng.randint(4, 16), max_sessions=2)
    return dict(label=f"{label}{idx}", style=style, mems=mems, ops=ops, pads=[rng.choice([0, 1, 2, 5]) for _ in range(4)])


GENERATORS = {"main": None, "search": None, "multi": gen_multi_case, "search-multi": gen_multi_case, "alias": gen_alias_case,
              "fault": gen_fault_case, "search-fault": gen_fault_case, "enc": gen_enc_case, "search-enc": gen_enc_case}


def corpus_cases():
    D, C, K = (lambda o, k: dict(op="def", o=o, k=k)), (lambda w, a: dict(op="call", w=w, a=a)), (lambda w, a: dict(op="check", w=w, a=a))
    S = lambda o, p: dict(op="swap", o=o, p=p)  # noqa: E731
    F = dict(op="fresh")
    out = []
    for style in STYLES:
        a, b = (21, 22) if style == "lambda" else (1, 2)
        # F10: v1 cached, v2 defined under the same name and cached, then old / new / old
        out.append(dict(label="corpus-f10-" + style, style=style, ops=[D(1, a), D(2, b), C(1, 1), C(2, 1), C(1, 1), C(2, 1), C(1, 1)]))
        out.append(dict(label="corpus-f10-check-" + style, style=style, ops=[D(1, a), D(2, b), C(1, 1), K(2, 1), C(2, 1), C(1, 1), C(2, 1)]))
        # edited between sessions, and back; unchanged code keeps its cache across sessions
        out.append(dict(label="corpus-sessions-" + style, style=style, pads=[0, 4, 1, 6],
                        ops=[D(1, a), C(1, 0), C(1, 1), F, D(2, a), C(2, 0), C(2, 2), F, D(3, b), C(3, 0), F, D(4, a), C(4, 0), C(4, 0)]))
    for style in ("module", "nested", "main"):
        # F38: swap to another version's code object and back, one wrapper / two wrappers
        out.append(dict(label="corpus-f38-" + style, style=style, ops=[D(1, 1), D(2, 2), C(1, 0), S(1, 2), C(1, 0), S(1, 1), C(1, 0), S(1, 2), C(1, 0)]))
        out.append(dict(label="corpus-f38-two-wrappers-" + style, style=style,
                        ops=[D(1, 1), D(2, 2), dict(op="wrap", w=101, o=1), C(1, 0), S(1, 2), C(1, 0), S(1, 1), dict(op="clearall"), C(1, 0),
                             S(1, 2), C(101, 0), S(1, 1), C(101, 0), C(1, 0)]))
    # Memory.clear(), the same function cached again, then a fresh process: unchanged code must keep what was cached after the clear
    for style in ("module", "main"):
        out.append(dict(label="corpus-clearall-then-fresh-" + style, style=style,
                        ops=[D(1, 1), C(1, 0), dict(op="clearall"), C(1, 0), C(1, 1), F, D(2, 1), C(2, 0), C(2, 1),
                             dict(op="clearfn", w=2), C(2, 0), F, D(3, 1), C(3, 0)]))
    # ---- several locations
    Dm = lambda o, k, m: dict(op="def", o=o, k=k, m=m)  # noqa: E731
    Wm = lambda w, o, m: dict(op="wrap", w=w, o=o, m=m)  # noqa: E731
    AB = [dict(dir=0, sp=0), dict(dir=1, sp=0)]
    for style in STYLES:
        a, b = (21, 22) if style == "lambda" else (1, 2)
        # a reviewer's regression (writer key without the location), across sessions: v1 cached at B; edited; v2 through A, then B
        out.append(dict(label="corpus-locations-sessions-" + style, style=style, mems=AB,
                        ops=[Dm(1, a, 1), C(1, 0), C(1, 1), C(1, 0), F, Dm(2, b, 0), Wm(102, 2, 1), C(2, 0), C(102, 0), C(102, 1), C(2, 1),
                             C(102, 0)]))
        # ... and in one process (module re-imported: both definitions alive); the older one keeps its own values at B
        out.append(dict(label="corpus-locations-one-process-" + style, style=style, mems=AB,
                        ops=[Dm(1, a, 1), C(1, 0), C(1, 1), Dm(2, b, 0), Wm(102, 2, 1), C(2, 0), C(102, 0), C(102, 1), C(2, 1), C(1, 0),
                             C(102, 0), C(1, 1)]))
        # one function object at two locations; Memory.clear() of one: the other keeps its cache, in this process and the next
        out.append(dict(label="corpus-locations-clear-one-" + style, style=style, mems=AB,
                        ops=[Dm(1, a, 0), Wm(101, 1, 1), C(1, 0), C(101, 0), C(1, 0), C(101, 0), dict(op="clearall", m=0), C(101, 0), C(1, 0),
                             C(1, 0), F, Dm(2, a, 1), Wm(102, 2, 0), C(2, 0), C(102, 0)]))
    for style in ("module", "main"):
        # F10 over two locations: v1 and v2 alive, each cached at A and at B, interleaved
        out.append(dict(label="corpus-locations-f10-" + style, style=style, mems=AB,
                        ops=[Dm(1, 1, 0), Dm(2, 2, 1), Wm(101, 1, 1), Wm(102, 2, 0), C(1, 1), C(2, 1), C(101, 1), C(102, 1), C(1, 1), C(2, 1),
                             C(101, 1), C(102, 1)]))
        # two Memory objects on ONE directory (one location): what one writes the other sees
        out.append(dict(label="corpus-two-memories-one-directory-" + style, style=style, mems=[dict(dir=0, sp=0), dict(dir=0, sp=0)],
                        ops=[Dm(1, 1, 0), Dm(2, 2, 1), Wm(101, 1, 1), C(1, 1), C(2, 1), C(1, 1), C(101, 1), C(2, 1), dict(op="clearall", m=1),
                             C(1, 1), C(101, 1), C(2, 1), F, Dm(3, 2, 0), Wm(103, 3, 1), C(3, 1), C(103, 1)]))
        # a fault at one location: the other is not concerned; code swap seen from both locations
        for kind in ("delete", "inheader", "afterheader"):
            out.append(dict(label=f"corpus-locations-damage-{kind}-{style}", style=style, mems=AB,
                            ops=[Dm(1, 1, 0), Wm(101, 1, 1), C(1, 0), C(101, 0), dict(op="damage", w=101, kind=kind), C(1, 0), F, Dm(2, 2, 0),
                                 Wm(102, 2, 1), C(102, 0), C(2, 0), C(102, 0)]))
        out.append(dict(label="corpus-locations-code-swap-" + style, style=style, mems=AB,
                        ops=[Dm(1, 1, 0), Dm(2, 2, 0), Wm(101, 1, 1), C(1, 0), C(101, 0), S(1, 2), C(1, 0), S(1, 1), C(101, 0), C(1, 0), S(1, 2),
                             C(101, 0), C(1, 0)]))
    # three directories, all relative to the cwd (one spelling each)
    out.append(dict(label="corpus-locations-three-relative", style="module", mems=[dict(dir=d, sp=3) for d in range(3)],
                    ops=[Dm(1, 1, 0), Wm(101, 1, 1), Wm(102, 1, 2), C(1, 0), C(101, 0), C(102, 0), Dm(2, 4, 1), C(2, 0), C(101, 0), C(1, 0),
                         C(102, 0), dict(op="clearall", m=2), C(102, 0), C(1, 0)]))
    # F46: one directory under two spellings, F10's history
    for style in ("module", "nested", "main"):
        for sp in (1, 2, 3):
            out.append(dict(label=f"corpus-aliased-location-{sp}-{style}", style=style, mems=[dict(dir=0, sp=0), dict(dir=0, sp=sp)],
                            ops=[Dm(1, 1, 0), Dm(2, 2, 1), C(1, 1), C(2, 1), C(1, 1), C(2, 1), C(1, 1)]))
    # a transient fault on the write of func_code.py (open / write), on first use and on the first call after an edit; the call is
    # repeated, two more arguments are cached; the function is edited; the next session calls all of them
    for style in STYLES:
        a, b = (21, 22) if style == "lambda" else (1, 2)
        for fault in ("open:EMFILE", "write:ENOSPC"):
            out.append(dict(label=f"corpus-write-fault-first-use-{fault.split(':')[0]}-{style}", style=style,
                            ops=[D(1, a), dict(C(1, 0), fault=fault), C(1, 0), C(1, 1), C(1, 2), F, D(2, b), C(2, 0), C(2, 1), C(2, 2)]))
        out.append(dict(label="corpus-write-fault-after-edit-" + style, style=style,
                        ops=[D(1, b), C(1, 0), C(1, 1), F, D(2, a), dict(C(2, 1), fault="open:ENOSPC"), C(2, 1), C(2, 0), C(2, 2),
                             dict(op="clearfn", w=2, fault="write:EIO"), C(2, 0), dict(C(2, 0), fault="open:EACCES"), F, D(3, b), C(3, 2),
                             C(3, 0), C(3, 1)]))
    for style in ("module", "main"):
        # ... and the application gives up on the OSError: whatever the faulted call left must not be served to the edited function
        out.append(dict(label="corpus-write-fault-gave-up-first-use-" + style, style=style,
                        ops=[D(1, 1), dict(C(1, 0), fault="open:EMFILE"), F, D(2, 2), C(2, 1), C(2, 0), C(2, 0)]))
        out.append(dict(label="corpus-write-fault-gave-up-after-edit-" + style, style=style,
                        ops=[D(1, 2), C(1, 0), C(1, 1), F, D(2, 1), dict(C(2, 0), fault="open:ENOSPC"), F, D(3, 2), C(3, 1), C(3, 0), C(3, 0)]))
    # the source file in a declared encoding; the edit changes one character outside ASCII
    for codec, base in (("latin-1", 30), ("cp1252", 30), ("koi8-r", 40), ("big5", 50), ("shift_jis", 50), ("utf-8", 30)):
        style = "main" if codec in ("cp1252", "shift_jis") else "module"
        out.append(dict(label=f"corpus-source-encoding-{codec}-{style}", style=style, pads=[0, 2, 0, 1],
                        enc=dict(codec=codec, cookie=0, cookie_line=1, bom=False),
                        ops=[D(1, base + 1), C(1, 0), C(1, 1), F, D(2, base + 1), C(2, 1), D(12, base + 6), C(12, 1), F, D(3, base + 2), C(3, 0),
                             C(3, 1), F, D(4, base + 3), C(4, 1), C(4, 0)]))
    out.append(dict(label="corpus-source-encoding-utf8-bom", style="module", enc=dict(codec="utf-8", cookie=None, cookie_line=1, bom=True),
                    ops=[D(1, 31), C(1, 0), C(1, 1), F, D(2, 32), C(2, 0), C(2, 1), F, D(3, 32), C(3, 0)]))
    # every kind of edit between sessions, each followed by calls with all cached arguments
    ops = []
    for n, v in enumerate(sorted(VERSIONS)):
        ops += ([F] if ops else []) + [D(n + 1, v), C(n + 1, 0), C(n + 1, 1), C(n + 1, 0)]
    out.append(dict(label="corpus-all-edits", style="module", ops=ops))
    ops = []
    for n, v in enumerate([1, 4, 5, 1, 13, 8, 1]):
        ops += [D(n + 1, v), C(n + 1, 0), C(n + 1, 1)]
    out.append(dict(label="corpus-whitespace-edits-in-session", style="main", ops=ops))
    # damage of every kind with two entries stored, then the edited definition on all arguments
    for kind in DAMAGES:
        out.append(dict(label="corpus-damage-" + kind, style="module",
                        ops=[D(1, 1), C(1, 0), C(1, 1), dict(op="damage", w=1, kind=kind), F, D(2, 2), C(2, 0), C(2, 1), C(2, 0)]))
        out.append(dict(label="corpus-damage-insession-" + kind, style="main",
                        ops=[D(1, 1), D(2, 4), C(1, 0), C(1, 1), dict(op="damage", w=1, kind=kind), C(1, 0), C(2, 0), C(2, 1), C(1, 1)]))
    return out


# ----------------------------------------------------------------------------- exploration

_CFG = {}


def impl_cfg(scratch):
    """(f10, f38, wkl, f46, wfr): what the tree under test does on five probe histories, probed once.  f10 / f38 / f46: 1 = the repaired
    behaviour; wkl: 1 = the in-memory shortcut of one location does not answer for another (the writer key contains the location);
    wfr: 1 = a failing write of func_code.py raises to the caller (the code as it is), 0 = it is swallowed."""
    key = str(core.REPO)
    if key not in _CFG:
        D, C = (lambda o, k, m=0: dict(op="def", o=o, k=k, m=m)), (lambda w, a: dict(op="call", w=w, a=a))
        d = os.path.join(str(scratch), "probe")

        def probe(label, ops, mems=None):
            r = run_case(dict(label=label, style="module", ops=ops, mems=mems), d)
            shutil.rmtree(d, ignore_errors=True)
            return r

        r10 = probe("probe10", [D(1, 1), D(2, 2), C(1, 1), C(2, 1), C(1, 1)])
        r38 = probe("probe38", [D(1, 1), D(2, 2), C(1, 0), dict(op="swap", o=1, p=2), C(1, 0), dict(op="swap", o=1, p=1), C(1, 0)])
        rkl = probe("probe-writer-key", [D(1, 1, 1), C(1, 1), dict(op="fresh"), D(2, 2, 0), dict(op="wrap", w=102, o=2, m=1), C(2, 1), C(102, 1)],
                    [dict(dir=0, sp=0), dict(dir=1, sp=0)])
        r46 = probe("probe46", [D(1, 1, 0), D(2, 2, 1), C(1, 1), C(2, 1), C(1, 1)], [dict(dir=0, sp=0), dict(dir=0, sp=1)])
        rwf = probe("probe-write-fault", [D(1, 1), dict(C(1, 0), fault="open:EMFILE")])
        _CFG[key] = (int(r10[-1][:2] == ["val", plain(1, 1)]), int(r38[-1][:2] == ["val", plain(1, 0)]),
                     int(rkl[-1][:2] == ["val", plain(2, 1)]), int(r46[-1][:2] == ["val", plain(1, 1)]),
                     int(rwf[-1][0] == "raise"))
    return _CFG[key]


def run_one(case, workdir, driver, res, cfg):
    recs = run_case(case, workdir)
    lines, idx = model_lines(case, recs, cfg)
    replies = driver.run(lines)
    for j, (op, out, w) in enumerate(zip(case["ops"], recs, idx)):
        res.evaluations += 1
        res.count("op=" + op["op"] + (":" + out[1] if op["op"] == "damage" and out and out[0] == "damage" else "")
                  + (":write-fault-" + out[-1] + ("-raised" if out[0] == "raise" else "") if op.get("fault") else ""))
        if w is None:
            continue
        rep = replies[w]
        res.traces_validated += 1
        if rep == "bad-op":
            raise core.InfraError(f"driver rejected {lines[w]!r}")
        m = canon_model(rep)
        o = ["ok"] if op["op"] == "damage" else out[:-1] if op.get("fault") else out
        if m != o:
            res.diverge("step", dict(case=case, step=j, op=op, model_cfg=list(cfg)), out, m)
    judge(case, recs, res)
    res.count("style=" + case["style"])
    if case.get("enc"):
        res.count("source-encoding=" + enc_class(case["enc"]) + ":" + case["enc"]["codec"])
    res.count("sessions=%d" % len(sessions_of(case)))
    mems = case_mems(case)
    res.count("directories=%d" % len({m["dir"] for m in mems}))
    res.count("memory-objects=%d" % len(mems))
    if any(a["dir"] == b["dir"] and mem_key(a) != mem_key(b) for a in mems for b in mems):
        res.count("one-directory-under-two-spellings")
    elif len(mems) > len({m["dir"] for m in mems}):
        res.count("two-memory-objects-on-one-directory")
    shutil.rmtree(workdir, ignore_errors=True)


def _worker(job):
    seed, tier, scratch, salt, start, count, cfg = job
    core.use_repo()
    res = Result()
    driver = core.Driver("C12")
    for idx in range(start, start + count):
        rng = random.Random(f"C12/{seed}/{salt}/{idx}")
        case = (GENERATORS.get(salt) or gen_case)(rng, idx, tier == "thorough", salt)
        run_one(case, os.path.join(scratch, f"{salt}{idx}"), driver, res, cfg)
        if idx < start + 1:
            res.sample(case)
    return res


def _merge(res, part):
    """`memcache.merge`, but with the oracle failures thinned per SIGNATURE (at most 5 each) instead of cut at a total: the failures of
    the known findings (F39, F46: several per history) must not use up the room a failure with a new signature needs."""
    from .. import memcache

    fails, part.oracle_failures = part.oracle_failures, []
    memcache.merge(res, part)
    per = {}
    for f in res.oracle_failures:
        per[f["signature"]] = per.get(f["signature"], 0) + 1
    for f in fails:
        if per.get(f["signature"], 0) < 5:
            per[f["signature"]] = per.get(f["signature"], 0) + 1
            res.oracle_failures.append(f)


def explore(ctx, streams, with_corpus=True):
    """`streams`: [(salt, number of cases)] — the salt selects the generator (`GENERATORS`)."""
    core.use_repo()
    res = Result()
    res.rule = RULE
    cfg = impl_cfg(ctx.scratch)
    res.extra["implementation"] = dict(
        in_memory_shortcut="checks the writer of func_code.py (F10 repaired)" if cfg[0] else "_FUNCTION_HASHES only (before F10)",
        func_code_info="records the code object its source was read for (F38 repaired)" if cfg[1] else "keeps the first code object seen (F38)",
        writer_key="names the location" if cfg[2] else "one slot for all locations (answers for a location it never read)",
        writer_key_spelling="the resolved directory (F46 repaired)" if cfg[3] else "the location string as given (F46: two spellings of one directory = two slots)",
        failing_write_of_func_code="raises to the caller before anything is stored" if cfg[4] else "swallowed: entries get stored without func_code.py")
    driver = ctx.driver()
    workers = min(16, os.cpu_count() or 1)
    if with_corpus:
        cc = corpus_cases()
        chunks = [cc[i::workers] for i in range(workers)]
        with concurrent.futures.ProcessPoolExecutor(max_workers=workers) as ex:
            for part in ex.map(_corpus_worker, [(str(ctx.scratch), ch, cfg) for ch in chunks if ch]):
                _merge(res, part)
        res.count("corpus-cases", len(cc))
    jobs = []
    for salt, n_cases in streams:
        per = max(1, (n_cases + workers * 3 - 1) // (workers * 3))
        jobs += [(ctx.seed, ctx.tier, str(ctx.scratch), salt, s, min(per, n_cases - s), cfg) for s in range(0, n_cases, per)]
        res.count("stream-%s-cases" % salt, n_cases)
    with concurrent.futures.ProcessPoolExecutor(max_workers=workers) as ex:
        for part in ex.map(_worker, jobs):
            _merge(res, part)
    bad = ["", "call 1", "def 1 1", "def 1 1 2", "def 1 1 1", "def 1 1 2 0", "reset", "reset 1", "reset 1 1", "reset 2 1 1 0", "reset 1 1 1 0",
           "reset 1 1 1 0 2", "fault", "fault open", "fault close call 1 1", "fault open call 1", "fault write fault write call 1 1", "swap 1 2", "call x 1",
           "fresh now", "damage", "damage torn", "damage other", "damage 0 torn", "wrap 1", "wrap 1 1", "wrap 1 1 0", "clearall", "clearall x"]
    replies = driver.run(["reset 1 1 1 0 1"] + bad)
    for b, rep in zip(bad, replies[1:]):
        if rep != "bad-op":
            res.diverge("malformed-request", b, "bad-op", rep)
    first = driver.run(["call 1 1"])
    if first != ["bad-op"]:
        res.diverge("malformed-request", "call before reset", "bad-op", first)
    res.count("malformed-requests", len(bad) + 1)
    res.assumptions = ["sessions are sequential", "a source text determines the function's behaviour (no closures over differing values)"]
    return res


def _corpus_worker(job):
    scratch, cases, cfg = job
    core.use_repo()
    res = Result()
    driver = core.Driver("C12")
    for c in cases:
        run_one(c, os.path.join(scratch, c["label"]), driver, res, cfg)
    return res


RELOAD = os.path.join(os.path.dirname(os.path.dirname(os.path.abspath(__file__))), "c12_reload.py")


def _reload_probe(ctx, res):
    """File edited and re-imported in the same session (harness/c12_reload.py); oracle only."""
    base = "def f(x):\n    t = x * %s\n    return ('v', t)\n"
    confs = []
    for keep_mtime, consts in ((True, ("2", "3", "2")), (False, ("2", "3")), (True, ("2", "7")), (False, ("2", "11", "2")), (True, ("4", "5", "6"))):
        confs.append(dict(keep_mtime=keep_mtime, same_size=len({len(c) for c in consts}) == 1, texts=[base % c for c in consts]))
    env = dict(os.environ, PYTHONPATH=str(core.REPO))
    for k, conf in enumerate(confs):
        spec = dict(conf, dir=os.path.join(str(ctx.scratch), f"reload{k}"))
        case = dict(kind="reload-probe", keep_mtime=conf["keep_mtime"], same_size=conf["same_size"], texts=conf["texts"])
        try:
            p = subprocess.run([core.PY, "-B", RELOAD, json.dumps(spec)], env=env, capture_output=True, text=True, timeout=120)
            out = json.loads(p.stdout.strip().splitlines()[-1])
        except (subprocess.TimeoutExpired, ValueError, IndexError) as e:
            res.fail("reload-probe:did-not-finish", case, repr(e)[:300])
            continue
        res.evaluations += len(out["steps"])
        res.count("reload-probe-runs")
        res.nontrivial.add(("reload", conf["keep_mtime"], conf["same_size"], len(conf["texts"])))
        if out["errors"]:
            e = out["errors"][0]
            res.fail(f"{e[2]}:module:reloaded-in-session" + (":same-size-and-mtime" if conf["keep_mtime"] and conf["same_size"] else ""),
                     case, out)


INTERRUPT = os.path.join(os.path.dirname(os.path.dirname(os.path.abspath(__file__))), "c12_interrupt.py")


def _interrupt_probe(ctx, res):
    """The wipe after a source change is interrupted half-way while the old func_code.py is still there (harness/c12_interrupt.py)."""
    base = "def f(x):\n    t = x * %s\n    return ('w', t)\n"
    env = dict(os.environ, PYTHONPATH=str(core.REPO))
    for k, (exc, nargs) in enumerate([("KeyboardInterrupt", 4), ("OSError", 6), ("KeyboardInterrupt", 8)]):
        d = os.path.join(str(ctx.scratch), f"interrupt{k}")
        args = list(range(nargs))
        case = dict(kind="interrupt-probe", exc=exc, args=args)
        outs = []
        try:
            for phase, const in ((1, "2"), (2, "30"), (3, "30")):
                spec = dict(dir=d, phase=phase, text=base % const, args=args, exc=exc)
                p = subprocess.run([core.PY, "-B", INTERRUPT, json.dumps(spec)], env=env, capture_output=True, text=True, timeout=120)
                outs.append(json.loads(p.stdout.strip().splitlines()[-1]))
        except (subprocess.TimeoutExpired, ValueError, IndexError) as e:
            res.fail("interrupt-probe:did-not-finish", case, repr(e)[:300])
            continue
        res.evaluations += len(outs[2]["steps"])
        res.count("interrupt-probe-runs")
        if not outs[1].get("fired") or outs[1].get("note") or not outs[1].get("interrupted"):
            res.count("interrupt-probe-not-applicable")
            continue
        res.nontrivial.add(("interrupt", exc, nargs, outs[1].get("entries_left")))
        if outs[2]["errors"]:
            e = outs[2]["errors"][0]
            res.fail(f"{e[1]}:module:wipe-interrupted-before-func-code-removed", case, dict(phase2=outs[1], phase3=outs[2]))



# ----------------------------------------------------------------------------- the text layer of func_code.py

MARKER_CP = [35, 32, 102, 105, 114, 115, 116, 32, 108, 105, 110, 101, 58]  # what the MODEL has for FIRST_LINE_TEXT
_TEXT_ALPHABET = ["\n", "\n", " ", "\r", "\t", "#", ":", "0", "7", "-", "+", "_", "d", "e", "f", "(", ")", "é", "\U0001f600", "\x1c", "\x00"]
_LINE_NUMBERS = [-1, -1, 0, 1, 9, 10, 42, 99, 100, 12345, 10 ** 20, -7, -120]
_NUMBER_FIELDS = ["", " ", " 12", "12", " 1_0", " 1__0", " _1", " 1_", " +5", " -5", " - 5", " 0007", "\t8\r", " 1 2", " 12abc", " \x1c3",
                  " ٣", " ١٢", " 1 ", " 1\x00", " 0x10", " 1e3", " 1.0", " --1", "  \t 44  "]


def _cps(t):
    return " ".join(str(ord(c)) for c in t) if t else "-"


def _from_cps(tokens):
    return "" if tokens == ["-"] or not tokens else "".join(chr(int(x)) for x in tokens)


def _text_stream(ctx, res):
    """`_write_func_code`'s format, `extract_first_line`'s parse: the real functions against `JoblibModel.FuncCodeText`
    on generated sources and line numbers, intact and cut at every length; plus an oracle that does not use the model:
    the round trip, and `a torn file never reads as the source that was being written`."""
    joblib = core.use_repo()
    import joblib.memory as jm
    rng = ctx.rng("text")
    marker = jm.FIRST_LINE_TEXT
    mem = joblib.Memory(os.path.join(str(ctx.scratch), "textlayer"), verbose=0)

    def _f(x):
        return x
    cf = mem.cache(_f)
    fc_path = os.path.join(cf.store_backend.location, cf.func_id, "func_code.py")

    def impl_write(n, code):
        try:
            cf._write_func_code(code, n)
            with open(fc_path, "rb") as f:
                return ("text", f.read().decode("utf-8"))
        except Exception as e:  # noqa: BLE001
            return ("raise", type(e).__name__)

    def impl_extract(t):
        try:
            c, n = jm.extract_first_line(t)
            return ("ok", n, c)
        except ValueError:
            return ("valueerror",)
        except Exception as e:  # noqa: BLE001
            return ("raise", type(e).__name__)

    n_src = 220 if ctx.thorough else 45
    sources = ["", "def f(x):\n    return x\n", marker + " 3\nx", "# first line", "\n", "\n\n", "a\r\nb", "é", "def f():\n  return 12"]
    while len(sources) < n_src:
        k = rng.choice([0, 1, 2, 3, 5, 8, 13, 30])
        t = "".join(rng.choice(_TEXT_ALPHABET) for _ in range(k))
        if rng.random() < 0.15:
            t = marker + t
        sources.append(t)
    lines, meta = [], []
    for code in sources:
        n = rng.choice(_LINE_NUMBERS)
        w = impl_write(n, code)
        lines.append(f"text-write {n} {_cps(code)}".rstrip())
        meta.append(("write", dict(first_line=n, code=code), w))
        if w[0] != "text":
            continue
        full = w[1]
        # oracle (no model): round trip
        r = impl_extract(full)
        res.evaluations += 1
        if r != ("ok", n, code):
            res.fail("func-code-text:round-trip-broken", dict(kind="text", first_line=n, code=code), dict(read_back=r))
        cuts = range(len(full) + 1) if len(full) <= 60 else sorted(set(list(range(0, 24)) + [rng.randrange(len(full)) for _ in range(12)] + [len(full) - 1, len(full)]))
        for k in cuts:
            p = full[:k]
            r = impl_extract(p)
            lines.append(f"text-extract {_cps(p)}".rstrip())
            meta.append(("extract", dict(first_line=n, code=code, cut=k, of=len(full)), r))
            res.evaluations += 1
            res.count("text:cut-in-" + ("marker" if k < len(marker) else "first-line" if "\n" not in p else "source" if k < len(full) else "nothing(intact)"))
            if k < len(full):
                # oracle (no model): a torn file must not read as the source that was being written (a real source is
                # neither empty nor a fragment of the marker); any exception other than ValueError escapes the guard of
                # _check_previous_func_code
                if r[0] == "raise":
                    res.fail("func-code-text:torn-file-raises:" + r[1], dict(kind="text", first_line=n, code=code, cut=k), dict(read=r))
                elif r[0] == "ok" and r[2] == code and code != "" and not marker.startswith(code):
                    res.fail("func-code-text:torn-file-reads-as-the-written-source", dict(kind="text", first_line=n, code=code, cut=k), dict(read=r))
    # hostile first lines
    for fld in _NUMBER_FIELDS:
        for tail in ("", "\nx = 1", "\n"):
            t = marker + fld + tail
            r = impl_extract(t)
            lines.append(f"text-extract {_cps(t)}".rstrip())
            meta.append(("extract", dict(field=fld, tail=tail), r))
            res.evaluations += 1
            res.count("text:number-field")
    out = ctx.driver().run(lines)
    res.traces_validated += 1
    agree = 0
    for (kind, case, impl), ans in zip(meta, out):
        toks = ans.split(" ")
        if ans == "untracked":
            res.count("text:model-abstains")
            continue
        if kind == "write":
            model = ("text", _from_cps(toks[1:])) if toks[0] == "text" else ("?", ans)
        elif toks[0] == "ok":
            model = ("ok", int(toks[1]), _from_cps(toks[2:]))
        elif ans == "valueerror":
            model = ("valueerror",)
        else:
            model = ("?", ans)
        if model != impl:
            res.diverge("text", dict(kind="text", op=kind, **case), [str(x) for x in impl], [str(x) for x in model])
        else:
            agree += 1
            res.nontrivial.add(("text", kind, impl[0], case.get("cut", -1) if isinstance(case.get("cut"), int) and case.get("cut", 99) < 20 else "far", len(case.get("code", ""))))
    res.count("text:agreements", agree)
    if [ord(c) for c in marker] != MARKER_CP:
        res.notes.append(f"FIRST_LINE_TEXT is now {marker!r}: the text-layer model still has '# first line:' (every comparison of the text stream goes through the real constant, so this shows as divergences there)")
    res.sample(dict(stream="text", requests=lines[:3], answers=out[:3]))


# ----------------------------------------------------------------------------- how the source text is obtained


def _source_stream(ctx, res):
    """The layer BELOW the text layer: the text joblib compares must be the text Python compiled.  Module files are written in a
    declared source encoding (PEP 263 cookie on line 1 or 2, three spellings; UTF-8 with BOM, with and without cookie) with versions of
    one function that differ only in characters outside ASCII; the functions are compiled from the file's BYTES (in-process) and
    `func_inspect.get_func_code` is asked for their text.
    * oracle (no model), exactly what the property needs of that layer: two versions whose compiled texts differ are given different
      texts (else an edit is invisible: the old values are served), and one version in two files / at two line numbers is given the
      same text (else unchanged code is recomputed);
    * correspondence: the comparison `old_func_code == func_code` on what joblib retrieved, against `JoblibModel.FuncCodeText.
      compareStored` on the texts Python compiled (theorem `intact_same_iff`)."""
    core.use_repo()
    from joblib.func_inspect import get_func_code
    import joblib.memory as jm
    rng = ctx.rng("source")
    d = os.path.join(str(ctx.scratch), "sourcetext")
    os.makedirs(d, exist_ok=True)
    count = [0]

    def load(k, enc, pad):
        count[0] += 1
        path = os.path.join(d, "src%d.py" % count[0])
        head = []
        if enc.get("cookie") is not None:
            line = COOKIES[enc["cookie"]] % enc["codec"]
            head = ["#!/usr/bin/env python", line] if enc.get("cookie_line") == 2 else [line]
        text = "\n".join(head + ["# line %d above" % n for n in range(pad)] + ["N = []"] + version_lines(k)) + "\n"
        raw = (b"\xef\xbb\xbf" if enc.get("bom") else b"") + text.encode(enc["codec"])
        with open(path, "wb") as f:
            f.write(raw)
        ns = {}
        exec(compile(raw, path, "exec"), ns)  # noqa: S102 - generated text only; bytes: the cookie / BOM decides, as for an import
        return ns["f"], "\n".join(version_lines(k)) + "\n"

    confs = [(30, dict(codec="latin-1", cookie=0, cookie_line=1, bom=False)), (50, dict(codec="big5", cookie=1, cookie_line=2, bom=False)),
             (30, dict(codec="utf-8", cookie=None, cookie_line=1, bom=True)), (40, dict(codec="koi8-r", cookie=2, cookie_line=1, bom=False))]
    while len(confs) < (120 if ctx.thorough else 20):
        confs.append(gen_enc(rng))
    lines, meta = [], []
    for base, enc in confs:
        ks = list(range(base + 1, base + 8))
        cls = enc_class(enc)
        got, true = {}, {}
        try:
            for k in ks:
                f, true[k] = load(k, enc, rng.choice([0, 1, 3]))
                got[k] = get_func_code(f)
            f2, _ = load(ks[0], enc, 7)
            again = get_func_code(f2)
        except Exception as e:  # noqa: BLE001
            res.fail("source-text:retrieval-raises:" + cls, dict(kind="source-text", enc=enc), repr(e)[:300])
            continue
        res.count("source-text:files", len(ks) + 1)
        res.count("source-text:" + cls + ":" + enc["codec"])
        for i, ki in enumerate(ks):
            res.count("source-text:verbatim" if got[ki][0] == true[ki] else "source-text:not-verbatim")
            for kj in ks[i + 1:]:
                res.evaluations += 1
                if got[ki][0] == got[kj][0]:
                    res.fail("source-text:edit-invisible:" + cls, dict(kind="source-text", enc=enc, versions=[ki, kj], edit=version_name(kj)),
                             dict(retrieved=ascii(got[ki][0])[:400], compiled=[ascii(true[ki])[:400], ascii(true[kj])[:400]]))
                else:
                    res.nontrivial.add(("source-text", cls, enc["codec"], enc.get("cookie"), enc.get("cookie_line"), ki % 10, kj % 10))
        if again[0] != got[ks[0]][0]:
            res.fail("source-text:unchanged-text-differs:" + cls, dict(kind="source-text", enc=enc, versions=[ks[0], ks[0]]),
                     dict(first=ascii(got[ks[0]][0])[:400], second=ascii(again[0])[:400]))
        # the comparison of _check_previous_func_code on the retrieved texts against the model's on the compiled texts
        for ki, kj in [(ks[0], ks[0]), (ks[0], ks[1]), (ks[1], ks[2]), (ks[2], ks[2]), (ks[3], ks[6]), (ks[0], ks[5])]:
            n = got[ki][2]
            stored_model = "%s %i\n%s" % (jm.FIRST_LINE_TEXT, n, true[ki])
            try:
                impl = "same" if jm.extract_first_line("%s %i\n%s" % (jm.FIRST_LINE_TEXT, n, got[ki][0]))[0] == got[kj][0] else "changed"
            except ValueError:
                impl = "unreadable"
            lines.append("text-compare %d %s %s" % (len(stored_model), _cps(stored_model), _cps(true[kj])))
            meta.append((dict(kind="source-text", enc=enc, versions=[ki, kj]), impl))
    out = ctx.driver().run(lines) if lines else []
    res.traces_validated += 1
    for (case, impl), ans in zip(meta, out):
        res.evaluations += 1
        if ans == "untracked":
            res.count("text:model-abstains")
        elif ans != impl:
            res.diverge("source-text", case, impl, ans)
        else:
            res.count("source-text:comparison-agrees:" + ans)
    shutil.rmtree(d, ignore_errors=True)


def run(ctx):
    if ctx.replay and (ctx.replay.get("case") or {}).get("kind") == "source-text":
        res = Result()
        res.rule = "replay: the source-text stream is re-run"
        _source_stream(ctx, res)
        return res
    if ctx.replay and (ctx.replay.get("case") or {}).get("kind") == "reload-probe":
        res = Result()
        res.rule = "replay: the reload probe is re-run"
        _reload_probe(ctx, res)
        return res
    if ctx.replay and (ctx.replay.get("case") or {}).get("kind") == "interrupt-probe":
        res = Result()
        res.rule = "replay: the interrupted-wipe probe is re-run"
        _interrupt_probe(ctx, res)
        return res
    if ctx.replay:
        core.use_repo()
        res = Result()
        res.rule = RULE
        case = (ctx.replay.get("case") or {}).get("case")
        if not case:
            raise core.InfraError("replay file has no history")
        run_one(case, os.path.join(str(ctx.scratch), "replay"), ctx.driver(), res, impl_cfg(ctx.scratch))
        return res
    res = explore(ctx, [("main", 2500), ("multi", 4000), ("alias", 400), ("fault", 700), ("enc", 700)] if ctx.thorough
                  else [("main", 420), ("multi", 240), ("alias", 30), ("fault", 50), ("enc", 50)])
    _source_stream(ctx, res)
    _reload_probe(ctx, res)
    _interrupt_probe(ctx, res)
    _text_stream(ctx, res)
    return res


def search(ctx, res):
    return explore(ctx, [("search", 2600), ("search-multi", 2200), ("search-fault", 500), ("search-enc", 500)], with_corpus=False)
