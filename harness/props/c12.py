"""C12 — a cached function never returns a value computed by different source code.

Model: lean/JoblibModel/FuncCode.lean (`_check_previous_func_code`, `_FUNCTION_HASHES`, func_code.py, the entries of one
function id); theorems: lean/JoblibProofs/C12.lean; driver: lean/Driver/C12.lean.

A case is a history over ONE function name in one cache directory, split into sessions (interpreter processes):
  def o k        a new function object o with the source text of version k is created and wrapped with memory.cache
  swap o p       o.__code__ = p.__code__
  call o a       the cached function of o is called with argument a     (functions return (version, a) and log executions)
  check o a      check_call_in_cache, always followed by the identical call
  clearfn o / clearall
  fresh          the session ends; the next one starts on the same cache directory
Every session is a GENERATED PROGRAM — one Python file, rewritten for each session ("edited between sessions") — run in its own
interpreter: as a script (`__main__` functions), as an imported module (module-level functions), with the defs nested in a
factory function (nested functions), or with lambdas.  Redefinition under the same name in one session is literally
`def f ... ; f_1 = f ; def f ... ; f_2 = f`.

* correspondence: per step (value, executed?, check flag) against the model driver (model version = what the tree under test
  does on the F10 probe);
* oracle (no model): every call of a live object whose current source is version k returns (k, a); and a call is not executed
  again while the stored code is still its own version's (no call / check / clear by another version since) and the argument
  was computed under it.
"""

import concurrent.futures
import json
import os
import random
import shutil
import subprocess

from .. import core
from ..core import Result

REQUIRED_THEOREMS = [
    "C12.value_from_own_version",
    "C12.value_from_own_version_from",
    "C12.reachable_inv",
    "C12.unchanged_code_keeps_cache",
    "C12.hit_when_code_unchanged",
    "C12.old_F10_counterexample",
    "C12.old_F10_check_counterexample",
    "C12.old_value_from_own_version_false",
    "C12.fixed_on_the_witnesses",
]
TRUSTED_EXTRA = [
    "modelled, not verified: a source text determines the function's behaviour (closures over differing captured values and lambdas "
    "sharing a line are outside the domain of the property); func_inspect.get_func_code returns the text of the def block "
    "(validated by the correspondence for module-level, nested, __main__ and lambda definitions, and after a code-object swap)",
    "modelled, not verified: hash(func.__code__) changes when the code object is swapped; a fresh process starts with an empty "
    "_FUNCTION_HASHES (and _FUNC_CODE_WRITERS) table; dead function objects leaving the weak table are not modelled",
    "sessions are sequential (one process at a time on the cache directory); concurrent sessions are C11's",
]

RULE = ("histories of 3..16 operations over 1..3 sessions (interpreter processes) sharing a cache directory, 1..3 versions of "
        "one same-named function, up to 4 live function objects per session, arguments 0..2; definition styles: module-level "
        "(imported module), nested def, __main__ script, lambda; code-object swaps, check_call_in_cache, MemorizedFunc.clear, "
        "Memory.clear; non-trivial = a call step; distinct by (style, versions seen so far, versions live in the session, number of "
        "live objects, the caller's version and argument, whose code is stored, which arguments are cached under it, executed?)")

STYLES = ["module", "nested", "main", "lambda"]


# ----------------------------------------------------------------------------- program generation


def def_text(style, k):
    """Source of one definition of version k (identical text wherever it appears)."""
    if style == "lambda":
        return [f"f = lambda x: (N.append({k}), ('v{k}', x))[1]"]
    body = ["def f(x):", f"    N.append({k})", f"    return ('v{k}', x)"]
    if style == "nested":
        return ["def make():"] + ["    " + ln for ln in body] + ["    return f", "f = make()"]
    return body


def program(style, loc, result, ops):
    """The session program. ops: list of dicts (def/swap/call/check/clearfn/clearall)."""
    src = [
        "import json, os, sys, warnings",
        "sys.path.insert(0, os.environ['VERIF_REPO'])",
        "warnings.simplefilter('ignore')",
        "from joblib import Memory",
        f"_mem = Memory({loc!r}, verbose=0)",
        "N = []",
        "_out = []",
        "",
    ]
    for op in ops:
        o = op.get("o")
        if op["op"] == "def":
            src += def_text(style, op["k"]) + [f"f_{o} = f", f"c_{o} = _mem.cache(f_{o})", ""]
        elif op["op"] == "swap":
            src += [f"f_{o}.__code__ = f_{op['p']}.__code__", "_out.append(['ok'])", ""]
        elif op["op"] == "call":
            src += [
                "_n = len(N)",
                "try:",
                f"    _v = c_{o}({op['a']})",
                "    _out.append(['val', list(_v), len(N) > _n])",
                "except Exception as _e:",
                "    _out.append(['raise', type(_e).__name__])",
                "",
            ]
        elif op["op"] == "check":
            src += [
                "try:",
                f"    _out.append(['flag', bool(c_{o}.check_call_in_cache({op['a']}))])",
                "except Exception as _e:",
                "    _out.append(['raise', type(_e).__name__])",
                "",
            ]
        elif op["op"] == "clearfn":
            src += [f"c_{o}.clear(warn=False)", "_out.append(['ok'])", ""]
        elif op["op"] == "clearall":
            src += ["_mem.clear(warn=False)", "_out.append(['ok'])", ""]
    src += [f"open({result!r}, 'w').write(json.dumps(_out))", ""]
    return "\n".join(src)


def sessions_of(case):
    out, cur = [], []
    for op in case["ops"]:
        if op["op"] == "fresh":
            out.append(cur)
            cur = []
        else:
            cur.append(op)
    out.append(cur)
    return out


def run_case(case, workdir):
    """Run every session in its own interpreter. Returns one record per op (`def` and `fresh` → ['ok'])."""
    workdir = str(workdir)
    os.makedirs(workdir, exist_ok=True)
    loc = os.path.join(workdir, "cache")
    style = case["style"]
    fname = "prog.py" if style == "main" else "c12mod.py"
    path = os.path.join(workdir, fname)
    result = os.path.join(workdir, "result.json")
    recs = []
    env = dict(os.environ)
    env["VERIF_REPO"] = str(core.REPO)
    env.pop("PYTHONPATH", None)
    for si, ops in enumerate(sessions_of(case)):
        with open(path, "w") as f:
            f.write(program(style, loc, result, ops))
        for d in ("__pycache__",):
            shutil.rmtree(os.path.join(workdir, d), ignore_errors=True)
        if os.path.exists(result):
            os.remove(result)
        cmd = [core.PY, "-B", path] if style == "main" else [core.PY, "-B", "-c", "import c12mod"]
        p = subprocess.run(cmd, cwd=workdir, env=env, capture_output=True, text=True, timeout=120)
        if p.returncode != 0 or not os.path.exists(result):
            raise core.InfraError(f"session {si} of {case.get('label')} failed: {p.stderr[-600:]}")
        got = json.load(open(result))
        it = iter(got)
        if si > 0:
            recs.append(["ok"])  # the `fresh` op
        for op in ops:
            recs.append(["ok"] if op["op"] == "def" else next(it))
    return recs


# ----------------------------------------------------------------------------- model side


def model_lines(case, ver):
    lines = [f"reset {ver}"]
    src = {}
    for op in case["ops"]:
        k = op["op"]
        if k == "def":
            src[op["o"]] = op["k"]
            lines.append(f"def {op['o']} {op['k']} {0 if case['style'] == 'lambda' else 1}")
        elif k == "swap":
            src[op["o"]] = src[op["p"]]
            lines.append(f"swap {op['o']} {src[op['o']]}")
        elif k in ("call", "check"):
            lines.append(f"{k} {op['o']} {op['a']}")
        elif k == "clearfn":
            lines.append(f"clearfn {op['o']}")
        else:
            lines.append(k)
    return lines


def canon_model(rep):
    t = rep.split()
    if t[0] == "val":
        return ["val", ["v" + t[2], int(t[3])], t[1] == "x"]
    if t[0] == "flag":
        return ["flag", t[1] == "1"]
    if rep == "ok":
        return ["ok"]
    return [rep]


# ----------------------------------------------------------------------------- oracle (no model)


def judge(case, recs, res):
    src, owner, valid = {}, None, set()
    seen_versions = set()
    session_sources = set()
    prev_check = None
    for j, (op, out) in enumerate(zip(case["ops"], recs)):
        k = op["op"]
        ctx = dict(case=case, step=j, op=op, out=out)
        if k == "fresh":
            src, session_sources, prev_check = {}, set(), None
            continue
        if k == "def":
            src[op["o"]] = op["k"]
            seen_versions.add(op["k"])
            session_sources.add(op["k"])
            continue
        if k == "swap":
            src[op["o"]] = src[op["p"]]
            continue
        if k == "clearall":
            owner, valid = None, set()
            continue
        mine = src[op["o"]]
        if k == "clearfn":
            owner, valid = mine, set()
            continue
        tag = case["style"] + (":redefined-in-session" if len(session_sources) > 1 else "")
        if k == "check":
            if owner != mine:
                owner, valid = mine, set()
            prev_check = (op["o"], op["a"], out)
            continue
        # call
        res.count("call:" + ("stored-code-is-own" if owner == mine else "stored-code-is-other" if owner is not None else "no-stored-code"))
        expect_hit = owner == mine and op["a"] in valid
        if out[0] != "val":
            res.fail("call-raises:" + case["style"], ctx, out)
        else:
            if out[1] != ["v%d" % mine, op["a"]]:
                res.fail("wrong-version-value:" + tag, ctx, dict(returned=out[1], own_version=mine, stored_code_last_written_for=owner))
            elif expect_hit and out[2]:
                res.fail("unchanged-code-recomputed:" + tag, ctx, dict(version=mine))
            if prev_check is not None and prev_check[:2] == (op["o"], op["a"]) and prev_check[2][0] == "flag":
                if prev_check[2][1] != (not out[2]):
                    res.fail("check-call-in-cache-disagrees:" + tag, ctx, dict(check_said=prev_check[2][1], executed=out[2]))
            res.nontrivial.add(json.dumps([case["style"], sorted(seen_versions), sorted(session_sources), len(src), mine, op["a"],
                                           "own" if owner == mine else "other" if owner is not None else "none", out[2], sorted(valid)]))
        if owner != mine:
            owner, valid = mine, set()
        valid.add(op["a"])
        prev_check = None


# ----------------------------------------------------------------------------- generator


def gen_case(rng, idx, thorough, label):
    style = rng.choice(["module", "module", "nested", "main", "main", "lambda"])
    nver = rng.choice([1, 2, 2, 2, 3])
    ops, live = [], []
    nobj = 0
    n = rng.randint(3, 22 if thorough else 16)
    sessions = 1
    while len(ops) < n:
        r = rng.random()
        if not live or (r < 0.22 and len(live) < 4):
            nobj += 1
            # often re-define an already known version (unchanged code), else a new one
            ops.append(dict(op="def", o=nobj, k=rng.randint(1, nver)))
            live.append(nobj)
        elif r < 0.72:
            o = rng.choice(live)
            a = rng.choice([0, 0, 1, 2])
            if rng.random() < 0.15:
                ops.append(dict(op="check", o=o, a=a))
            ops.append(dict(op="call", o=o, a=a))
        elif r < 0.78 and len(live) > 1 and style != "lambda":
            o, p = rng.sample(live, 2)
            ops.append(dict(op="swap", o=o, p=p))
        elif r < 0.83:
            ops.append(dict(op="clearfn", o=rng.choice(live)))
        elif r < 0.86:
            ops.append(dict(op="clearall"))
        elif r < 0.97 and sessions < 3 and len(ops) > 1:
            ops.append(dict(op="fresh"))
            live = []
            sessions += 1
    while ops and ops[-1]["op"] in ("fresh", "def"):
        ops.pop()
    return dict(label=f"{label}{idx}", style=style, ops=ops)


def corpus_cases():
    D, C, K = (lambda o, k: dict(op="def", o=o, k=k)), (lambda o, a: dict(op="call", o=o, a=a)), (lambda o, a: dict(op="check", o=o, a=a))
    F = dict(op="fresh")
    out = []
    for style in STYLES:
        # F10: v1 cached, v2 defined under the same name and cached, then old / new / old
        out.append(dict(label="corpus-f10-" + style, style=style, ops=[D(1, 1), D(2, 2), C(1, 1), C(2, 1), C(1, 1), C(2, 1), C(1, 1)]))
        # F10 through check_call_in_cache
        out.append(dict(label="corpus-f10-check-" + style, style=style, ops=[D(1, 1), D(2, 2), C(1, 1), K(2, 1), C(2, 1), C(1, 1), C(2, 1)]))
        # edited between sessions, and back; unchanged code keeps its cache across sessions
        out.append(dict(label="corpus-sessions-" + style, style=style,
                        ops=[D(1, 1), C(1, 0), C(1, 1), F, D(2, 1), C(2, 0), C(2, 2), F, D(3, 2), C(3, 0), F, D(4, 1), C(4, 0), C(4, 0)]))
    out.append(dict(label="corpus-swap", style="module", ops=[D(1, 1), D(2, 2), C(1, 0), dict(op="swap", o=1, p=2), C(1, 0), C(2, 0), C(1, 0),
                                                              dict(op="clearfn", o=2), C(1, 0), dict(op="clearall"), C(2, 0), C(1, 0)]))
    return out


# ----------------------------------------------------------------------------- exploration

_VER = {}


def impl_version(scratch):
    """'fixed' when the tree under test keeps c1 returning v1 on the F10 history, 'old' otherwise (probed once)."""
    key = str(core.REPO)
    if key not in _VER:
        c = dict(label="probe", style="module", ops=[dict(op="def", o=1, k=1), dict(op="def", o=2, k=2), dict(op="call", o=1, a=1),
                                                     dict(op="call", o=2, a=1), dict(op="call", o=1, a=1)])
        d = os.path.join(str(scratch), "f10-probe")
        recs = run_case(c, d)
        shutil.rmtree(d, ignore_errors=True)
        _VER[key] = "fixed" if recs[-1][:2] == ["val", ["v1", 1]] else "old"
    return _VER[key]


def run_one(case, workdir, driver, res, ver):
    recs = run_case(case, workdir)
    lines = model_lines(case, ver)
    replies = driver.run(lines)
    for j, (op, out, rep) in enumerate(zip(case["ops"], recs, replies[1:])):
        res.evaluations += 1
        res.traces_validated += 1
        res.count("op=" + op["op"])
        if rep == "bad-op":
            raise core.InfraError(f"driver rejected {lines[j + 1]!r}")
        m = canon_model(rep)
        if m != out:
            res.diverge("step", dict(case=case, step=j, op=op, model_version=ver), out, m)
    judge(case, recs, res)
    res.count("style=" + case["style"])
    res.count("sessions=%d" % len(sessions_of(case)))
    shutil.rmtree(workdir, ignore_errors=True)


def _worker(job):
    seed, tier, scratch, salt, start, count, ver = job
    core.use_repo()
    res = Result()
    driver = core.Driver("C12")
    for idx in range(start, start + count):
        rng = random.Random(f"C12/{seed}/{salt}/{idx}")
        case = gen_case(rng, idx, tier == "thorough", salt)
        run_one(case, os.path.join(scratch, f"{salt}{idx}"), driver, res, ver)
        if idx < start + 1:
            res.sample(case)
    return res


def explore(ctx, n_cases, salt, with_corpus=True):
    from .. import memcache

    core.use_repo()
    res = Result()
    res.rule = RULE
    ver = impl_version(ctx.scratch)
    res.extra["implementation_shortcut"] = ("checks the writer of func_code.py (F10 repaired)" if ver == "fixed"
                                            else "_FUNCTION_HASHES only (pinned code)")
    driver = ctx.driver()
    if with_corpus:
        for c in corpus_cases():
            run_one(c, os.path.join(str(ctx.scratch), c["label"]), driver, res, ver)
            res.count("corpus-cases")
    workers = min(16, os.cpu_count() or 1)
    per = max(1, (n_cases + workers * 3 - 1) // (workers * 3))
    jobs = [(ctx.seed, ctx.tier, str(ctx.scratch), salt, s, min(per, n_cases - s), ver) for s in range(0, n_cases, per)]
    with concurrent.futures.ProcessPoolExecutor(max_workers=workers) as ex:
        for part in ex.map(_worker, jobs):
            memcache.merge(res, part)
    bad = ["", "call 1", "def 1 1", "def 1 1 2", "reset", "reset new", "swap 1", "call x 1", "fresh now"]
    replies = driver.run(["reset fixed"] + bad)
    for b, rep in zip(bad, replies[1:]):
        if rep != "bad-op":
            res.diverge("malformed-request", b, "bad-op", rep)
    first = driver.run(["call 1 1"])
    if first != ["bad-op"]:
        res.diverge("malformed-request", "call before reset", "bad-op", first)
    res.count("malformed-requests", len(bad) + 1)
    res.assumptions = ["sessions are sequential", "a source text determines the function's behaviour (no closures over differing values)"]
    return res


def run(ctx):
    if ctx.replay:
        core.use_repo()
        res = Result()
        res.rule = RULE
        case = (ctx.replay.get("case") or {}).get("case")
        if not case:
            raise core.InfraError("replay file has no history")
        run_one(case, os.path.join(str(ctx.scratch), "replay"), ctx.driver(), res, impl_version(ctx.scratch))
        return res
    return explore(ctx, 2500 if ctx.thorough else 450, "main")


def search(ctx, res):
    return explore(ctx, 3000, "search", with_corpus=False)
