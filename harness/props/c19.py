"""C19 — numpy arrays persist bit-exactly and memory-map faithfully.

Model: lean/JoblibModel/ArrayFormat.lean (+ Generated/Tables.lean: NUMPY_ARRAY_ALIGNMENT_BYTES, BUFFER_SIZE,
regenerated every run); theorems: lean/JoblibProofs/C19.lean; driver: lean/Driver/C19.lean.

The repo's interpreter (/venv/bin/python) has no numpy, so the implementation side runs in SUBPROCESSES under
`python3-vt` (3.11.7, numpy 2.4.6) with PYTHONPATH=$VERIF_REPO: harness/c19_worker.py. The parts run concurrently:
  dump<i>of<n> : arrays from the dtype x shape x layout generator, alone and nested in containers, dumped by the
                 real code under every compressor / protocols 0-5 / path, file object, BytesIO; the file is parsed
                 by an independent reader (wrapper pickle end, pad byte, pad run, data start, length) and compared
                 with the model (`layout`, `read`, `chunks`, `order`, `count`, `mmap`); loaded arrays (plain, renamed
                 file, ensure_native_byte_order auto/False, mmap_mode r/r+/c/w+) judged by dtype/shape/flags/tobytes
  views        : memmap-backed views through `_reduce_memmap_backed` (model: `reduce`), rebuilt in an isolated
                 process each (a wrong offset can SIGSEGV) and compared with the original
  parallel<i>  : `Parallel(n_jobs=2, max_nbytes=…, mmap_mode=…)` with thresholds just below / at / above the array size,
                 None, 0, '1K'-style strings and the default; loky, multiprocessing and threading; numeric, plain-object
                 and structured / sub-array dtypes holding objects: the values seen inside the tasks (never an
                 exception); which arrays travel as memmaps (model: `forward`)
  histories    : call HISTORIES on one Parallel object (managed `with Parallel(...)` / unmanaged, loky / multiprocessing /
                 threading): array objects reused unchanged, mutated in place, rebound to equal copies, dropped and
                 replaced (id() reuse), kept views of a mutated base, fresh views, caller memmaps, arrays below the
                 threshold, object arrays, random histories; oracle: every task sees the values its argument has at
                 dispatch time (F57, known: the same object mutated in place between calls of a managed Parallel);
                 model: `history` (the identity-keyed temporary dumps, `runHistory`). Also the forced "lagging
                 resource tracker" schedule (F60, known: the temporary dump vanishes before the worker loads it in a
                 repeated call of an unmanaged Parallel); 2 cases quick, 6 thorough; VERIF_C19_VANISH=0 switches it off.
  modes        : `Parallel(mmap_mode=…)` for every documented value {None, r, r+, w+, c} x max_nbytes {None, small} x
                 loky / multiprocessing: values, what a task's write does (numpy.memmap semantics), what the caller
                 sees afterwards; model `forward` with `mmap_mode is None` (F58, fixed in /repo by 2220b4d;
                 VERIF_C19_F58=0 skips the (None, small) cases, for a tree without the repair)
  threads      : two threads inside joblib.load / joblib.dump at once, the overlap FORCED by parking thread A after the
                 k-th return from any read/readinto/write/(de)compress below the call while thread B runs a whole
                 load/dump (every k, every compressor); oracle: each gets / writes its own array
  dump<i>      : also `joblib.load(<open file object>, mmap_mode=…)` after the path of the object was replaced by a new
                 version or renamed away: the contents of the file the OBJECT designates
This module only pipes the requests to the Lean driver, diffs, and folds the counters.
"""

from __future__ import annotations

import concurrent.futures
import json
import os
import subprocess
from pathlib import Path

from .. import core, gen_tables
from ..core import Result

REQUIRED_THEOREMS = [
    "C19.table_alignment",
    "C19.padding_aligns",
    "C19.padding_aligns_16",
    "C19.chunked_read_covers_exactly",
    "C19.max_read_count_pos",
    "C19.read_inverts_write_partial",
    "C19.itemsize_zero_counterexample",
    "C19.short_data_is_an_error",
    "C19.mmap_offset_is_data_start",
    "C19.mmap_pointer_aligned",
    "C19.order_choice",
    "C19.object_arrays_are_never_memmapped",
    "C19.forward_decision",
    "C19.mmap_mode_none_disables_memmapping",
    "C19.prefix_mmap_mode_none_counterexample",
    "C19.history_stale_counterexample",
    "C19.history_faithful_partial",
    "C19.fresh_context_is_faithful",
    "C19.new_object_is_faithful",
    "C19.reduce_offset",
    "C19.reduce_strided_faithful",
    "C19.reduce_contiguous_faithful",
    "C19.total_buffer_len_covers",
    "C19.prefix_negative_stride_counterexample",
    "C19.prefix_transposed_counterexample",
    "C19.prefix_total_buffer_len_floor_counterexample",
    "C19.prefix_witnesses_repaired",
]
TRUSTED_EXTRA = [
    "runs under python3-vt (CPython 3.11.7, numpy 2.4.6), not the repo's pinned 3.12.1 (which has no numpy)",
    "numpy is a parameter of the model (modelled, not verified): nditer order, tobytes, frombuffer, memmap (maps from "
    "offset - offset % ALLOCATIONGRANULARITY), as_strided, .flags, byte_bounds; the model takes the element bytes in "
    "the chosen order and the flags as inputs",
    "the independent file reader (harness/c19_worker.py OracleUnpickler: CPython's pickle._Unpickler + the documented "
    "payload format) and CPython's zlib/gzip/bz2/lzma decoders are trusted",
    "interpretation fixed in DESIGN 6/C19: with ensure_native_byte_order in effect (default 'auto', no mmap) dtype identical "
    "up to byte order and identical values; strictly identical dtype/bytes with ensure_native_byte_order=False and for "
    "mmap loads; identity of an array referenced twice in a container is NOT demanded (joblib writes it twice)",
    "threads of one process are scheduled by the harness through sys.setprofile (CPython delivers the c_return/return event "
    "in the running thread before it continues): modelled-not-verified; thread interleavings are not in the Lean model",
    "F57 (known): the temporary dump of an argument is keyed by the identity of the array object and written once per "
    "temp folder (C19.history_stale_counterexample / history_faithful_partial); F58: the Lean model has the repaired "
    "`mmap_mode is not None` condition (fixed in /repo by 2220b4d); F60 (known): the forced lagging-resource-tracker "
    "schedule stops and continues loky's resource tracker with SIGSTOP/SIGCONT (modelled-not-verified, not in the Lean model)",
    "known findings F16 and F27 (see known_findings.json) are reproduced on every run (F27: read_inverts_write_partial / "
    "itemsize_zero_counterexample); F24-F26 are fixed in /repo (b514cf6, 5cddabe): the model is the repaired code, the "
    "witnesses against the pre-fix code are the C19.prefix_* theorems over the …PreFix definitions; on a tree without the "
    "fixes the check reports them (oracle signatures worker-view:*)",
]

WORKER = Path(__file__).resolve().parent.parent / "c19_worker.py"
N_DUMP_SHARDS = 8
N_PAR_SHARDS = 6


def _run_part(ctx, part, replay_path=None):
    env = dict(os.environ)
    env["PYTHONPATH"] = str(core.REPO)
    env["JOBLIB_MULTIPROCESSING"] = "1"
    env.pop("PYTHONHASHSEED", None)
    scratch = ctx.scratch / ("c19-" + part)
    scratch.mkdir(parents=True, exist_ok=True)
    cmd = [core.PY_NUMPY, str(WORKER), "run", str(scratch), str(ctx.seed), ctx.tier, part]
    if replay_path:
        cmd.append(str(replay_path))
    p = subprocess.run(cmd, env=env, capture_output=True, text=True, timeout=3000 if ctx.thorough else 900)
    recs = []
    for ln in p.stdout.splitlines():
        if ln.startswith("{"):
            try:
                recs.append(json.loads(ln))
            except ValueError:
                pass
    if p.returncode != 0 or not recs or recs[-1].get("k") != "done":
        raise core.InfraError(f"c19 worker part {part} failed (rc={p.returncode}): {p.stderr[-800:]}")
    return part, recs


def _fold(ctx, res, all_recs):
    reqs, pend = [], []
    for part, recs in all_recs:
        for r in recs:
            k = r["k"]
            if k == "corr":
                reqs.append(r["req"])
                pend.append(r)
            elif k == "fail":
                res.fail(r["sig"], r["case"], r["detail"])
            elif k == "stats":
                res.evaluations += r["evaluations"]
                res.nontrivial |= set(r["nontrivial"])
                for kk, v in r["dist"].items():
                    res.count(kk, v)
                for s in r["samples"]:
                    res.sample(s)
    replies = ctx.driver().run(reqs) if reqs else []
    for r, rep in zip(pend, replies):
        res.traces_validated += 1
        res.count("stream=" + r["stream"])
        if rep == "bad-op":
            raise core.InfraError(f"driver rejected {r['req'][:200]}")
        if rep != r["impl"]:
            res.diverge(r["stream"], r["case"], r["impl"], rep)


RULE = ("dump/load: one evaluation = one (array spec, nesting, compress argument, protocol, target) dumped by the real code, "
        "parsed independently and loaded every way; distinct by that tuple (array spec = dtype x shape x layout x seed; "
        "all are non-trivial: they contain at least one array); worker views: distinct (memmap dtype/shape/order/offset, "
        "view expression); parallel: distinct (array spec, backend, max_nbytes); histories: distinct (steps, backend, managed) — "
        "all contain at least one call with an array; modes: distinct (backend, mmap_mode, max_nbytes); threads: distinct "
        "(compressor, operation pair, arrays, target), each evaluated at every forced overlap point")


def _tables_check(ctx, res, tables):
    rep = ctx.driver().run(["tables"])[0]
    want = f"tables align={tables['numpyArrayAlignmentBytes']} buffer={tables['bufferSize']} pad=255"
    res.traces_validated += 1
    if rep != want:
        res.diverge("generated-tables", dict(kind="tables"), want, rep)


def _explore(ctx, parts):
    res = Result()
    res.rule = RULE
    tables = gen_tables.ensure(res, "C19", REQUIRED_THEOREMS)
    _tables_check(ctx, res, tables)
    with concurrent.futures.ThreadPoolExecutor(max_workers=len(parts)) as ex:
        all_recs = list(ex.map(lambda p: _run_part(ctx, p), parts))
    _fold(ctx, res, all_recs)
    res.assumptions = ["numpy 2.4.6 / CPython 3.11.7 (python3-vt)", "little-endian host", "uncompressed files on a local file system for mmap loads"]
    return res


def _parts():
    return ([f"dump{i}of{N_DUMP_SHARDS}" for i in range(N_DUMP_SHARDS)] + ["views"]
            + [f"parallel{i}of{N_PAR_SHARDS}" for i in range(N_PAR_SHARDS)] + ["histories", "modes", "threads"])


def prepare(ctx):
    """Called by core.run_check before the proof audit (regenerated constants: alignment, buffer size)."""
    gen_tables.regenerate()


def run(ctx):
    if ctx.replay:
        res = Result()
        res.rule = RULE
        tables = gen_tables.ensure(res, "C19", REQUIRED_THEOREMS)
        _tables_check(ctx, res, tables)
        rp = ctx.scratch / "replay.json"
        rp.write_text(json.dumps(ctx.replay))
        _fold(ctx, res, [_run_part(ctx, "replay", rp)])
        return res
    return _explore(ctx, _parts())


def search(ctx, res):
    big = core.Ctx(prop=ctx.prop, tier="thorough", seed=ctx.seed + 1000, scratch=ctx.scratch / "search")
    big.scratch.mkdir(parents=True, exist_ok=True)
    return _explore(big, _parts())
