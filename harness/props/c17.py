"""C17 — parallel_config settings are scoped, thread-local and correctly prioritised.

Model: lean/JoblibModel/Config.lean; theorems: lean/JoblibProofs/C17.lean; driver: Driver/C17.lean.

Implementation side: PROGRAMS — trees of nested `with parallel_config(...)` / `with parallel_backend(...)`
blocks (depth <= 4, each setting a subset of the 8 keys, left by return or by exception, exceptions
caught at some level or not at all) — are run on the real joblib by 1..3 threads that are interleaved
at block boundaries and program points by an explicit hand-off (one threading.Event per thread: only
one thread runs at any time, the order of turns is an input).  At program points the thread constructs
`Parallel(...)` with random explicit arguments / calls `get_active_backend(...)`; after every step its
`_backend.config` is read.  Everything observed is compared with the Lean model (step machine `gstep`
for the interleaved run, big-step `run` for each thread's program) and judged by an oracle that does
not use the model: a direct re-computation of "explicit > innermost > outer > default", "state after
a block is the state before", "my configuration only changes by my own steps".

General programs (stream `unbalanced`, and the corpus): besides `with` blocks a thread makes context objects by a PLAIN CALL
(`cm_k = parallel_config(...)` / `parallel_backend(...)`, never entered), calls `cm_k.unregister()` on any object it has made
so far (any order, twice, never; also on the object of a `with` block, inside or after the block), raises inside all of that, and
STARTS THREADS (plain `threading.Thread`, a thread whose target runs in `contextvars.copy_context()`, `asyncio.to_thread`) that run
a program of their own.  Every step is a request to the model's step machine (`create` / `unreg k` / `spawn u kind`), the
configuration is compared after every step, and the whole program of every thread is compared with the big-step `xrun`.
The oracle for these: after the `with` block of object k exits, and after `cm_k.unregister()`, the configuration is - value by
value, by identity - the one read just before k was made; a started thread reads the defaults.
"""

import asyncio
import contextlib
import contextvars
import io
import itertools
import json
import threading
import warnings

from .. import core
from ..core import Result

REQUIRED_THEOREMS = [
    "C17.exit_restores",
    "C17.exit_restores_block",
    "C17.run_ops",
    "C17.thread_frame",
    "C17.thread_noninterference",
    "C17.reachable_cfg",
    "C17.precedence",
    "C17.precedence_parallel",
    "C17.precedence_n_jobs_partial",
    "C17.n_jobs_when_context_backend_replaced",
    "C17.explicit_n_jobs_wins",
    "C17.precedence_backend",
    "C17.sharedmem_is_threads",
    "C17.sharedmem_is_threads_active",
    "C17.prefer_is_hint",
    "C17.sharedmem_unrepaired_counterexample",
    "C17.n_jobs_unrepaired_counterexample",
    "C17.n_jobs_fallback_counterexample",
    "C17.xrun_ops",
    "C17.exit_restores_whatever_the_body_left",
    "C17.unreg_exact",
    "C17.unregister_is_restore",
    "C17.unregister_out_of_order",
    "C17.balanced_program_restores",
    "C17.new_thread_starts_from_defaults",
    "C17.other_threads_unaffected",
    "C17.gab_agrees_with_parallel",
    "C17.guarded_unregister_counterexample",
    "C17.context_var_counterexample",
    "C17.gab_literal_defaults_counterexample",
]
TRUSTED_EXTRA = [
    "modelled, not verified: threading.local gives every thread its own attribute namespace (the model's Global is a "
    "function from thread ids to states); the `with` statement calls __exit__ exactly once, LIFO, for normal and "
    "exceptional exit; a started thread (threading.Thread, a thread running in contextvars.copy_context(), asyncio.to_thread) "
    "has an empty threading.local namespace",
    "outside the model (never generated): a context object made by one thread and unregistered by another",
    "the model is the code WITH fixes/F21-*.diff and fixes/F22-*.diff applied; on a tree without them the check reports "
    "the two defects (oracle signatures sharedmem:* and n_jobs:context-value-dropped-*)",
    "outside the model (never generated): multiprocessing disabled (mp is None), the dask backend, multiprocessing "
    "context objects as backend, inner_max_num_threads / **backend_params, third-party backend classes, a key's "
    "sentinel passed for another key, one backend instance shared by two uses, non-integer verbose, "
    "max_nbytes strings with a non-integer mantissa, n_jobs strings other than canonical decimal literals",
]

KEYS = ["backend", "n_jobs", "verbose", "temp_folder", "max_nbytes", "mmap_mode", "prefer", "require"]
CLS_LETTER = {"SequentialBackend": "S", "ThreadingBackend": "T", "MultiprocessingBackend": "M", "LokyBackend": "L"}
LETTER_NAME = {"S": "sequential", "T": "threading", "M": "multiprocessing", "L": "loky"}
LETTER_CLS = {v: k for k, v in CLS_LETTER.items()}
SHAREDMEM = {"S", "T"}
USES_THREADS = {"S", "T"}


class Boom(Exception):
    pass


# ----------------------------------------------------------------------------- values


def _inst(letter, level):
    return {"inst": letter, "level": level}


def mat(jp, v):
    """Materialise a JSON value of a case: backend instances are built fresh for every use."""
    if isinstance(v, dict):
        cls = getattr(jp, LETTER_CLS[v["inst"]])
        return cls(nesting_level=v["level"])
    return v


def tok(v):
    if v is None:
        return "N"
    if isinstance(v, dict):
        return "b" + v["inst"] + ("N" if v["level"] is None else str(v["level"]))
    if isinstance(v, bool):
        raise core.InfraError("bool value in a case")
    if isinstance(v, int):
        return "i%d" % v
    if isinstance(v, str):
        if " " in v or "\n" in v:
            raise core.InfraError("blank in a string value")
        return "s" + v
    raise core.InfraError(f"value {v!r}")


def slots(d):
    return [tok(d[k]) if k in d else "_" for k in KEYS]


def tok_live(jp, v, key):
    """Canonical token of a live value found in `_backend.config` / on a Parallel object."""
    if v is jp.default_parallel_config[key]:
        return "_"
    if v is None:
        return "N"
    if isinstance(v, jp.ParallelBackendBase):
        return "b" + CLS_LETTER.get(type(v).__name__, "?") + ("N" if v.nesting_level is None else str(v.nesting_level))
    if isinstance(v, bool):
        return "?bool"
    if isinstance(v, int):
        return "i%d" % v
    if isinstance(v, str):
        return "s" + v
    return "?" + type(v).__name__


VALS = {
    "n_jobs": [1, 2, 3, 4, -1, -2, 0, 8, None],
    "verbose": [0, 5, 9, 10, 11, 49, 50, 51, 60, 100, -1],
    "temp_folder": [None, "/tmp/a", "/tmp/b", "/dev/shm/x"],
    "max_nbytes": [None, 0, 1000, 123456, "1M", "10K", "2G", "0K", "7M"],
    "mmap_mode": ["r", "r+", "w+", "c", None],
    "prefer": ["threads", "processes", None],
    "require": ["sharedmem", None, "sharedmem"],
}
BAD = {
    "n_jobs": ["3", "abc", "2.5", ""],
    "prefer": ["bogus", "thread", 3],
    "require": ["bogus", "shared", 0],
    "max_nbytes": ["10", "K", "abcM", "5X", "M"],
}


def gen_backend(rng, malformed):
    if malformed and rng.random() < 0.5:
        return rng.choice(["bogus", "LOKY", None, 3])
    r = rng.random()
    if r < 0.55:
        return rng.choice(["threading", "loky", "multiprocessing", "sequential", "loky", "threading"])
    return _inst(rng.choice("STML"), rng.choice([None, None, 0, 1, 2, 3]))


def gen_args(rng, malformed=False, explicit=False):
    """A subset of the 8 keys with values. `explicit`: arguments of Parallel (backend may be None = unset)."""
    r = rng.random()
    if r < 0.15:
        ks = []
    elif r < 0.55:
        ks = rng.sample(KEYS, 1)
    elif r < 0.8:
        ks = rng.sample(KEYS, 2)
    elif r < 0.95:
        ks = rng.sample(KEYS, rng.randint(3, 5))
    else:
        ks = list(KEYS)
    d = {}
    for k in KEYS:
        if k not in ks:
            continue
        if k == "backend":
            if explicit and rng.random() < 0.15:
                d[k] = None
            else:
                d[k] = gen_backend(rng, malformed and rng.random() < 0.3)
        elif malformed and k in BAD and rng.random() < 0.3:
            d[k] = rng.choice(BAD[k])
        else:
            d[k] = rng.choice(VALS[k])
    return d


SPAWN_KINDS = ["plain", "copied", "to_thread"]


def gen_ctx_args(rng, malformed):
    if rng.random() < 0.3:
        a = {"backend": gen_backend(rng, malformed and rng.random() < 0.2)}
        if rng.random() < 0.5:
            a["n_jobs"] = rng.choice(VALS["n_jobs"])
        return "backend", a
    return "config", gen_args(rng, malformed)


def gen_stmts(rng, depth, maxd, malformed, in_try, ext=False, spawn_depth=0):
    n = rng.choice([1, 1, 2, 2, 3] if not ext else [1, 2, 2, 3, 3, 4])
    out = []
    for _ in range(n):
        r = rng.random()
        if ext and rng.random() < 0.45:
            # general programs: objects made by a plain call, unregister() by hand, started threads
            q = rng.random()
            if q < 0.42:
                kind, a = gen_ctx_args(rng, malformed)
                out.append({"op": "create", "kind": kind, "a": a})
            elif q < 0.84:
                out.append({"op": "unreg", "k": rng.randrange(64)})
            elif spawn_depth < 2:
                out.append({"op": "spawn", "kind": rng.choice(SPAWN_KINDS),
                            "body": gen_stmts(rng, 0, min(maxd, 2), malformed, False, ext, spawn_depth + 1)})
            else:
                out.append({"op": "par", "e": gen_args(rng, malformed, explicit=True)})
            continue
        if depth < maxd and r < 0.45:
            if rng.random() < 0.2:
                a = {"backend": gen_backend(rng, malformed and rng.random() < 0.2)}
                if rng.random() < 0.5:
                    a["n_jobs"] = rng.choice(VALS["n_jobs"])
                kind = "backend"
            else:
                a = gen_args(rng, malformed)
                kind = "config"
            out.append({"op": "block", "kind": kind, "a": a, "body": gen_stmts(rng, depth + 1, maxd, malformed, in_try, ext, spawn_depth)})
        elif r < 0.78:
            out.append({"op": "par", "e": gen_args(rng, malformed, explicit=True)})
        elif r < 0.88:
            a = {}
            for k in ("prefer", "require", "verbose"):
                if rng.random() < 0.3:
                    a[k] = rng.choice(BAD[k]) if (malformed and k in BAD and rng.random() < 0.3) else rng.choice(VALS[k])
            out.append({"op": "gab", "a": a})
        else:
            out.append({"op": "try", "body": gen_stmts(rng, depth, maxd, malformed, True, ext, spawn_depth)})
    if rng.random() < (0.3 if in_try or depth > 0 else 0.08):
        out.append({"op": "raise"})
    return out


def gen_case(rng, malformed=False, maxd=4, ext=False):
    nthreads = rng.choice([1, 1, 2, 2, 3])
    return {
        "default": rng.choice("LLLLLTSM"),
        "threads": [gen_stmts(rng, 0, maxd if not ext else 3, malformed, False, ext) for _ in range(nthreads)],
        "sched_seed": rng.randrange(1 << 30),
    }


def backend_block_args(a):
    d = {"backend": a["backend"]}
    d["n_jobs"] = a["n_jobs"] if "n_jobs" in a else -1
    return d


def enc_prog(stmts):
    if not stmts:
        return ["D"]
    st, rest = stmts[0], stmts[1:]
    if st["op"] == "par":
        return ["P"] + slots(st["e"]) + enc_prog(rest)
    if st["op"] == "gab":
        a = st["a"]
        return ["G"] + [tok(a[k]) if k in a else "_" for k in ("prefer", "require", "verbose")] + enc_prog(rest)
    if st["op"] == "block":
        a = backend_block_args(st["a"]) if st["kind"] == "backend" else st["a"]
        return ["B"] + slots(a) + enc_prog(st["body"]) + enc_prog(rest)
    if st["op"] == "raise":
        return ["R"]
    if st["op"] == "try":
        return ["T"] + enc_prog(st["body"]) + enc_prog(rest)
    raise core.InfraError(f"statement {st!r}")


def is_tree(stmts):
    """Only `with` blocks (the programs of the tree semantics `run`)."""
    for st in stmts:
        if st["op"] in ("create", "unreg", "spawn"):
            return False
        if st["op"] in ("block", "try") and not is_tree(st["body"]):
            return False
    return True


def enc_xprog(stmts, resolved):
    """General program of ONE thread for the big-step `xrun`.  `unreg` names the object by the index the run resolved it to
    (`resolved`: id(statement) -> index, or None when the thread had made no object yet: then the statement is no step at all);
    a statement the run never reached is encoded with index 0 (it is not reached in the model either).  Starting a thread is
    not a step that changes the starter: it is left out here (the started thread's program is compared on its own)."""
    if not stmts:
        return ["D"]
    st, rest = stmts[0], stmts[1:]
    op = st["op"]
    if op == "par":
        return ["P"] + slots(st["e"]) + enc_xprog(rest, resolved)
    if op == "gab":
        a = st["a"]
        return ["G"] + [tok(a[k]) if k in a else "_" for k in ("prefer", "require", "verbose")] + enc_xprog(rest, resolved)
    if op in ("block", "create"):
        a = backend_block_args(st["a"]) if st["kind"] == "backend" else st["a"]
        if op == "block":
            return ["B"] + slots(a) + enc_xprog(st["body"], resolved) + enc_xprog(rest, resolved)
        return ["C"] + slots(a) + enc_xprog(rest, resolved)
    if op == "unreg":
        idx = resolved.get(id(st), 0)
        if idx is None:
            return enc_xprog(rest, resolved)
        return ["U", str(idx)] + enc_xprog(rest, resolved)
    if op == "spawn":
        return enc_xprog(rest, resolved)
    if op == "raise":
        return ["R"]
    if op == "try":
        return ["T"] + enc_xprog(st["body"], resolved) + enc_xprog(rest, resolved)
    raise core.InfraError(f"statement {st!r}")


def depth_of(stmts):
    d = 0
    for st in stmts:
        if st["op"] == "block":
            d = max(d, 1 + depth_of(st["body"]))
        elif st["op"] in ("try", "spawn"):
            d = max(d, depth_of(st["body"]))
    return d


def count_ops(stmts):
    n = 0
    for st in stmts:
        if st["op"] in ("par", "gab"):
            n += 1
        elif st["op"] == "block":
            n += 2 + count_ops(st["body"])
        elif st["op"] in ("create", "unreg"):
            n += 1
        elif st["op"] == "spawn":
            n += 1 + count_ops(st["body"])
        elif st["op"] == "try":
            n += count_ops(st["body"])
    return n


def count_kind(stmts, kinds):
    n = 0
    for st in stmts:
        if st["op"] in kinds:
            n += 1
        if "body" in st:
            n += count_kind(st["body"], kinds)
    return n


# ----------------------------------------------------------------------------- deterministic hand-off


class Sched:
    """Turn-based hand-off: exactly one thread runs between two `sync` calls."""

    def __init__(self, n):
        self.go = [threading.Event() for _ in range(n)]
        self.back = threading.Event()
        self.done = [False] * n
        self.error = None

    def sync(self, tid):
        self.back.set()
        if not self.go[tid].wait(60):
            raise core.InfraError("hand-off timeout in worker")
        self.go[tid].clear()

    def turn(self, tid):
        self.back.clear()
        self.go[tid].set()
        if not self.back.wait(60):
            raise core.InfraError("hand-off timeout in scheduler")


# ----------------------------------------------------------------------------- oracle helpers (no model)


def memstr(s):
    units = dict(K=1024, M=1024**2, G=1024**3)
    return units[s[-1]] * int(s[:-1])


def letter_of_backend_value(v):
    """Class letter a `backend=` value names, or None when it names none / is malformed."""
    if isinstance(v, dict):
        return v["inst"]
    if isinstance(v, str):
        return {"threading": "T", "loky": "L", "multiprocessing": "M", "sequential": "S"}.get(v)
    return None


class ThreadOracle:
    """Per-thread book-keeping of the oracle (no model): the settings in force, as the program wrote them (`cur`), and for every
    context object the thread has made - `with` block or plain call - the settings in force just before (`snaps`) and the very
    values the configuration held then (`raws`, compared by identity).  Making an object puts its arguments on top of `cur`;
    its `__exit__` / `unregister()` puts `snaps[k]` back, whatever happened in between."""

    def __init__(self):
        self.cur = {}
        self.objs = []
        self.snaps = []
        self.raws = []
        self.args = []

    def innermost(self, k):
        return (k in self.cur), self.cur.get(k)

    @property
    def stack(self):  # for the reports
        return [dict(self.cur)]

    def made(self, cm, eff, raw_before):
        self.objs.append(cm)
        self.snaps.append(dict(self.cur))
        self.raws.append(raw_before)
        self.args.append(eff)
        self.cur = dict(self.cur, **eff)
        return len(self.objs) - 1

    def unregistered(self, k):
        self.cur = dict(self.snaps[k])


# ----------------------------------------------------------------------------- running a case on the implementation


def run_case(jp, case, res, desc_extra=None):
    """Runs the case; returns (requests, expected replies from the implementation, per-thread summaries)."""
    nthreads = len(case["threads"])
    import random

    sched_rng = random.Random(case["sched_seed"])
    sched = Sched(nthreads)
    log = []  # (request line, impl reply) in global order
    defaults = {k: jp.default_parallel_config[k].default_value for k in KEYS}
    dflt_letter = case["default"]
    per_thread = {t: dict(letters=[], raised=False, final=None, prog=case["threads"][t]) for t in range(nthreads)}
    oracles = {t: ThreadOracle() for t in range(nthreads)}
    last_seen = {t: None for t in range(nthreads)}  # raw config objects at the end of the thread's previous step
    started_by = {}  # thread id of a started thread -> how it was started
    unreg_idx = {}  # id(unreg statement) -> index of the object it named in this run (None: no object yet, no step)
    next_tid = [nthreads]
    fails = []

    def fail(sig, detail):
        fails.append((sig, detail))

    def cur_cfg():
        """The calling thread's active configuration dict.  Read from joblib's thread-local store when it is where this tree
        keeps it; otherwise through the context-manager object itself (a parallel_config() made with no argument records the
        configuration it found as `old_parallel_config` and restores it on unregister())."""
        st = getattr(jp, "_backend", None)
        if isinstance(st, threading.local):
            return getattr(st, "config", jp.default_parallel_config)
        pc = jp.parallel_config()
        try:
            return pc.old_parallel_config
        finally:
            pc.unregister()

    def raw_cfg():
        c = cur_cfg()
        return tuple(c[k] for k in KEYS)

    def cfg_tokens():
        c = cur_cfg()
        return [tok_live(jp, c[k], k) for k in KEYS]

    def foreign_thread_probe():
        """"other threads never observe them": while THIS thread is inside a block, threads of every kind - a plain
        thread, a thread running in a COPY of this thread's contextvars context, asyncio.to_thread - see the defaults."""
        import asyncio
        import contextvars

        def observe():
            p = jp.Parallel()
            return (type(p._backend).__name__, p.n_jobs, p.verbose)

        base = observe()
        seen = {}
        with jp.parallel_config(backend="threading", n_jobs=3, verbose=7):
            inside = observe()
            t = threading.Thread(target=lambda: seen.__setitem__("plain-thread", observe()))
            t.start(); t.join()
            ctx = contextvars.copy_context()
            t = threading.Thread(target=lambda: seen.__setitem__("thread-in-copied-context", ctx.run(observe)))
            t.start(); t.join()
            seen["asyncio.to_thread"] = asyncio.run(asyncio.to_thread(observe))
        after = observe()
        if inside == base:
            return
        for how, got in seen.items():
            if got != base:
                fail("thread:other-thread-sees-settings-of-the-entering-thread", dict(how=how, got=got, defaults=base, inside=inside))
        if after != base:
            fail("scope:settings-survive-the-block", dict(after=after, defaults=base))

    def gab_probe():
        """The public observation point get_active_backend() with no argument sees what a Parallel() made at the same place
        gets: the context's hints and constraints apply (require='sharedmem' always yields a thread-based backend)."""
        for kw in (dict(backend="loky", n_jobs=4, require="sharedmem"), dict(prefer="threads"), dict(require="sharedmem"),
                   dict(backend="threading", n_jobs=3), dict(prefer="processes", n_jobs=2)):
            try:
                with jp.parallel_config(**kw):
                    b, n = jp.get_active_backend()
                    p = jp.Parallel()
            except Exception:  # noqa: BLE001 - a rejected context is not this probe's business
                continue
            got, want = (type(b).__name__, n), (type(p._backend).__name__, p.n_jobs)
            if kw.get("require") == "sharedmem" and not getattr(b, "supports_sharedmem", False):
                fail("sharedmem:get_active_backend-reports-a-backend-without-shared-memory", dict(context=kw, got=got, parallel_gets=want))
            elif got[0] != want[0] or (n is not None and n != p.n_jobs):
                # (n_jobs None = "not set anywhere": Parallel resolves it to its default, get_active_backend reports None)
                fail("precedence:get_active_backend-disagrees-with-Parallel", dict(context=kw, got=got, parallel_gets=want))

    if case.get("probes"):  # the two hand-written probes of round 4, kept as corpus (one case of the regression stream)
        foreign_thread_probe()
        gab_probe()

    def check_frame(tid):
        """My configuration is what I left it at (no other thread's step changed it)."""
        now = raw_cfg()
        if last_seen[tid] is None:
            if any(v is not jp.default_parallel_config[k] for v, k in zip(now, KEYS)):
                if tid in started_by:
                    fail("thread:other-thread-sees-settings-of-the-entering-thread", dict(tid=tid, how=started_by[tid], cfg=cfg_tokens()))
                else:
                    fail("thread:new-thread-sees-foreign-settings", dict(tid=tid, cfg=cfg_tokens()))
        elif any(a is not b for a, b in zip(now, last_seen[tid])):
            fail("thread:config-changed-by-another-thread", dict(tid=tid, cfg=cfg_tokens()))

    def check_content(tid):
        """_backend.config is: innermost enclosing block that sets the key, else the sentinel."""
        orc = oracles[tid]
        now = raw_cfg()
        for v, k in zip(now, KEYS):
            has, want = orc.innermost(k)
            if not has:
                if v is not jp.default_parallel_config[k]:
                    fail("scope:setting-visible-outside-its-block", dict(tid=tid, key=k, got=tok_live(jp, v, k)))
            elif k == "backend":
                wl = letter_of_backend_value(want)
                if not isinstance(v, jp.ParallelBackendBase) or CLS_LETTER.get(type(v).__name__) != wl:
                    fail("scope:wrong-context-value", dict(tid=tid, key=k, got=tok_live(jp, v, k), want=wl))
            elif v is jp.default_parallel_config[k] or v != want or type(v) is not type(want):
                fail("scope:wrong-context-value", dict(tid=tid, key=k, got=tok_live(jp, v, k), want=want))

    def end_step(tid, with_cfg=True):
        last_seen[tid] = raw_cfg()
        if with_cfg:
            log.append((f"{tid} cfg", "cfg " + " ".join(cfg_tokens())))

    def resolved(orc, explicit, k, none_is_unset=False):
        if k in explicit and not (none_is_unset and explicit[k] is None):
            return explicit[k]
        has, v = orc.innermost(k)
        return v if has else defaults[k]

    def oracle_par(tid, explicit, obs):
        orc = oracles[tid]
        prefer_res = resolved(orc, explicit, "prefer")
        require_res = resolved(orc, explicit, "require")
        verbose_res = resolved(orc, explicit, "verbose")
        has_eb = "backend" in explicit and explicit["backend"] is not None
        has_cb, cb = orc.innermost("backend")
        cb_letter = letter_of_backend_value(cb) if has_cb else None
        eb_letter = letter_of_backend_value(explicit["backend"]) if has_eb else None
        ctx_replaced = (not has_eb) and has_cb and cb_letter not in SHAREDMEM and require_res == "sharedmem"
        # reasons for which construction may legitimately fail
        reasons = []
        if prefer_res not in ("threads", "processes", None):
            reasons.append("prefer")
        if require_res not in ("sharedmem", None):
            reasons.append("require")
        if prefer_res == "processes" and require_res == "sharedmem":
            reasons.append("inconsistent")
        if has_eb and eb_letter is None:
            reasons.append("backend")
        mx = resolved(orc, explicit, "max_nbytes")
        if isinstance(mx, str):
            try:
                mx = memstr(mx)
            except (KeyError, ValueError, IndexError):
                reasons.append("max_nbytes")
        nj_explicit = "n_jobs" in explicit and explicit["n_jobs"] is not None
        nj = resolved(orc, explicit, "n_jobs", none_is_unset=True)
        # joblib's pinned policy: a context backend that cannot share memory is replaced, and with it its n_jobs
        ctx_nj_replaced = (not nj_explicit) and has_cb and cb_letter not in SHAREDMEM and require_res == "sharedmem"
        try:
            nj_lit = 1 if nj is None else int(nj)
        except (ValueError, TypeError):
            nj_lit = None
            if not ctx_nj_replaced:
                reasons.append("n_jobs")
        if has_eb and eb_letter is not None and eb_letter not in SHAREDMEM and require_res == "sharedmem":
            reasons.append("sharedmem")
        if obs["status"] != "ok":
            if not reasons:
                fail("spurious-error:" + obs["status"], dict(tid=tid, explicit=explicit, stack=list(orc.stack)))
            return
        if reasons and reasons != ["sharedmem"]:
            fail("accepted-invalid:" + "+".join(reasons), dict(tid=tid, explicit=explicit, stack=list(orc.stack)))
            return
        detail = dict(tid=tid, explicit=explicit, stack=list(orc.stack), observed=obs)
        # plain keys
        for k, want in (("temp_folder", resolved(orc, explicit, "temp_folder")), ("mmap_mode", resolved(orc, explicit, "mmap_mode")),
                        ("prefer", prefer_res), ("require", require_res), ("max_nbytes", mx), ("verbose", verbose_res)):
            if obs[k] != want or type(obs[k]) is not type(want):
                fail("precedence:" + k, dict(detail, want=want))
        if obs["kw_verbose"] != max(0, verbose_res - 50):
            fail("precedence:backend-verbose", detail)
        # hard constraint
        if require_res == "sharedmem" and obs["cls"] not in SHAREDMEM:
            where = "explicit" if "require" in explicit else "context"
            fail(f"sharedmem:process-backend-under-{where}-constraint", detail)
        # backend
        if has_eb:
            if obs["cls"] != eb_letter:
                fail("backend:explicit-backend-not-used", detail)
        elif has_cb:
            want = "T" if ctx_replaced else cb_letter
            if obs["cls"] != want:
                fail("backend:context-backend-not-used", detail)  # e.g. moved by a mere hint
        else:
            d = dflt_letter
            if require_res == "sharedmem" and d not in SHAREDMEM:
                want = "T"
            elif prefer_res == "threads" and d not in USES_THREADS:
                want = "T"
            elif prefer_res == "processes" and d in USES_THREADS:
                want = "L"
            else:
                want = d
            if obs["cls"] != want:
                fail("backend:default-selection", dict(detail, want=want))
        # n_jobs
        if obs["n_jobs"] != nj_lit:
            if ctx_nj_replaced and obs["n_jobs"] == 1:
                fail("n_jobs:context-value-replaced-when-context-backend-replaced", dict(detail, want=nj_lit))
            elif not nj_explicit and not has_cb and obs["n_jobs"] == 1 and obs["cls"] == "T":
                fail("n_jobs:context-value-dropped-on-thread-fallback-without-context-backend", dict(detail, want=nj_lit))
            else:
                fail("precedence:n_jobs", dict(detail, want=nj_lit))

    def do_par(tid, explicit):
        kwargs = {k: mat(jp, v) for k, v in explicit.items()}
        buf = io.StringIO()
        obs = None
        try:
            with contextlib.redirect_stdout(buf), warnings.catch_warnings():
                warnings.simplefilter("ignore")
                p = jp.Parallel(**kwargs)
        except Exception as e:  # noqa: BLE001
            reply = "raises " + type(e).__name__
            obs = dict(status=type(e).__name__)
        else:
            kw = p._backend_kwargs
            msg = 1 if "as joblib backend instead of" in buf.getvalue() else 0
            b = p._backend
            cl = CLS_LETTER.get(type(b).__name__, "?")
            reply = " ".join(["ok", type(b).__name__, "N" if b.nesting_level is None else str(b.nesting_level), str(p.n_jobs),
                              tok_live(jp, p.verbose, "verbose"), tok_live(jp, kw["max_nbytes"], "max_nbytes"),
                              tok_live(jp, kw["temp_folder"], "temp_folder"), tok_live(jp, kw["mmap_mode"], "mmap_mode"),
                              tok_live(jp, kw["prefer"], "prefer"), tok_live(jp, kw["require"], "require"),
                              str(kw["verbose"]), str(msg)])
            obs = dict(status="ok", cls=cl, level=b.nesting_level, n_jobs=p.n_jobs, verbose=p.verbose, max_nbytes=kw["max_nbytes"],
                       temp_folder=kw["temp_folder"], mmap_mode=kw["mmap_mode"], prefer=kw["prefer"], require=kw["require"],
                       kw_verbose=kw["verbose"])
        log.append((f"{tid} par " + " ".join(slots(explicit)), reply))
        oracle_par(tid, explicit, obs)
        # metamorphic form of "prefer is only a hint": with a chosen backend, changing prefer changes nothing
        orc = oracles[tid]
        chosen = ("backend" in explicit and explicit["backend"] is not None) or orc.innermost("backend")[0]
        if chosen and obs["status"] == "ok":
            for alt in ("threads", "processes", None):
                if explicit.get("prefer", "<unset>") == alt:
                    continue
                kw2 = {k: mat(jp, v) for k, v in explicit.items()}
                kw2["prefer"] = alt
                try:
                    with contextlib.redirect_stdout(io.StringIO()), warnings.catch_warnings():
                        warnings.simplefilter("ignore")
                        p2 = jp.Parallel(**kw2)
                except Exception:  # noqa: BLE001
                    continue
                if (type(p2._backend).__name__, p2.n_jobs) != (type(p._backend).__name__, p.n_jobs):
                    fail("prefer:hint-changed-chosen-backend-or-n_jobs",
                         dict(tid=tid, explicit=explicit, stack=list(orc.stack), prefer=alt,
                              got=(type(p2._backend).__name__, p2.n_jobs), base=(type(p._backend).__name__, p.n_jobs)))

    def do_gab(tid, a):
        kwargs = dict(a)
        try:
            with contextlib.redirect_stdout(io.StringIO()), warnings.catch_warnings():
                warnings.simplefilter("ignore")
                b, n = jp.get_active_backend(**kwargs)
        except Exception as e:  # noqa: BLE001
            reply = "raises " + type(e).__name__
        else:
            reply = " ".join(["ok", type(b).__name__, "N" if b.nesting_level is None else str(b.nesting_level), tok_live(jp, n, "n_jobs")])
            if not a:
                orc = oracles[tid]
                # "get_active_backend() sees what a Parallel() made at the same place gets"
                try:
                    with contextlib.redirect_stdout(io.StringIO()), warnings.catch_warnings():
                        warnings.simplefilter("ignore")
                        p = jp.Parallel()
                except Exception:  # noqa: BLE001 - a context that Parallel rejects is judged at the par steps
                    p = None
                if p is not None:
                    got, want = (type(b).__name__, repr(n)), (type(p._backend).__name__, p.n_jobs)
                    has_r, rq = orc.innermost("require")
                    try:
                        n_ok = n is None or int(n) == p.n_jobs
                    except (TypeError, ValueError):
                        n_ok = False
                    if (rq if has_r else defaults["require"]) == "sharedmem" and not getattr(b, "supports_sharedmem", False):
                        fail("sharedmem:get_active_backend-reports-a-backend-without-shared-memory",
                             dict(tid=tid, context=orc.stack, got=got, parallel_gets=want))
                    elif got[0] != want[0] or not n_ok:
                        # (n_jobs None = "not set anywhere": Parallel resolves it to its default, get_active_backend reports None)
                        fail("precedence:get_active_backend-disagrees-with-Parallel",
                             dict(tid=tid, context=orc.stack, got=got, parallel_gets=want))
                has_cb, cb = orc.innermost("backend")
                has_cr, cr = orc.innermost("require")
                has_cp, cp = orc.innermost("prefer")
                req = cr if has_cr else defaults["require"]
                if req is None and (not has_cp or cp is None):
                    want = letter_of_backend_value(cb) if has_cb else dflt_letter
                    if CLS_LETTER.get(type(b).__name__) != want:
                        fail("active-backend:not-the-innermost-context-backend", dict(tid=tid, stack=list(orc.stack), got=type(b).__name__))
                    has_n, cn = orc.innermost("n_jobs")
                    wn = cn if has_n else defaults["n_jobs"]
                    if n != wn:
                        fail("active-backend:not-the-innermost-context-n_jobs", dict(tid=tid, stack=list(orc.stack), got=repr(n), want=wn))
        log.append((f"{tid} gab " + " ".join(tok(a[k]) if k in a else "_" for k in ("prefer", "require", "verbose")), reply))

    def sync(tid):
        if tid < nthreads:  # a started thread runs while its starter holds the turn
            sched.sync(tid)

    def construct(tid, st, verb):
        """`parallel_config(...)` / `parallel_backend(...)` is called (one step: `enter` for a `with` block, `create` for a plain
        call).  Returns (object, its index for this thread, the raw configuration before)."""
        sync(tid)
        check_frame(tid)
        before = raw_cfg()
        per_thread[tid]["letters"].append("E" if verb == "enter" else "C")
        a = st["a"]
        if st["kind"] == "backend":
            req = f"{tid} {verb}b {tok(a['backend'])} " + (tok(a["n_jobs"]) if "n_jobs" in a else "_")
            eff = backend_block_args(a)
        else:
            req = f"{tid} {verb} " + " ".join(slots(a))
            eff = a
        try:
            with warnings.catch_warnings():
                warnings.simplefilter("ignore")
                if st["kind"] == "backend":
                    kw = {k: mat(jp, v) for k, v in a.items() if k != "backend"}
                    cm = jp.parallel_backend(mat(jp, a["backend"]), **kw)
                else:
                    cm = jp.parallel_config(**{k: mat(jp, v) for k, v in a.items()})
        except Exception as e:  # noqa: BLE001
            log.append((req, "raises " + type(e).__name__))
            if any(x is not y for x, y in zip(raw_cfg(), before)):
                fail("scope:failed-constructor-changed-config", dict(tid=tid, args=a))
            if letter_of_backend_value(a.get("backend", "threading")) is not None:
                fail("spurious-error:context-constructor-" + type(e).__name__, dict(tid=tid, args=a))
            end_step(tid)
            raise
        log.append((req, "ok"))
        k = oracles[tid].made(cm, eff, before)
        check_content(tid)
        end_step(tid)
        return cm, k, before

    def run_started(parent, st):
        """`parent` starts a thread that runs `st["body"]` to its end (the parent keeps the turn and joins it)."""
        u = next_tid[0]
        next_tid[0] += 1
        kind = st["kind"]
        started_by[u] = kind
        per_thread[u] = dict(letters=[], raised=False, final=None, prog=st["body"])
        oracles[u] = ThreadOracle()
        last_seen[u] = None
        log.append((f"{parent} spawn {u} {kind}", "ok"))
        box = []

        def child():
            try:
                check_frame(u)
                end_step(u)
                try:
                    exec_stmts(u, st["body"])
                except core.InfraError:
                    raise
                except Exception:  # noqa: BLE001 - Boom or a constructor's exception ends the thread
                    per_thread[u]["raised"] = True
                per_thread[u]["final"] = cfg_tokens()
            except BaseException as e:  # noqa: BLE001
                box.append(e)

        if kind == "plain":
            th = threading.Thread(target=child, daemon=True)
            th.start(); th.join(120)
        elif kind == "copied":
            cctx = contextvars.copy_context()
            th = threading.Thread(target=lambda: cctx.run(child), daemon=True)
            th.start(); th.join(120)
        elif kind == "to_thread":
            asyncio.run(asyncio.to_thread(child))
        else:
            raise core.InfraError(f"spawn kind {kind!r}")
        if box:
            raise box[0] if isinstance(box[0], core.InfraError) else core.InfraError(f"started thread crashed: {box[0]!r}")
        if per_thread[u]["final"] is None:
            raise core.InfraError("started thread did not finish")

    def exec_stmts(tid, stmts):
        for st in stmts:
            op = st["op"]
            if op == "par":
                sync(tid)
                check_frame(tid)
                per_thread[tid]["letters"].append("P")
                do_par(tid, st["e"])
                end_step(tid, with_cfg=False)
            elif op == "gab":
                sync(tid)
                check_frame(tid)
                per_thread[tid]["letters"].append("G")
                do_gab(tid, st["a"])
                end_step(tid, with_cfg=False)
            elif op == "raise":
                raise Boom()
            elif op == "try":
                try:
                    exec_stmts(tid, st["body"])
                except Boom:
                    pass
                except core.InfraError:
                    raise
                except Exception:  # the constructor of a block raised: also an exception the program catches
                    pass
            elif op == "create":
                construct(tid, st, "create")
            elif op == "unreg":
                orc = oracles[tid]
                if not orc.objs:
                    unreg_idx[id(st)] = None  # nothing to unregister yet: not a step
                    continue
                k = st["k"] % len(orc.objs)
                unreg_idx[id(st)] = k
                sync(tid)
                check_frame(tid)
                per_thread[tid]["letters"].append("U")
                orc.objs[k].unregister()
                log.append((f"{tid} unreg {k}", "ok"))
                orc.unregistered(k)
                if any(x is not y for x, y in zip(raw_cfg(), orc.raws[k])):
                    fail("scope:unregister-did-not-restore-the-configuration-saved-at-creation",
                         dict(tid=tid, object=k, args=orc.args[k], got=cfg_tokens()))
                check_content(tid)
                end_step(tid)
            elif op == "spawn":
                sync(tid)
                check_frame(tid)
                run_started(tid, st)
                check_frame(tid)  # nothing the started thread did shows here
                end_step(tid)
            elif op == "block":
                cm, k, before = construct(tid, st, "enter")
                entered = raw_cfg()
                how = "return"
                left_active = False
                try:
                    with cm:
                        try:
                            exec_stmts(tid, st["body"])
                        except BaseException:
                            how = "exception"
                            raise
                        finally:
                            sync(tid)  # the exit is a step of its own
                            check_frame(tid)
                            left_active = any(x is not y for x, y in zip(raw_cfg(), entered))
                finally:
                    per_thread[tid]["letters"].append("X")
                    oracles[tid].unregistered(k)
                    log.append((f"{tid} exit", "ok"))
                    after = raw_cfg()
                    if any(x is not y for x, y in zip(after, before)):
                        if left_active:
                            fail("scope:previous-settings-not-back-after-a-block-whose-body-left-a-configuration-active",
                                 dict(tid=tid, args=st["a"], how=how, got=cfg_tokens()))
                        else:
                            fail("scope:config-not-restored-after-block:" + how, dict(tid=tid, args=st["a"], got=cfg_tokens()))
                    check_content(tid)
                    end_step(tid)
            else:
                raise core.InfraError(f"statement {st!r}")

    def worker(tid):
        try:
            if not sched.go[tid].wait(60):
                raise core.InfraError("start timeout")
            sched.go[tid].clear()
            check_frame(tid)
            end_step(tid, with_cfg=False)
            try:
                exec_stmts(tid, case["threads"][tid])
            except Boom:
                per_thread[tid]["raised"] = True
            except core.InfraError:
                raise
            except Exception:  # a constructor's exception left the program
                per_thread[tid]["raised"] = True
            per_thread[tid]["final"] = cfg_tokens()
            check_frame(tid)
        except BaseException as e:  # noqa: BLE001
            sched.error = e
        finally:
            sched.done[tid] = True
            sched.back.set()

    # DEFAULT_BACKEND through the public API
    jp.register_parallel_backend(LETTER_NAME[dflt_letter], getattr(jp, LETTER_CLS[dflt_letter]), make_default=True)
    turns = []
    try:
        ths = [threading.Thread(target=worker, args=(t,), daemon=True) for t in range(nthreads)]
        for t in ths:
            t.start()
        forced = list(case.get("turns") or [])
        while not all(sched.done):
            live = [t for t in range(nthreads) if not sched.done[t]]
            if forced and forced[0] in live:
                t = forced.pop(0)
            else:
                if forced:
                    forced.pop(0)
                t = sched_rng.choice(live)
            turns.append(t)
            sched.turn(t)
            if sched.error is not None:
                break
        for t in ths:
            t.join(10)
        if sched.error is not None:
            if isinstance(sched.error, core.InfraError):
                raise sched.error
            raise core.InfraError(f"worker crashed: {sched.error!r}")
    finally:
        jp.register_parallel_backend("loky", jp.LokyBackend, make_default=True)
    case["turns"] = turns
    for sig, detail in fails:
        res.fail(sig, dict(case=case, **(desc_extra or {})), detail)
    reset = "reset " + dflt_letter + " " + " ".join(tok_default(defaults[k]) for k in KEYS)
    for pt in per_thread.values():
        pt["xprog"] = enc_xprog(pt["prog"], unreg_idx)
    return reset, log, per_thread


def tok_default(v):
    if v is None:
        return "N"
    if isinstance(v, bool) or not isinstance(v, (int, str)):
        raise core.InfraError(f"default value {v!r} is outside the model")
    return tok(v)


# ----------------------------------------------------------------------------- exploration


def _explore(ctx, res, cases, stream, jp):
    requests, expected, where = [], [], []
    for ci, case in enumerate(cases):
        reset, log, per_thread = run_case(jp, case, res)
        res.evaluations += 1
        d = max(depth_of(p) for p in case["threads"])
        for kind in ("create", "unreg", "spawn"):
            n_k = sum(count_kind(p, (kind,)) for p in case["threads"])
            if n_k:
                res.count(f"{stream}:has-{kind}")
        res.count(f"{stream}:threads-started", len(per_thread) - len(case["threads"]))
        res.count(f"{stream}:threads={len(case['threads'])}")
        res.count(f"{stream}:depth={d}")
        res.count(f"{stream}:default={case['default']}")
        res.count(f"{stream}:ops", len(log))
        if (d >= 1 or any(rq.split()[1] in ("create", "createb") for rq, _ in log)) and any(rq.split()[1] == "par" for rq, _ in log):
            res.nontrivial.add(json.dumps(case["threads"], sort_keys=True) + case["default"])
        res.sample(dict(stream=stream, case=case, first_steps=log[:6]))
        requests.append(reset)
        expected.append("ok")
        where.append((ci, None))
        for rq, rp in log:
            requests.append(rq)
            expected.append(rp)
            where.append((ci, rq))
            kind = rq.split()[1] if rq.split()[0].isdigit() else rq.split()[0]
            if rp.startswith("raises"):
                res.count(f"{stream}:{kind}:{rp}")
            elif kind == "par":
                res.count(f"{stream}:par:ok:" + rp.split()[1])
        # big-step semantics of each thread's program, against that thread's own projection
        # (every thread, also the started ones: they begin in the default configuration)
        for t in sorted(per_thread):
            pt = per_thread[t]
            exp = "cfg " + " ".join(pt["final"] or ["?"]) + " " + ("1" if pt["raised"] else "0") + " " + "".join(pt["letters"])
            if is_tree(pt["prog"]):
                requests.append("prog " + " ".join(["_"] * 8) + " " + " ".join(enc_prog(pt["prog"])))
                expected.append(exp)
                where.append((ci, f"prog thread {t}"))
            requests.append("xprog " + " ".join(pt["xprog"]))
            expected.append(exp)
            where.append((ci, f"xprog thread {t}"))
    replies = ctx.driver().run(requests)
    bad_cases = set()
    for (ci, rq), exp, got in zip(where, expected, replies):
        res.traces_validated += 1
        if exp.strip() != got.strip() and ci not in bad_cases:
            bad_cases.add(ci)  # later steps of a diverged case carry no information
            res.diverge(stream, dict(case=cases[ci], request=rq), exp, got)


# representative values for the small-scope exhaustive enumeration
CTX_VAL = {"backend": "threading", "n_jobs": 3, "verbose": 60, "temp_folder": "/tmp/a", "max_nbytes": "10K",
           "mmap_mode": "c", "prefer": "threads", "require": "sharedmem"}
EXP_VAL = {"backend": "loky", "n_jobs": 2, "verbose": 7, "temp_folder": "/tmp/b", "max_nbytes": 1000,
           "mmap_mode": "w+", "prefer": "processes", "require": None}
CTX_VAL2 = {"backend": "loky", "n_jobs": 5, "verbose": 11, "temp_folder": None, "max_nbytes": None,
            "mmap_mode": None, "prefer": "processes", "require": None}


def exhaustive_cases(full):
    """Small scope, all of it: (a) one block setting subset S, inside it Parallel with explicit subset X, for ALL
    256 x 256 (S, X) [quick: all S x all X with |X| <= 2, and all X x all S with |S| <= 2];
    (b) every nesting shape of <= 3 blocks each setting one of the 8 keys, each left by return or exception."""
    subsets = [[k for i, k in enumerate(KEYS) if m >> i & 1] for m in range(256)]
    small = [s for s in subsets if len(s) <= 2]
    pairs = itertools.product(subsets, subsets) if full else itertools.chain(
        itertools.product(subsets, small), ((s, x) for s in small for x in subsets if len(x) > 2))
    for vals in (CTX_VAL, CTX_VAL2):
        group = []
        for S, X in (pairs if vals is CTX_VAL else itertools.product(subsets, small)):
            group.append({"op": "block", "kind": "config", "a": {k: vals[k] for k in S},
                          "body": [{"op": "par", "e": {k: EXP_VAL[k] for k in X}}]})
            if len(group) == 64:
                yield {"default": "L", "threads": [group], "sched_seed": 0}
                group = []
        if group:
            yield {"default": "L", "threads": [group], "sched_seed": 0}
    # (b)
    pt = {"op": "par", "e": {}}
    g = {"op": "gab", "a": {}}
    for k1 in KEYS:
        for k2 in KEYS:
            for exc in range(4):
                inner = {"op": "block", "kind": "config", "a": {k2: CTX_VAL2[k2]},
                         "body": [pt] + ([{"op": "raise"}] if exc & 1 else [])}
                outer_body = [pt, ({"op": "try", "body": [inner]} if exc & 2 else inner), pt]
                if exc == 1:
                    outer_body = [pt, inner]
                outer = {"op": "block", "kind": "config", "a": {k1: CTX_VAL[k1]}, "body": outer_body}
                yield {"default": "L", "threads": [[pt, {"op": "try", "body": [outer]}, pt, g]], "sched_seed": 0}


REGRESSION = [
    # F21: a constraint coming from a context must stop an explicitly named process backend
    {"default": "L", "threads": [[{"op": "block", "kind": "config", "a": {"require": "sharedmem"},
                                   "body": [{"op": "par", "e": {"backend": "loky", "n_jobs": 2}}, {"op": "par", "e": {"backend": "loky"}},
                                            {"op": "par", "e": {"backend": _inst("M", None), "n_jobs": 3}}, {"op": "par", "e": {}}]}]], "sched_seed": 1},
    # F22: the context's n_jobs survives a thread fallback when the context chose no backend
    {"default": "L", "threads": [[{"op": "block", "kind": "config", "a": {"n_jobs": 4},
                                   "body": [{"op": "par", "e": {"prefer": "threads"}}, {"op": "par", "e": {"require": "sharedmem"}},
                                            {"op": "par", "e": {"backend": "loky", "prefer": "threads"}}, {"op": "par", "e": {}}]},
                                  {"op": "block", "kind": "config", "a": {"n_jobs": 4, "prefer": "threads"}, "body": [{"op": "par", "e": {}}, {"op": "gab", "a": {}}]}]],
     "sched_seed": 2},
    # pinned policy (known finding): the context's backend is replaced, its n_jobs counts as 1
    {"default": "L", "threads": [[{"op": "block", "kind": "config", "a": {"backend": "loky", "n_jobs": 2},
                                   "body": [{"op": "par", "e": {"require": "sharedmem"}}, {"op": "par", "e": {"require": "sharedmem", "n_jobs": 3}},
                                            {"op": "par", "e": {"prefer": "threads"}}]}]], "sched_seed": 3},
    # exception through three levels, two threads interleaved
    {"default": "L", "threads": [
        [{"op": "try", "body": [{"op": "block", "kind": "config", "a": {"backend": "threading", "n_jobs": 3, "verbose": 7},
                                 "body": [{"op": "block", "kind": "config", "a": {"n_jobs": 5},
                                           "body": [{"op": "block", "kind": "backend", "a": {"backend": "multiprocessing"},
                                                     "body": [{"op": "par", "e": {}}, {"op": "raise"}]}]}]}]}, {"op": "par", "e": {}}, {"op": "gab", "a": {}}],
        [{"op": "par", "e": {}}, {"op": "block", "kind": "config", "a": {"verbose": 100, "max_nbytes": "2G"}, "body": [{"op": "par", "e": {"verbose": 3}}]},
         {"op": "gab", "a": {}}]], "sched_seed": 4},
]


def _par():
    return {"op": "par", "e": {}}


def _gab():
    return {"op": "gab", "a": {}}


def _unbalanced_corpus():
    """The round-4 `unbalanced_probe` as programs: `depth` nested blocks whose innermost body makes an object by a plain call and
    never unregisters it, left normally or by an exception; afterwards the thread must be back at the defaults."""
    out = []
    for depth, by_exc, inner in [(1, False, "backend"), (2, False, "config"), (2, True, "backend"), (3, True, "config")]:
        if inner == "backend":
            body = [{"op": "create", "kind": "backend", "a": {"backend": "threading", "n_jobs": 4}}]
        else:
            body = [{"op": "create", "kind": "config", "a": {"backend": "threading", "verbose": 9}}]
        body += [_par(), _gab()] + ([{"op": "raise"}] if by_exc else [])
        for d in reversed(range(depth)):
            body = [{"op": "block", "kind": "config", "a": {"n_jobs": 2 + d, "verbose": 5 + d}, "body": body}, _par()]
        out.append({"default": "L", "threads": [[_par(), {"op": "try", "body": body}, _par(), _gab()]], "sched_seed": 10 + depth})
    return out


REGRESSION += _unbalanced_corpus() + [
    # the two hand-written probes of round 4 (foreign threads, get_active_backend vs Parallel)
    {"default": "L", "probes": True, "threads": [[_par()]], "sched_seed": 20},
    # unregister() out of order, twice, on the object of a `with` block inside the block and after it
    {"default": "L", "threads": [[
        {"op": "create", "kind": "config", "a": {"verbose": 7}}, {"op": "create", "kind": "config", "a": {"n_jobs": 3}},
        {"op": "unreg", "k": 0}, _par(), {"op": "unreg", "k": 1}, _par(), {"op": "unreg", "k": 1}, {"op": "unreg", "k": 0}, _par(),
        {"op": "block", "kind": "backend", "a": {"backend": "threading", "n_jobs": 2},
         "body": [_par(), {"op": "unreg", "k": 2}, _par(), {"op": "create", "kind": "config", "a": {"prefer": "threads"}}, _gab()]},
        _par(), {"op": "unreg", "k": 2}, {"op": "unreg", "k": 3}, _par(), {"op": "unreg", "k": 0}, _gab()]], "sched_seed": 21},
    # threads started inside a block, in every way; what they make and leave registered stays theirs
    {"default": "L", "threads": [[
        {"op": "block", "kind": "config", "a": {"backend": "threading", "n_jobs": 3, "verbose": 7}, "body": [
            {"op": "spawn", "kind": kind, "body": [_par(), _gab(), {"op": "create", "kind": "config", "a": {"n_jobs": 5, "require": "sharedmem"}},
                                                     _par(), {"op": "spawn", "kind": "copied", "body": [_par(), _gab()]}]}
            for kind in SPAWN_KINDS] + [_par(), _gab()]},
        _par()],
        [{"op": "create", "kind": "backend", "a": {"backend": "loky"}}, {"op": "spawn", "kind": "to_thread", "body": [_gab(), _par()]}, _par()]],
     "sched_seed": 22},
    # get_active_backend() and Parallel() at the same place, under hints and constraints (the round-4 gab probe as a program)
    {"default": "L", "threads": [[
        {"op": "block", "kind": "config", "a": kw, "body": [_gab(), _par()]}
        for kw in ({"backend": "loky", "n_jobs": 4, "require": "sharedmem"}, {"prefer": "threads"}, {"require": "sharedmem"},
                   {"backend": "threading", "n_jobs": 3}, {"prefer": "processes", "n_jobs": 2})]], "sched_seed": 23},
]


def run(ctx):
    joblib = core.use_repo()
    import joblib.parallel as jp

    res = Result()
    res.rule = ("programs = per-thread trees of with-blocks (depth <= 4, 1-3 statements per level, 1-3 threads, random turn order); "
                "stream `unbalanced`: the same plus objects made by plain calls, unregister() of any object at any time, threads "
                "started in three ways; non-trivial = at least one block and one Parallel construction; distinct by (programs, DEFAULT_BACKEND)")
    res.assumptions = ["threading.local semantics; `with` calls __exit__ once, LIFO", "fresh backend instances per use",
                       "model = code with fixes F21 + F22"]
    if ctx.replay:
        c = ctx.replay.get("case", {})
        case = c.get("case", c)
        if "threads" not in case:
            raise core.InfraError("replay file carries no case")
        _explore(ctx, res, [case], "replay", jp)
        return res
    _explore(ctx, res, [json.loads(json.dumps(c)) for c in REGRESSION], "regression", jp)
    _explore(ctx, res, list(exhaustive_cases(ctx.thorough)), "exhaustive", jp)
    rng = ctx.rng("main")
    n = 6000 if ctx.thorough else 700
    _explore(ctx, res, [gen_case(rng) for _ in range(n)], "random", jp)
    rng = ctx.rng("malformed")
    _explore(ctx, res, [gen_case(rng, malformed=True) for _ in range(n // 3)], "malformed", jp)
    rng = ctx.rng("unbalanced")
    m = 4000 if ctx.thorough else 450
    _explore(ctx, res, [gen_case(rng, malformed=(i % 5 == 4), ext=True) for i in range(m)], "unbalanced", jp)
    return res


def search(ctx, res):
    core.use_repo()
    import joblib.parallel as jp

    out = Result()
    rng = ctx.rng("search")
    cases = []
    for d in res.divergences[:10]:
        base = d["case"].get("case")
        if base:
            for _ in range(20):
                c = json.loads(json.dumps(base))
                c["sched_seed"] = rng.randrange(1 << 30)
                c.pop("turns", None)
                cases.append(c)
    cases += [gen_case(rng, malformed=(i % 4 == 0), ext=(i % 2 == 1)) for i in range(7000)]
    _explore(ctx, out, cases, "search", jp)
    _explore(ctx, out, list(exhaustive_cases(True)), "search-exhaustive", jp)
    return out
