"""C09 — see DESIGN.md section 6/C09. Model M1 (lean/JoblibModel/ParallelProto.lean), theorems lean/JoblibProofs/C09.lean,
deterministic scenarios through harness/ctl.py, oracles in harness/m1.py.  `_utils.eval_expr` and the `pre_dispatch` resolution:
model lean/JoblibModel/EvalExpr.lean, correspondence streams and oracles in harness/evalexpr.py."""

from .. import evalexpr, m1, native_pool

REQUIRED_THEOREMS = [
    "C09.no_pull_after_abort",
    "C09.all_is_eager",
    "C09.pulls_only_in_locked_region",
    "C09.lookahead_bound_state",
    "C09.size_invariant",
    "C09.parked_bound",
    "C09.lookahead_bound_partial",
    "C09.lookahead_unbounded_counterexample",
    "C09.auto_batch_size_at_most_doubles",
    "C09.sequential_is_lazy",
    "C09.sequential_no_pull_after_failure",
    "C09.eval_arithmetic_only",
    "C09.eval_rejects_cleanly_partial",
    "C09.eval_rejects_cleanly_when_ops_succeed",
    "C09.eval_rejects_cleanly_counterexample",
    "C09.eval_exception_classes",
    "C09.eval_sound",
    "C09.floor_semantics",
    "C09.resolve_amount_fixed",
    "C09.lookahead_bound_user",
    "C09.resolve_common_texts",
    "C09.lookahead_bound_default",
    "C09.all_is_eager_user",
    "C09.resolve_numbers",
    "C09.resolve_zero_negative_witnesses",
    "C09.resolve_text_witnesses",
    "C09.reconf_same_cfg_is_old_model",
    "C09.reconf_call_uses_its_own_cfg",
    "M1L.reachable_inv",
    "M1L.mutex",
    "M1L.lock_owner_iff",
    "M1L.acquire_needs_free_lock",
    "M1L.pulls_only_by_lock_owner",
    "M1L.no_pull_after_abort_observed",
]
EXTRA_LEAN_MODULES = ("JoblibProofs.M1L",)
EXTRA_LEAN_TARGETS = ("drv_m1l", "drv_m1lseq")
TRUSTED_EXTRA = [
    "M1L (lean/JoblibModel/ParallelLock.lean, theorems M1L.*): a second, small-step, multi-threaded model of the same protocol; one atomic step = the code of one thread between two scheduling points (outermost acquire/release of Parallel._lock, a backend call, time.sleep, an unlocked access to _aborting/_exception/_iterating/_original_iterator/n_dispatched_tasks/n_completed_tasks/_jobs/tracker status), any number of callback threads, every interleaving; scope: one call on a fresh object, ordered modes, no timeout; tied to the code by step-log equality of forced real-thread schedules (instrumented lock, controllable backend, descriptor-instrumented shared attributes, no line numbers); assumed: threading.RLock mutual exclusion, atomicity of a single attribute load/store under the GIL; accesses to attributes outside the list and the input iterator's __next__ are atomic with their segment; termination under the drain schedule is proved (M1L.quiescent_termination*)",
    "M1 granularity: completion callbacks are atomic and happen at hook points of the caller (configure, compute_batch_size, sleep, consumer "
    "pauses, inside backend.abort_everything, between two calls and after the last one); interleavings inside a callback or between two bytecodes of the caller are not in the model",
    "eval_expr / pre_dispatch (lean/JoblibModel/EvalExpr.lean): the AST datatype stands for what ast.parse(…, mode='eval').body can be; CPython's "
    "parser is modelled only on a sub-grammar (numeric literals, names, parentheses, the 13+3 operators, .name trailers; everything else and "
    "texts over 400 characters: the model abstains) and tied by correspondence only; the operator functions on int/bool/float/str/bytes/None "
    "and int() are modelled, not verified (floats as exact binary64 values: + - * / // % and int→float conversion correctly rounded, "
    "float ** float tracked only for integer exponents |e| ≤ 2200 with an exactly representable result — assumes libm pow errs by < 1 ulp; "
    "complex arithmetic, printf-style %, sequences longer than 2^20, integer powers over 4e6 bits: abstention); the arithmetic-only theorems "
    "hold for every interpretation of the operator functions; sys.maxsize = 2^63-1; RecursionError/MemoryError outside the model",
    "modelled, not verified: the backend contract (each submitted batch executed at most once, its callback invoked at most once), "
    "threading.RLock, itertools.islice, queue.Queue, collections.deque, pickling of batches to worker processes",
]
FOCUSES = (None, 'fail')


def run(ctx):
    if ctx.replay and str(ctx.replay.get("case", {}).get("kind", "")).startswith("evalexpr"):
        return evalexpr.replay(ctx)
    if native_pool.is_replay(ctx):
        return native_pool.replay(ctx, "C09")
    out = m1.run_prop(ctx, "C09", FOCUSES)
    if not ctx.replay:
        evalexpr.run_streams(ctx, out)
        native_pool.probe(ctx, out, "C09")
    return out


def search(ctx, res):
    evalexpr.dedupe_pythonpath()
    out = m1.search_prop(ctx, "C09", res, FOCUSES)
    if any(str(d.get("stream")) in evalexpr.STREAMS for d in res.divergences) or not res.divergences:
        evalexpr.run_streams(ctx, out, scale=10, salt="search")
    return out
