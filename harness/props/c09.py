"""C09 — see DESIGN.md section 6/C09. Model M1 (lean/JoblibModel/ParallelProto.lean), theorems lean/JoblibProofs/C09.lean,
deterministic scenarios through harness/ctl.py, oracles in harness/m1.py."""

from .. import m1

REQUIRED_THEOREMS = [
    "C09.no_pull_after_abort",
    "C09.all_is_eager",
    "C09.pulls_only_in_locked_region",
    "C09.lookahead_bound_state",
    "C09.size_invariant",
    "C09.parked_bound",
    "C09.lookahead_bound_partial",
    "C09.lookahead_unbounded_counterexample",
    "C09.auto_batch_size_at_most_doubles",
    "C09.sequential_is_lazy",
    "C09.sequential_no_pull_after_failure",
    "M1L.reachable_inv",
    "M1L.mutex",
    "M1L.lock_owner_iff",
    "M1L.acquire_needs_free_lock",
    "M1L.pulls_only_by_lock_owner",
    "M1L.no_pull_after_abort_observed",
]
EXTRA_LEAN_MODULES = ("JoblibProofs.M1L",)
EXTRA_LEAN_TARGETS = ("drv_m1l",)
TRUSTED_EXTRA = [
    "M1L (lean/JoblibModel/ParallelLock.lean, theorems M1L.*): a second, small-step, multi-threaded model of the same protocol; one atomic step = the code of one thread between two scheduling points (outermost acquire/release of Parallel._lock, a backend call, time.sleep, an unlocked access to _aborting/_exception/_iterating/_original_iterator/n_dispatched_tasks/n_completed_tasks/_jobs/tracker status), any number of callback threads, every interleaving; scope: one call on a fresh object, ordered modes, no timeout; tied to the code by step-log equality of forced real-thread schedules (instrumented lock, controllable backend, descriptor-instrumented shared attributes, no line numbers); assumed: threading.RLock mutual exclusion, atomicity of a single attribute load/store under the GIL; accesses to attributes outside the list and the input iterator's __next__ are atomic with their segment; termination under the drain schedule is proved (M1L.quiescent_termination*)",
    "M1 granularity: completion callbacks are atomic and happen at hook points of the caller (configure, compute_batch_size, sleep, consumer "
    "pauses, inside backend.abort_everything, between two calls and after the last one); interleavings inside a callback or between two bytecodes of the caller are not in the model",
    "modelled, not verified: the backend contract (each submitted batch executed at most once, its callback invoked at most once), "
    "threading.RLock, itertools.islice, queue.Queue, collections.deque, pickling of batches to worker processes",
]
FOCUSES = (None, 'fail')


def run(ctx):
    return m1.run_prop(ctx, "C09", FOCUSES)


def search(ctx, res):
    return m1.search_prop(ctx, "C09", res, FOCUSES)
