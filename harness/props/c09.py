"""C09 — see DESIGN.md section 6/C09. Model M1 (lean/JoblibModel/ParallelProto.lean), theorems lean/JoblibProofs/C09.lean,
deterministic scenarios through harness/ctl.py, oracles in harness/m1.py."""

from .. import m1

REQUIRED_THEOREMS = [
    "C09.no_pull_after_abort",
    "C09.all_is_eager",
    "C09.pulls_only_in_locked_region",
    "C09.lookahead_bound_state",
    "C09.size_invariant",
    "C09.parked_bound",
    "C09.lookahead_bound_partial",
    "C09.lookahead_unbounded_counterexample",
    "C09.auto_batch_size_at_most_doubles",
    "C09.sequential_is_lazy",
    "C09.sequential_no_pull_after_failure",
]
TRUSTED_EXTRA = [
    "M1 granularity: completion callbacks are atomic and happen at hook points of the caller (configure, compute_batch_size, sleep, consumer "
    "pauses, inside backend.abort_everything, between two calls and after the last one); interleavings inside a callback or between two bytecodes of the caller are not in the model",
    "modelled, not verified: the backend contract (each submitted batch executed at most once, its callback invoked at most once), "
    "threading.RLock, itertools.islice, queue.Queue, collections.deque, pickling of batches to worker processes",
]
FOCUSES = (None, 'fail')


def run(ctx):
    return m1.run_prop(ctx, "C09", FOCUSES)


def search(ctx, res):
    return m1.search_prop(ctx, "C09", res, FOCUSES)
