"""C20 — tracked temporary resources are deleted exactly when their last user is gone.

Models: lean/JoblibModel/Tracker.lean (the tracker's command loop) and lean/JoblibModel/TrackerClient.lean (the client
side — TemporaryResourcesManager, the memmapping reducer, executors/pools, worker processes — composed with the loop and a
disk); theorems: lean/JoblibProofs/C20.lean; driver: Driver/C20.lean. The client side is tied in harness/c20_client.py.

Implementation side: the REAL `resource_tracker.main` of VERIF_REPO running in its own process, reached
  * mode "direct": `python -c "from joblib.externals.loky.backend.resource_tracker import main; main(fd, 0)"` with
    `pass_fds` (exactly the command `ensure_running` builds), raw bytes written to the pipe by client processes;
  * mode "api": a root client calls the module's own `ensure_running()`; it and the other clients go through
    `register / maybe_unlink / unregister` (`_send`), the clients sharing the fd as loky's spawn does
    (`_resource_tracker._fd/_pid` set from the parent's values).
A "world" = one tracker + a directory of files/folders (+ one POSIX semaphore) + several client processes + a scripted
history (requests, malformed lines, clients exiting or being SIGKILLed, paths deleted/recreated by the clients).
Synchronisation: a sentinel file is registered and maybe_unlinked through the pipe and its disappearance polled.
SIGINT / SIGTERM reach the tracker at every phase of its life (pending from before main(): sent right after the spawn, the
launcher's blocked mask reproduced in direct mode and real in api mode; between requests; during the EOF clean-up) and end
clients; expected effect on the tracker: none (model: JoblibModel.TrackerSignals.life says `alive`).
At every check point and after EOF the existence of every path is compared
  (a) with the Lean model (its clean-up actions replayed on a small file-system simulation)   -> res.diverge
  (b) with an independent oracle: a plain Python refcount dict                                   -> res.fail
Tracker liveness, exit status and every stderr line are classified. Two worlds per run are additionally run under
`strace` and the order of the successful unlink/rmdir calls is compared with the order of the model's actions.
joblib's own usage path (`TemporaryResourcesManager`, no numpy needed) is exercised in three variants.
"""

import concurrent.futures as cf
import hashlib
import json
import os
import re
import select
import shutil
import signal
import subprocess
import tempfile
import time
from pathlib import Path

from .. import c20_client, core
from ..core import Result

REQUIRED_THEOREMS = [
    "C20.distinct_keys",
    "C20.counts_positive",
    "C20.refcount_refines",
    "C20.refcount_balanced",
    "C20.delete_iff_zero",
    "C20.delete_is_single",
    "C20.cleanup_needs_user",
    "C20.never_delete_unregistered",
    "C20.malformed_is_noop",
    "C20.unbalanced_iff",
    "C20.probe_is_noop",
    "C20.eof_deletes_rest_folders_last",
    "C20.parse_send_format",
    "C20.net_differs_when_unbalanced",
    # the client side (JoblibModel.TrackerClient composed with the loop above)
    "C20.client_tracker_composed",
    "C20.client_requests_wellformed",
    "C20.refcount_matches_users",
    "C20.repaired_never_releases_twice",
    "C20.refcount_matches_users_repaired",
    "C20.never_deleted_while_held_partial",
    "C20.never_deleted_while_held",
    "C20.extra_reference_released_twice_counterexample",
    "C20.never_deleted_while_held_fails_on_pinned",
    "C20.eventually_deleted",
    "C20.eventually_deleted_at_exit",
    "C20.client_invariants",
    # signals at every phase of the tracker's life (JoblibModel.TrackerSignals)
    "C20.start_never_loses_to_a_pending_signal",
    "C20.unblock_before_ignore_counterexample",
    "C20.launcher_mask_is_needed",
    # the asynchronous pipe (JoblibModel.TrackerLag): F60, and the synchrony hypothesis of the client theorems
    "C20.tracker_lag_counterexample",
    "C20.lag_with_caught_up_tracker_is_synchronous",
]
TRUSTED_EXTRA = [
    "modelled, not verified: the OS — a pipe delivers the clients' writes as one byte stream in write order, writes <= PIPE_BUF "
    "are atomic, read() reports EOF exactly when the last process holding the write end has exited or been killed; "
    "os.unlink / shutil.rmtree / sem_unlink (what a clean-up does on disk is simulated by the harness: rmtree removes the "
    "subtree, unlink_file swallows FileNotFoundError, a wrong-kind path raises and the tracker only warns)",
    "modelled, not verified: io.BufferedReader.readline (line splitting at b'\\n', last unterminated line returned at EOF), "
    "bytes.strip, str.split/join, dict insertion order, the warnings module (default filter: same text shown once)",
    "verbose=1 / util.debug branches of main() are not modelled (off by default)",
    "Windows branches (msvcrt, PermissionError retry of unlink_file) are not modelled",
    "client model, ASSUMED (false of the real system — finding F60 of C19): synchronous composition — every request is processed "
    "by the tracker before any client looks at the disk again (os.path.exists in the reducer, os.listdir in the clean-up, the "
    "worker's open). C20.never_deleted_while_held, refcount_matches_users, eventually_deleted_at_exit speak about that "
    "composition only; with the real FIFO pipe and a lagging tracker a dump is unlinked while a pickled task needs it "
    "(C20.tracker_lag_counterexample on JoblibModel.TrackerLag; the hypothesis that restores the synchronous statements is "
    "'the tracker catches up between any two client steps', C20.lag_with_caught_up_tracker_is_synchronous). The probe realises "
    "the hypothesis: it replaces the sleeps/retries of delete_folder by a real synchronisation with the tracker after every "
    "operation, so the lag is NOT explored by this check; one name per (manager id, context id, array): uuid4 / id() uniqueness; the weak-key map of the reducer "
    "(arrays stay alive in the probe); loky's executor reuse rules are transcribed (arguments compared, shutdown flag), loky's "
    "worker management itself is replaced by stand-in worker processes that run the real un-pickling and finalizers",
    "signals, modelled not verified: the kernel's rules in JoblibModel.TrackerSignals (an ignored signal is discarded when generated, a "
    "blocked one stays pending, SIG_IGN discards the pending one, unblocking delivers; delivery with the start-up disposition ends "
    "main()); only SIGINT/SIGTERM; signals sent to the tracker pid by the harness (not to the process group); the exact landing "
    "point of a signal sent a few ms after the spawn is the scheduler's",
    "client model: the memmaps of MemmappingPool workers are not registered users (unlink_on_gc_collect=False): the model's "
    "monitor counts them only for deletions done by the main process itself; the probe's oracle covers them for all deletions",
]

PY = core.PY
SYNC_FIRST_S = 30.0
SYNC_S = 15.0
EXIT_S = 25.0

# --------------------------------------------------------------------------------------- the world's resources

# key, relative path, kind.  kinds: file | dir | missing
PATHS = [
    ("f0", "f0", "file"),
    ("f1", "f1", "file"),
    ("fc", "c:d", "file"),  # ':' inside the name
    ("fs", "sp ace", "file"),  # blank inside the name
    ("d0", "d0", "dir"),
    ("d0x", "d0/x", "file"),
    ("d0y", "d0/y", "file"),
    ("d0u", "d0/u", "file"),  # never registered: must go with d0 and only with d0
    ("d1", "d1", "dir"),
    ("d1x", "d1/x", "file"),
    ("d1s", "d1/sub", "dir"),
    ("d1z", "d1/sub/z", "file"),
    ("nx", "nx", "missing"),
]
TOP = ["f0", "f1", "fc", "fs", "d0", "d1"]  # what `recreate` may restore
SEMS = [("s0", True), ("sx", False)]  # key, exists
NATURAL = {"file": "file", "dir": "folder", "missing": "file", "sem": "semlock", "nosem": "semlock"}
REQ_KEYS = ["f0", "f1", "fc", "fs", "d0", "d0x", "d0y", "d1", "d1x", "d1z", "nx", "s0", "sx"]
RTYPES = ["folder", "file", "semlock"]


def _sem_path(name):
    return "/dev/shm/sem." + name[1:]


class Layout:
    """Names on the wire and what exists initially."""

    def __init__(self, root: str, tag: str):
        self.root = root
        self.tag = tag
        self.name = {}  # key -> wire name
        self.kind = {}  # key -> kind
        self.initial = {}  # abs path -> 'file' | 'dir'
        for key, rel, kind in PATHS:
            p = os.path.join(root, rel)
            self.name[key] = p
            self.kind[key] = kind
            if kind != "missing":
                self.initial[p] = kind
        for key, exists in SEMS:
            n = f"/c20-{tag}-{key}"
            self.name[key] = n
            self.kind[key] = "sem" if exists else "nosem"
        self.key_of = {v: k for k, v in self.name.items()}

    def canon(self, s: str) -> str:
        return s.replace(self.root, "<root>").replace(f"/c20-{self.tag}-", "/c20-<w>-")

    def create(self):
        import _multiprocessing

        os.makedirs(self.root)
        os.makedirs(os.path.join(self.root, ".sy"))
        for p, kind in sorted(self.initial.items()):
            if kind == "dir":
                os.makedirs(p, exist_ok=True)
        for p, kind in self.initial.items():
            if kind == "file":
                open(p, "w").close()
        for key, exists in SEMS:
            if exists:
                _multiprocessing.SemLock(1, 1, 1, self.name[key], False)

    def destroy(self):
        import _multiprocessing

        for key, _ in SEMS:
            try:
                _multiprocessing.sem_unlink(self.name[key])
            except OSError:
                pass
        shutil.rmtree(self.root, ignore_errors=True)

    def observe(self):
        out = {}
        for key, _, _ in PATHS:
            out[key] = os.path.lexists(self.name[key])
        for key, _ in SEMS:
            out[key] = os.path.exists(_sem_path(self.name[key]))
        return out


class FsSim:
    """What the clean-up functions do on disk (trusted, shared by the model replay and by the oracle)."""

    def __init__(self, lay: Layout, swallow_fnf: bool):
        self.lay = lay
        self.swallow = swallow_fnf
        self.ent = dict(lay.initial)
        self.sems = {lay.name[k] for k, e in SEMS if e}
        self.deleted = []  # successful deletions in order: ('file'|'dir', path)

    def _rm_tree(self, p):
        for q in [q for q in self.ent if q == p or q.startswith(p + "/")]:
            del self.ent[q]

    def cleanup(self, rtype, name):
        """Returns the class name of the exception the clean-up function raises to the tracker, or None."""
        if rtype == "file":
            k = self.ent.get(name)
            if k == "file":
                del self.ent[name]
                self.deleted.append(("file", name))
                return None
            if k == "dir":
                return "IsADirectoryError"
            return None if self.swallow else "FileNotFoundError"
        if rtype == "folder":
            k = self.ent.get(name)
            if k == "dir":
                self._rm_tree(name)
                self.deleted.append(("dir", name))
                return None
            if k == "file":
                return "NotADirectoryError"
            return "FileNotFoundError"
        if rtype == "semlock":
            if name in self.sems:
                self.sems.discard(name)
                self.deleted.append(("file", _sem_path(name)))
                return None
            return "FileNotFoundError"
        raise core.InfraError(f"rtype {rtype}")

    def recreate(self, key):
        p = self.lay.name[key]
        for q, kind in self.lay.initial.items():
            if q == p or q.startswith(p + "/"):
                self.ent.setdefault(q, kind)

    def selfdelete(self, key):
        p = self.lay.name[key]
        if p in self.ent:
            self._rm_tree(p)

    def state(self):
        out = {}
        for key, _, _ in PATHS:
            out[key] = self.lay.name[key] in self.ent
        for key, _ in SEMS:
            out[key] = self.lay.name[key] in self.sems
        return out


# --------------------------------------------------------------------------------------- client processes

AGENT = r"""
import os, sys, shutil
fd = int(sys.argv[1]); mode = sys.argv[2]
rt = None
if mode != "raw":
    sys.path.insert(0, sys.argv[3])
    from joblib.externals.loky.backend import resource_tracker as rt
    if mode == "root":
        rt.ensure_running()
        fd = rt._resource_tracker._fd
        if len(sys.argv) > 4 and sys.argv[4] != "-":  # a signal reaching the tracker while it is starting up
            import signal, time
            time.sleep(float(sys.argv[5]))
            os.kill(rt._resource_tracker._pid, getattr(signal, sys.argv[4]))
        sys.stdout.write("pid %d %d\n" % (rt._resource_tracker._pid, fd)); sys.stdout.flush()
    else:
        rt._resource_tracker._fd = fd
        rt._resource_tracker._pid = int(sys.argv[4])
while True:
    line = sys.stdin.readline()
    if not line:
        break
    t = line.split()
    try:
        if t[0] == "W":
            b = bytes.fromhex(t[1]); n = os.write(fd, b); assert n == len(b)
        elif t[0] == "A":
            import warnings
            with warnings.catch_warnings():
                warnings.filterwarnings("error", message="resource_tracker: process died")  # -> tell the harness
                getattr(rt, t[1])(bytes.fromhex(t[2]).decode("ascii"), t[3])
    except (OSError, UserWarning) as e:
        sys.stdout.write("gone %s\n" % type(e).__name__); sys.stdout.flush()
        continue
    if t[0] == "X":
        sys.stdout.write("bye\n"); sys.stdout.flush()
        sys.exit(0)
    sys.stdout.write("ok\n"); sys.stdout.flush()
"""


class TrackerGone(Exception):
    """A write to the tracker's pipe failed: nobody reads it any more."""


class Client:
    def __init__(self, mode, fd, repo, tracker_pid, errfile, start_sig=None, start_delay=0.0):
        self.mode = mode
        env = dict(os.environ, PYTHONPATH=repo, PYTHONDONTWRITEBYTECODE="1")
        if mode == "raw":
            args = [PY, "-S", "-E", "-c", AGENT, str(fd), "raw"]
        elif mode == "api":
            args = [PY, "-c", AGENT, str(fd), "api", repo, str(tracker_pid)]
        else:
            args = [PY, "-c", AGENT, "-1", "root", repo, start_sig or "-", repr(float(start_delay))]
        self.p = subprocess.Popen(
            args, stdin=subprocess.PIPE, stdout=subprocess.PIPE, stderr=errfile, bufsize=0, env=env,
            pass_fds=[fd] if fd >= 0 else [],
        )
        self.alive = True
        self.buf = b""

    def readline(self, timeout=60.0):
        t_end = time.time() + timeout
        while b"\n" not in self.buf:
            left = t_end - time.time()
            if left <= 0:
                raise core.InfraError("client did not answer")
            r, _, _ = select.select([self.p.stdout], [], [], left)
            if r:
                chunk = os.read(self.p.stdout.fileno(), 4096)
                if not chunk:
                    raise core.InfraError("client died unexpectedly")
                self.buf += chunk
        line, self.buf = self.buf.split(b"\n", 1)
        return line.decode()

    def cmd(self, text):
        self.p.stdin.write(text.encode() + b"\n")
        ans = self.readline()
        if ans.startswith("gone"):
            raise TrackerGone(ans)
        if ans != "ok":
            raise core.InfraError(f"client answered {ans!r}")

    def leave(self, how):
        if not self.alive:
            return
        self.alive = False
        if how in LEAVE_SIG:
            self.p.send_signal(LEAVE_SIG[how])
        else:
            try:
                self.p.stdin.write(b"X\n")
                self.readline()
            except (OSError, core.InfraError):
                pass
        try:
            self.p.wait(30)
        except subprocess.TimeoutExpired:
            self.p.kill()
            self.p.wait(30)
        for f in (self.p.stdin, self.p.stdout):
            try:
                f.close()
            except OSError:
                pass


def _pid_gone(pid):
    try:
        with open(f"/proc/{pid}/stat") as f:
            st = f.read()
    except OSError:
        return True
    return st.rsplit(")", 1)[1].split()[0] in ("Z", "X")


# how a client process can be made to leave without saying good-bye ("killall python", ^C to the process group, kill -9)
LEAVE_SIG = {"kill": signal.SIGKILL, "term": signal.SIGTERM, "int": signal.SIGINT}
# the signals the tracker must shrug off at every moment of its life (resource_tracker._IGNORED_SIGNALS)
TRACKER_SIGS = ["SIGTERM", "SIGINT"]


# --------------------------------------------------------------------------------------- running one world


def _fmt_line(cmd, name, rtype, fmt):
    core_b = f"{cmd}:{name}:{rtype}".encode("ascii")
    if fmt == 1:
        return b"  " + core_b + b"\n"
    if fmt == 2:
        return core_b + b"\r\n"
    if fmt == 3:
        return core_b + b" \t \n"
    if fmt == 4:
        return b"\t\x0b" + core_b + b"\x0c\n"
    return core_b + b"\n"


class World:
    def __init__(self, spec, root, tag, repo):
        self.spec = spec
        self.repo = repo
        self.lay = Layout(root, tag)
        self.tl = []  # timeline: ("w", bytes, [requests]) | ("fs", kind, key) | ("check", label, observed, alive)
        self.problems = []  # (signature, detail) seen by the runner itself (sync time-out, tracker death, hang)
        self.clients = []
        self.w = None  # the harness's own copy of the write end
        self.trk = None  # Popen (direct mode)
        self.trk_pid = None
        self.nsync = 0
        self.dir = Path(root).parent
        self.errpath = self.dir / (Path(root).name + ".tracker.err")
        self.cerrpath = self.dir / (Path(root).name + ".clients.err")
        self.tracepath = self.dir / (Path(root).name + ".strace")
        self.rc = None
        self.final = None
        # ":after-signal-…" while a signal has been sent to the tracker since it last proved to be alive (classification only)
        self.sig_phase = ":after-signal-pending-at-start" if spec.get("start_sig") and not spec.get("strace") else ""

    # -- plumbing
    def tracker_alive(self):
        if self.trk is not None:
            return self.trk.poll() is None
        return not _pid_gone(self.trk_pid)

    def start(self):
        self.lay.create()
        self.errf = open(self.errpath, "wb")
        self.cerrf = open(self.cerrpath, "wb")
        env = dict(os.environ, PYTHONPATH=self.repo, PYTHONDONTWRITEBYTECODE="1")
        modes = self.spec["clients"]
        if self.spec["mode"] == "direct":
            r, w = os.pipe()
            cmd = [PY, "-c", f"from joblib.externals.loky.backend.resource_tracker import main; main({r}, False)"]
            if self.spec.get("strace"):
                cmd = ["strace", "-f", "-qq", "-o", str(self.tracepath), "-e", "trace=unlink,unlinkat,rmdir"] + cmd
            # what `ensure_running` does around the spawn (bpo-33613): SIGINT/SIGTERM are blocked in the spawning thread, the
            # child inherits the mask, so that a signal arriving while the tracker starts stays pending until main() ignores it
            old = signal.pthread_sigmask(signal.SIG_BLOCK, {signal.SIGINT, signal.SIGTERM})
            try:
                self.trk = subprocess.Popen(cmd, pass_fds=[r], stdin=subprocess.DEVNULL, stdout=subprocess.DEVNULL,
                                            stderr=self.errf, env=env)
            finally:
                signal.pthread_sigmask(signal.SIG_SETMASK, old)
            os.close(r)
            self.w = w
            self.trk_pid = self.trk.pid
            if self.spec.get("start_sig") and not self.spec.get("strace"):
                time.sleep(self.spec.get("start_delay", 0.0))
                os.kill(self.trk_pid, getattr(signal, self.spec["start_sig"]))
            for m in modes:
                self.clients.append(Client(m, self.w, self.repo, self.trk_pid, self.cerrf))
        else:
            root = Client("root", -1, self.repo, None, self.errf,  # the tracker inherits the root client's stderr
                          start_sig=self.spec.get("start_sig"), start_delay=self.spec.get("start_delay", 0.0))
            t = root.readline(120).split()
            if t[0] != "pid":
                raise core.InfraError(f"root client said {t}")
            self.trk_pid, fd = int(t[1]), int(t[2])
            self.w = os.open(f"/proc/{root.p.pid}/fd/{fd}", os.O_WRONLY)
            self.clients.append(root)
            for m in modes[1:]:
                self.clients.append(Client(m, self.w, self.repo, self.trk_pid, self.cerrf))

    def write(self, who, data, reqs):
        """who: client index or 'h' (the harness's own copy of the fd)."""
        if who == "h":
            try:
                n = os.write(self.w, data)
            except BrokenPipeError:
                raise TrackerGone("EPIPE") from None
            if n != len(data):
                raise core.InfraError("short write")
        else:
            self.clients[who].cmd("W " + data.hex())
        self.tl.append(("w", data, reqs))

    def api(self, who, cmd, name, rtype):
        meth = {"REGISTER": "register", "UNREGISTER": "unregister", "MAYBE_UNLINK": "maybe_unlink"}[cmd]
        self.clients[who].cmd(f"A {meth} {name.encode('ascii').hex()} {rtype}")
        # what `_send` puts on the pipe: the probe of ensure_running()._check_alive(), then the message
        self.tl.append(("w", b"PROBE:0:noop\n", []))
        self.tl.append(("w", f"{cmd}:{name}:{rtype}\n".encode("ascii"), [(cmd, rtype, name)]))

    def writer(self):
        if self.w is not None:
            return "h"
        for i, c in enumerate(self.clients):
            if c.alive:
                return i
        return None

    def sync(self, timeout=SYNC_S):
        who = self.writer()
        if who is None:
            raise core.InfraError("sync without a writer")
        self.nsync += 1
        s = os.path.join(self.lay.root, ".sy", f"s{self.nsync}")
        open(s, "w").close()
        data = f"REGISTER:{s}:file\nMAYBE_UNLINK:{s}:file\n".encode()
        self.write(who, data, [("REGISTER", "file", s), ("MAYBE_UNLINK", "file", s)])
        t_end = time.time() + timeout
        delay = 0.0005
        t_look = time.time() + 0.3
        while os.path.exists(s):
            if time.time() > t_look:
                t_look = time.time() + 0.3
                if not self.tracker_alive() and os.path.exists(s):
                    t_end = 0
            if time.time() > t_end:
                if not self.tracker_alive():
                    self.problems.append(("tracker:died" + self.sig_phase, f"tracker gone before EOF (sync {self.nsync})"))
                else:
                    self.problems.append(("tracker:sentinel-not-deleted",
                                          f"sentinel registered+maybe_unlinked but still there after {timeout}s (sync {self.nsync})"))
                return False
            time.sleep(delay)
            delay = min(delay * 1.5, 0.02)
        self.sig_phase = ""
        return True

    def check(self, label):
        if not self.sync():
            return False
        self.tl.append(("check", label, self.lay.observe(), self.tracker_alive()))
        return True

    def signal_tracker(self, name):
        """Only while the pid is certainly the tracker's: our own child (direct), or the child of the living root client (api)."""
        if self.spec.get("strace"):
            return
        if self.trk is None and not (self.clients and self.clients[0].alive):
            return
        try:
            os.kill(self.trk_pid, getattr(signal, name))
        except ProcessLookupError:
            pass
        self.sig_phase = self.sig_phase or ":after-signal-in-command-loop"

    # -- the history
    def run(self):
        try:
            self.start()
            if not self.sync(SYNC_FIRST_S):
                return
            for ev in self.spec["events"]:
                if not self.event(ev):
                    return
            self.ending()
        except TrackerGone as e:
            self.problems.append(("tracker:died" + self.sig_phase,
                                  f"a client's write to the pipe failed ({e}): the tracker stopped reading before EOF"))
        finally:
            self.teardown()

    def event(self, ev):
        op = ev["op"]
        lay = self.lay
        if op == "req":
            name = lay.name[ev["key"]]
            if ev.get("via") == "api":
                self.api(ev["client"], ev["cmd"], name, ev["rtype"])
            else:
                self.write(ev["client"], _fmt_line(ev["cmd"], name, ev["rtype"], ev.get("fmt", 0)),
                           [(ev["cmd"], ev["rtype"], name)])
        elif op == "raw":  # malformed by construction: no effect expected
            data = bytes.fromhex(ev["hex"]).replace(b"@K@", lay.name[ev.get("key", "f0")].encode())
            self.write(ev["client"], data, [])
        elif op == "split":  # one request written in two pieces by two writers; the first may die in between
            name = lay.name[ev["key"]]
            line = _fmt_line(ev["cmd"], name, ev["rtype"], 0)
            cut = 1 + ev["cut"] % (len(line) - 1)
            self.write(ev["client"], line[:cut], [])
            if ev.get("leave"):
                self.clients[ev["client"]].leave(ev["leave"])
            self.write(ev["client2"], line[cut:], [(ev["cmd"], ev["rtype"], name)])
        elif op == "glue":  # a client dies after half a line; the next writer's request is glued to it
            name = lay.name[ev["key"]]
            line = _fmt_line(ev["cmd"], name, ev["rtype"], 0)
            cut = 1 + ev["cut"] % (len(line) - 2)
            self.write(ev["client"], line[:cut], [])
            self.clients[ev["client"]].leave(ev["leave"])
            name2 = lay.name[ev["key2"]]
            self.write(ev["client2"], _fmt_line(ev["cmd2"], name2, ev["rtype2"], 0), [])  # lost: never a request
        elif op == "leave":
            self.clients[ev["client"]].leave(ev["how"])
        elif op == "spawn":
            self.clients.append(Client(ev["mode"], self.w, self.repo, self.trk_pid, self.cerrf))
        elif op == "check":
            return self.check(ev.get("label", "mid"))
        elif op == "sig":  # SIGINT / SIGTERM reach the tracker while it serves requests: no effect expected
            self.signal_tracker(ev["sig"])
        elif op in ("recreate", "selfdelete"):
            if not self.sync():
                return False
            p = lay.name[ev["key"]]
            if op == "recreate":
                for q, kind in sorted(lay.initial.items()):
                    if (q == p or q.startswith(p + "/")) and not os.path.lexists(q):
                        if kind == "dir":
                            os.makedirs(q)
                        else:
                            open(q, "w").close()
            else:
                if os.path.isdir(p):
                    shutil.rmtree(p)
                elif os.path.lexists(p):
                    os.unlink(p)
            self.tl.append(("fs", op, ev["key"]))
        else:
            raise core.InfraError(f"event {op}")
        return True

    def ending(self):
        end = self.spec["ending"]
        # the harness lets go of its own copy: from now on only the client processes hold the pipe
        os.close(self.w)
        self.w = None
        order = [(i, how) for i, how in end["order"] if self.clients[i].alive]
        for pos, (i, how) in enumerate(order):
            last = pos == len(order) - 1
            if last and end.get("tail"):
                t = end["tail"]
                name = self.lay.name[t["key"]]
                line = f"{t['cmd']}:{name}:{t['rtype']}".encode()  # no '\n': readline returns it at EOF
                self.write(i, line, [(t["cmd"], t["rtype"], name)])
            self.clients[i].leave(how)
            if not last:
                if not self.check("client-left"):
                    return
        # EOF: the tracker must clean up and exit — also when signals keep arriving while it does
        if self.trk is not None:
            for name in end.get("sigs", []):
                self.signal_tracker(name)
                time.sleep(0.0003)
        t_end = time.time() + EXIT_S
        while self.tracker_alive() and time.time() < t_end:
            time.sleep(0.002)
        if self.tracker_alive():
            self.problems.append(("tracker:hang-after-eof", f"tracker still running {EXIT_S}s after the last client left"))
            return
        if self.trk is not None:
            self.rc = self.trk.wait()
        self.final = self.lay.observe()

    def teardown(self):
        for c in self.clients:
            c.leave("kill")
        if self.w is not None:
            try:
                os.close(self.w)
            except OSError:
                pass
            self.w = None
        t_end = time.time() + 10
        while self.trk_pid and self.tracker_alive() and time.time() < t_end:
            time.sleep(0.01)
        if self.trk_pid and self.tracker_alive():
            try:
                os.kill(self.trk_pid, signal.SIGKILL)
            except OSError:
                pass
        if self.trk is not None:
            try:
                self.trk.wait(10)
            except subprocess.TimeoutExpired:
                pass
        for f in (getattr(self, "errf", None), getattr(self, "cerrf", None)):
            if f:
                f.close()
        self.stderr = self.errpath.read_text(errors="replace") if self.errpath.exists() else ""
        self.cstderr = self.cerrpath.read_text(errors="replace") if self.cerrpath.exists() else ""
        self.strace = self.tracepath.read_text(errors="replace") if self.tracepath.exists() else None
        self.lay.destroy()


def _run_world(args):
    spec, root, tag, repo = args
    w = World(spec, root, tag, repo)
    w.run()
    return w


# --------------------------------------------------------------------------------------- stderr / strace parsing

_TB_END = re.compile(r"^([A-Za-z_][\w.]*)(?::|$)")
_WARN_FAIL = re.compile(r"UserWarning: resource_tracker: (.*): (\w+)\(")
_WARN_LEAK = re.compile(r"UserWarning: resource_tracker: There appear to be (\d+) leaked (\w+) objects")


def parse_stderr(text):
    """-> (reports in order, cleanup-failure warnings set, leak warnings set, unclassified lines)"""
    reports, fails, leaks, unk = [], set(), set(), []
    in_tb = False
    for ln in text.splitlines():
        if in_tb:
            if ln.startswith(" "):
                continue
            m = _TB_END.match(ln)
            if m:
                reports.append(m.group(1).split(".")[-1])
                in_tb = False
                continue
            unk.append(ln)
            in_tb = False
            continue
        if ln.startswith("Traceback (most recent call last):"):
            in_tb = True
            continue
        m = _WARN_LEAK.search(ln)
        if m:
            leaks.add((m.group(2), int(m.group(1))))
            continue
        m = _WARN_FAIL.search(ln)
        if m:
            fails.add((m.group(1), m.group(2)))
            continue
        if ln.strip().startswith("warnings.warn("):
            continue
        if ln.strip():
            unk.append(ln)
    if in_tb:
        unk.append("<unterminated traceback>")
    return reports, fails, leaks, unk


_ST = re.compile(r'^\d+\s+(unlink|rmdir|unlinkat)\((?:AT_FDCWD, )?"((?:[^"\\]|\\.)*)"(?:, (\w+))?\)\s+= 0')


def parse_strace(text, lay):
    out = []
    for ln in text.splitlines():
        m = _ST.match(ln)
        if not m:
            continue
        call, path, flag = m.groups()
        if "/.sy/" in path or not (path.startswith(lay.root + "/") or path.startswith(f"/dev/shm/sem.c20-{lay.tag}-")):
            continue  # the sentinels; joblib's own import-time semaphore probe; anything not of this world
        if "unlinkat(" in ln and "AT_FDCWD" not in ln:
            continue
        kind = "dir" if call == "rmdir" or flag == "AT_REMOVEDIR" else "file"
        out.append((kind, path))
    return out


# --------------------------------------------------------------------------------------- judging one world


def _timeline_items(w):
    """Cut the byte stream into the lines `readline` returns; fs/check marks must sit on line boundaries."""
    items, buf, reqs = [], b"", []
    for it in w.tl:
        if it[0] == "w":
            buf += it[1]
            reqs += it[2]
            while b"\n" in buf:
                line, buf = buf.split(b"\n", 1)
                items.append(("line", line + b"\n"))
            if not buf:
                for r in reqs:
                    items.append(("oreq", r))
                reqs = []
        else:
            if buf:
                raise core.InfraError("mark inside a line")
            items.append(it)
    if buf:
        items.append(("line", buf))
        for r in reqs:
            items.append(("oreq", r))
    return items


def _driver_requests(w, items):
    """Requests for the model driver + a parallel list telling how to read the replies."""
    lay = w.lay
    req, tags = ["RESET"], [("reset",)]
    pairs = sorted({(r[1], r[2]) for it in items if it[0] == "oreq" for r in [it[1]] if r[1] in RTYPES
                    and r[2] in lay.key_of})
    for it in items:
        if it[0] == "line":
            req.append("L x" + it[1].hex())
            tags.append(("line",))
        elif it[0] == "check":
            for rt, name in pairs:
                req.append(f"Q {rt} x{name.encode().hex()}")
                tags.append(("q", rt, name))
    req.append("EOF")
    tags.append(("eof",))
    for rt, name in pairs:
        req.append(f"Q {rt} x{name.encode().hex()}")
        tags.append(("q", rt, name))
    return req, tags


def _parse_actions(rep):
    rep = rep.strip()
    if rep == "-":
        return []
    out = []
    for a in rep.split(" ; "):
        t = a.split()
        if t[0] == "cleanup" and len(t) == 3 and t[2].startswith("x"):
            out.append(("cleanup", t[1], bytes.fromhex(t[2][1:]).decode("latin-1")))
        elif t[0] == "report" and len(t) == 2:
            out.append(("report", t[1]))
        elif t[0] == "leak" and len(t) == 3:
            out.append(("leak", t[1], int(t[2])))
        else:
            raise core.InfraError(f"driver reply {rep!r}")
    return out


def _classify_gone(key, lay, rc, label, final):
    """Signature for a path that is gone although the oracle says it must still exist."""
    p = lay.name[key]
    held = any(n == p and c > 0 for (_, n), c in rc.items())
    if label == "client-left":
        return "tracker:deleted-before-last-client-exit" if held else "tracker:deleted-unregistered"
    if held:
        return "tracker:deleted-while-referenced"
    return "tracker:deleted-unregistered"


def _counts_reply(rep):
    m = re.fullmatch(r"count (-?\d+) (\d+)", rep.strip())
    if not m:
        raise core.InfraError(f"driver reply {rep!r}")
    return int(m.group(1)), int(m.group(2))


def judge_world(w, replies, tags, res, swallow, idx):
    lay = w.lay
    spec = w.spec
    desc = dict(world=spec, idx=idx)
    items = _timeline_items(w)
    # ---- what the runner itself saw: the tracker stopped, hung, or did not delete the sentinel at zero
    for sig, detail in w.problems:
        res.fail(sig, desc, detail)
    if w.cstderr.strip():
        res.notes.append("client stderr: " + lay.canon(w.cstderr.strip()[-300:]))

    ofs = FsSim(lay, swallow)  # driven by the oracle: a plain refcount dict, no model
    rc = {}
    mfs = FsSim(lay, swallow)  # driven by the Lean model's actions
    m_reports, m_fails, m_leaks = [], set(), set()
    zero_hits = nchecks = 0
    hist = []

    def m_apply(acts):
        for a in acts:
            if a[0] == "cleanup":
                exc = mfs.cleanup(a[1], a[2])
                if exc:
                    m_fails.add((a[2], exc))
            elif a[0] == "report":
                m_reports.append(a[1])
            else:
                m_leaks.add((a[1], a[2]))

    # The oracle judges what the property speaks about: complete requests in the format clients send. Whether a request
    # wrapped in blanks/CR, or a last line cut before its '\n', counts as a request is the code's choice (it accepts both):
    # there the model alone is compared (a difference is a divergence, not a property failure).
    o_all = not any(ev.get("fmt") for ev in spec["events"])
    o_eof = o_all and not spec["ending"].get("tail")

    def compare(obs, label, final=False):
        res.evaluations += 1
        exp = ofs.state()
        for key in exp:
            if exp[key] == obs[key] or not (o_eof if final else o_all):
                continue
            if obs[key]:
                sig = "tracker:leak-after-eof" if final else "tracker:not-deleted-at-zero"
            else:
                sig = _classify_gone(key, lay, rc, label, final)
            res.fail(sig, desc, dict(at=label, key=key, expected_exists=exp[key], observed_exists=obs[key]))
        ms = mfs.state()
        if ms != obs:
            diff = [k for k in ms if ms[k] != obs[k]]
            res.diverge("fs-state", desc, dict(at=label, exists={k: obs[k] for k in diff}), dict(exists={k: ms[k] for k in diff}))

    def counts(pos):
        """Q replies: registry count = abstract count (model), and both = the oracle's dict (validates the oracle)."""
        while pos < len(tags) and tags[pos][0] == "q":
            _, rt, name = tags[pos]
            c, a = _counts_reply(replies[pos])
            if c != a:
                res.diverge("registry-vs-abstract", desc, dict(), dict(rtype=rt, name=lay.canon(name), registry=c, abstract=a))
            if c != rc.get((rt, name), 0):
                res.diverge("oracle-vs-spec", desc, dict(rtype=rt, name=lay.canon(name), oracle=rc.get((rt, name), 0)), dict(model=c))
            pos += 1
        return pos

    if tags[0] != ("reset",) or replies[0].strip() != "reset":
        raise core.InfraError("driver replies out of step")
    pos = 1
    for it in items:
        if it[0] == "line":
            m_apply(_parse_actions(replies[pos]))
            hist.append(it[1])
            pos += 1
        elif it[0] == "oreq":
            cmd, rt, name = it[1]
            k = (rt, name)
            if rt not in RTYPES:
                continue
            if cmd == "REGISTER":
                rc[k] = rc.get(k, 0) + 1
            elif cmd == "UNREGISTER":
                rc.pop(k, None)
            elif cmd == "MAYBE_UNLINK" and k in rc:
                rc[k] -= 1
                if rc[k] == 0:
                    del rc[k]
                    ofs.cleanup(rt, name)
                    zero_hits += 1
        elif it[0] == "fs":
            getattr(ofs, it[1])(it[2])
            getattr(mfs, it[1])(it[2])
        elif it[0] == "check":
            nchecks += 1
            if not it[3]:
                res.fail("tracker:died", desc, dict(at=it[1]))
            compare(it[2], it[1])
            pos = counts(pos)
    if tags[pos] != ("eof",):
        raise core.InfraError("driver replies out of step")
    eof_acts = _parse_actions(replies[pos])
    pos = counts(pos + 1)
    left_at_eof = len(rc)
    o_loop_deleted = len([d for d in ofs.deleted if "/.sy/" not in d[1]])

    reports, wfails, wleaks, unk = parse_stderr(w.stderr)
    allowed = {"ValueError", "RuntimeError", "KeyError", "UnicodeDecodeError"}
    if unk or any(r not in allowed for r in reports):
        res.fail("tracker:stderr-unclassified", desc,
                 dict(unclassified=[lay.canon(u) for u in unk[:5]], reports=[r for r in reports if r not in allowed][:5]))

    if w.final is not None:
        for (rt, name) in [k for k in rc if k[0] != "folder"] + [k for k in rc if k[0] == "folder"]:
            ofs.cleanup(rt, name)
        m_apply(eof_acts)
        nchecks += 1
        compare(w.final, "eof", final=True)
        if w.rc not in (None, 0):
            res.fail("tracker:exit-nonzero", desc, dict(rc=w.rc))
        if reports != m_reports:
            res.diverge("stderr-reports", desc, reports, m_reports)
        cf_i = sorted((lay.canon(n), e) for n, e in wfails)
        cf_m = sorted((lay.canon(n), e) for n, e in m_fails)
        if cf_i != cf_m:
            res.diverge("stderr-cleanup-warnings", desc, cf_i, cf_m)
        if sorted(wleaks) != sorted(m_leaks):
            res.diverge("stderr-leak-warnings", desc, sorted(wleaks), sorted(m_leaks))
        if w.strace is not None:
            raw_got = parse_strace(w.strace, lay)
            got = [(k, lay.canon(p)) for k, p in raw_got]
            want = [(k, lay.canon(p)) for k, p in mfs.deleted if "/.sy/" not in p]
            res.count("strace-worlds")
            if got != want:
                res.diverge("syscall-order", desc, got, want)
            # oracle, no model: among the deletions done at EOF no file or semaphore is removed after a folder
            seen_dir = None
            for k, p in raw_got[o_loop_deleted:]:
                if k == "dir":
                    seen_dir = p
                elif seen_dir is not None:
                    res.fail("tracker:eof-folder-before-file", desc, dict(folder=lay.canon(seen_dir), then=lay.canon(p)))
                    break
    # ---- counters
    res.traces_validated += 1
    stream = b"".join(lay.canon(l.decode("latin-1")).encode("latin-1") for l in hist)
    if zero_hits or left_at_eof:
        res.nontrivial.add(hashlib.sha1(stream + json.dumps(spec["ending"], sort_keys=True).encode()).hexdigest())
    res.count("lines", len(hist))
    res.count("checks", nchecks)
    res.count("count-reached-zero", zero_hits)
    res.count("left-at-eof", left_at_eof)
    res.count(f"mode:{spec['mode']}")
    res.count(f"clients:{len(w.clients)}")
    for r in m_reports:
        res.count("report:" + r)
    for _, e in m_fails:
        res.count("cleanup-raises:" + e)
    for a in eof_acts:
        res.count("eof:" + a[0] + ":" + a[1])
    for ev in spec["events"]:
        res.count("ev:" + ev["op"] + (":" + ev["cmd"] if ev["op"] == "req" else "")
                  + (":" + ev["kind"] if ev["op"] == "raw" else "") + (":" + ev["how"] if ev["op"] == "leave" else "")
                  + (":" + ev["sig"] if ev["op"] == "sig" else "")
                  + (":api" if ev.get("via") == "api" else ""))
    for _, how in spec["ending"]["order"]:
        res.count("ending:" + how)
    if spec["ending"].get("tail"):
        res.count("ending:unterminated-last-line")
    if spec.get("start_sig") and not spec.get("strace"):
        res.count("signal-pending-at-start:" + spec["start_sig"])
    for name in spec["ending"].get("sigs", []):
        res.count("signal-during-eof-cleanup:" + name)
    res.sample(dict(mode=spec["mode"], clients=spec["clients"], n_events=len(spec["events"]),
                    first_lines=[lay.canon(l.decode("latin-1")) for l in hist[:6]], ending=spec["ending"]), cap=4)


# --------------------------------------------------------------------------------------- generating worlds

MALFORMED = [
    ("garbage", b"garbage\n"),
    ("empty", b"\n"),
    ("blank", b"  \t \n"),
    ("nonascii", b"\xff\xfe:x:file\n"),
    ("nonascii-name", b"REGISTER:@K@\xc3\xa9:file\n"),
    ("nonascii-mu", b"MAYBE_UNLINK:@K@:file\xff\n"),
    ("unknown-cmd", b"FOO:@K@:file\n"),
    ("lower-cmd", b"register:@K@:file\n"),
    ("cmd-with-blank", b"MAYBE _UNLINK:@K@:file\n"),
    ("unknown-type", b"REGISTER:@K@:nosuchtype\n"),
    ("unknown-type-mu", b"MAYBE_UNLINK:@K@:File\n"),
    ("unknown-type-unreg", b"UNREGISTER:@K@:files\n"),
    ("empty-type", b"MAYBE_UNLINK:@K@:\n"),
    ("no-type", b"MAYBE_UNLINK:@K@\n"),
    ("type-only", b"file\n"),
    ("probe", b"PROBE:0:noop\n"),
    ("probe-bare", b"PROBE\n"),
    ("probe-like", b"PROBE:@K@:file\n"),
    ("cmd-only", b"MAYBE_UNLINK\n"),
    ("mu-empty-name", b"MAYBE_UNLINK:file\n"),
    ("reg-empty-name", b"REGISTER:file\n"),
    ("reg-empty-name-folder", b"REGISTER::folder\n"),
    ("unreg-empty-name", b"UNREGISTER::folder\n"),
    ("swapped", b"file:@K@:MAYBE_UNLINK\n"),
    ("extra-prefix", b"x:MAYBE_UNLINK:@K@:file\n"),
    ("colon-appended", b"MAYBE_UNLINK:@K@::file\n"),
    ("colon-prepended", b"MAYBE_UNLINK::@K@:file\n"),
    ("nul", b"MAYBE_UNLINK:@K@\x00:file\n"),
    ("inner-blank-type", b"MAYBE_UNLINK:@K@: file\n"),
]


def _natural(key):
    kind = dict((k, kd) for k, _, kd in PATHS).get(key) or ("sem" if key == "s0" else "nosem")
    return NATURAL[kind]


def gen_world(rng, mode, big=False, strace=False):
    api = mode == "api"
    n0 = rng.choice([1, 2, 2, 3, 3, 4])
    clients = []
    for i in range(n0):
        clients.append("root" if (api and i == 0) else ("api" if api and rng.random() < 0.6 else "raw"))
    alive = [True] * n0
    rc = {}
    events = []
    n_ev = rng.choice([6, 12, 20, 30, 30, 45] + ([80, 120] if big else []))
    hot = rng.sample(REQ_KEYS, rng.choice([2, 3, 4, 6]))  # a few names get most of the traffic
    noisy = rng.random() < 0.25  # blanks / CR around the request (accepted by the code's strip()): model-only worlds

    def live():
        return [i for i, a in enumerate(alive) if a]

    def pick_writer():
        l = live()
        return rng.choice(l + ["h"]) if l else "h"

    def pick_key():
        return rng.choice(hot) if rng.random() < 0.75 else rng.choice(REQ_KEYS)

    def pick_req():
        r = rng.random()
        held = [k for k, c in rc.items() if c > 0]
        if r < 0.40 or not held:
            cmd = "REGISTER"
            key = pick_key()
            rtype = _natural(key) if rng.random() < 0.93 else rng.choice(RTYPES)
        elif r < 0.85:
            cmd = "MAYBE_UNLINK"
            if rng.random() < 0.85:
                rtype, key = rng.choice(held)
            else:  # unbalanced or wrong type
                key = pick_key()
                rtype = _natural(key) if rng.random() < 0.7 else rng.choice(RTYPES)
        else:
            cmd = "UNREGISTER"
            if rng.random() < 0.8:
                rtype, key = rng.choice(held)
            else:
                key = pick_key()
                rtype = _natural(key)
        k = (rtype, key)
        if cmd == "REGISTER":
            rc[k] = rc.get(k, 0) + 1
        elif cmd == "UNREGISTER":
            rc.pop(k, None)
        elif k in rc:
            rc[k] -= 1
            if rc[k] == 0:
                del rc[k]
        return cmd, key, rtype

    since_check = 0
    for _ in range(n_ev):
        r = rng.random()
        l = live()
        if r < 0.66:
            cmd, key, rtype = pick_req()
            who = pick_writer()
            ev = dict(op="req", client=who, cmd=cmd, key=key, rtype=rtype)
            if who != "h" and clients[who] in ("api", "root") and rng.random() < 0.85:
                ev["via"] = "api"
            else:
                ev["fmt"] = rng.choice([0, 1, 2, 3, 4]) if noisy else 0
            events.append(ev)
        elif r < 0.78:
            kind, data = rng.choice(MALFORMED)
            events.append(dict(op="raw", client=pick_writer(), kind=kind, hex=data.hex(), key=pick_key()))
        elif r < 0.82 and l:
            cmd, key, rtype = pick_req()
            who = rng.choice(l)
            leave = rng.choice([None, None, "kill", "exit"])
            if leave:
                alive[who] = False
            others = [i for i in live() if i != who] + ["h"]
            events.append(dict(op="split", client=who, client2=rng.choice(others), cmd=cmd, key=key, rtype=rtype,
                               cut=rng.randrange(1000), leave=leave))
        elif r < 0.85 and l:
            who = rng.choice(l)
            alive[who] = False
            others = live() + ["h"]
            key, key2 = rng.choice(REQ_KEYS[:11]), rng.choice(REQ_KEYS[:11])  # paths only
            events.append(dict(op="glue", client=who, client2=rng.choice(others), leave=rng.choice(["kill", "exit"]),
                               cmd=rng.choice(["REGISTER", "MAYBE_UNLINK"]), key=key, rtype=_natural(key), cut=rng.randrange(1000),
                               cmd2=rng.choice(["REGISTER", "MAYBE_UNLINK", "UNREGISTER"]), key2=key2, rtype2=_natural(key2)))
        elif r < 0.89 and l:
            who = rng.choice(l)
            if clients[who] == "root" and rng.random() < 0.5:
                continue
            alive[who] = False
            events.append(dict(op="leave", client=who, how=rng.choice(["kill", "kill", "exit"])))
        elif r < 0.92 and len(clients) < 6:
            m = "api" if api and rng.random() < 0.5 else "raw"
            clients.append(m)
            alive.append(True)
            events.append(dict(op="spawn", mode=m))
        elif r < 0.96:
            key = rng.choice(TOP + ["d0x", "d1z"])
            op = rng.choice(["recreate", "selfdelete"]) if key in TOP else "selfdelete"
            events.append(dict(op=op, key=key))
            since_check = 0
        else:
            events.append(dict(op="check"))
            since_check = 0
            continue
        since_check += 1
        if since_check >= rng.choice([1, 2, 3, 5]):
            events.append(dict(op="check"))
            since_check = 0
    events.append(dict(op="check", label="before-ending"))
    order = [(i, rng.choice(["kill", "exit"])) for i in live()]
    rng.shuffle(order)
    ending = dict(order=order)
    if order and rng.random() < 0.2:
        cmd, key, rtype = pick_req()
        ending["tail"] = dict(cmd=cmd, key=key, rtype=rtype)
    return dict(mode=mode, clients=clients[:n0], events=events, ending=ending, strace=strace)


def add_signals(rng, spec):
    """SIGINT / SIGTERM at every phase of the tracker's life (drawn from a stream of its own, after the world is made):
    pending from before main() — sent right after the spawn, while the launcher's blocked mask still protects the child —,
    between requests of the command loop, while the EOF clean-up runs; and clients that are ended by SIGTERM / SIGINT
    instead of SIGKILL.  The expected effect on the tracker is none: the model is not told about them."""
    if spec.get("strace"):
        return spec
    api = spec["mode"] == "api"
    if rng.random() < 0.14:
        spec["start_sig"] = rng.choice(TRACKER_SIGS)
        spec["start_delay"] = rng.choice([0.0, 0.0, 0.0, 0.01, 0.05])
    if rng.random() < 0.25:
        for _ in range(rng.choice([1, 1, 2, 4])):
            spec["events"].insert(rng.randrange(len(spec["events"]) + 1), dict(op="sig", sig=rng.choice(TRACKER_SIGS)))
    if not api and rng.random() < 0.2:
        spec["ending"]["sigs"] = [rng.choice(TRACKER_SIGS) for _ in range(rng.choice([1, 2, 5]))]
    if rng.random() < 0.3:
        def how(h, who):
            if h != "kill" or rng.random() < 0.5:
                return h
            return "term" if (api and who == 0) else rng.choice(["term", "int"])  # the root's stderr is the tracker's
        for ev in spec["events"]:
            if ev["op"] == "leave":
                ev["how"] = how(ev["how"], ev["client"])
            elif ev["op"] in ("split", "glue") and ev.get("leave"):
                ev["leave"] = how(ev["leave"], ev["client"])
        spec["ending"]["order"] = [(i, how(h, i)) for i, h in spec["ending"]["order"]]
    return spec


def _signal_request(spec):
    """The world's signals as a request to the model: pending at the start of main() (sent with no delay after the spawn) or
    arriving before its first statement (sent a little later: where exactly it lands is the scheduler's choice — the model's
    answer must not depend on it), then during the command loop and the EOF clean-up."""
    if spec.get("strace"):
        return None
    let = {"SIGINT": "i", "SIGTERM": "t"}
    st, delay = spec.get("start_sig"), spec.get("start_delay", 0.0)
    later = [let[ev["sig"]] for ev in spec["events"] if ev["op"] == "sig"] + [let[x] for x in spec["ending"].get("sigs", [])]
    if not st and not later:
        return None
    pi = int(st == "SIGINT" and not delay)
    pt = int(st == "SIGTERM" and not delay)
    a0 = let[st] if st and delay else "-"
    return f"S {pi} {pt} {a0} - - {''.join(later) or '-'}"


def _req(cmd, key, rtype=None, client="h", **kw):
    return dict(op="req", client=client, cmd=cmd, key=key, rtype=rtype or _natural(key), **kw)


def corpus_worlds():
    """Hand-written regression histories, run first (the design probe, and the shapes each theorem talks about)."""
    CK = dict(op="check")
    raw = lambda kind: dict(op="raw", client="h", kind=kind, hex=dict(MALFORMED)[kind].hex(), key="f1")  # noqa: E731
    ws = []
    # the design probe
    ws.append(dict(mode="direct", clients=["raw"], strace=False, ending=dict(order=[(0, "exit")]), events=[
        _req("REGISTER", "f0"), _req("REGISTER", "f0"), CK, _req("MAYBE_UNLINK", "f0"), CK,
        _req("MAYBE_UNLINK", "f1"), CK, raw("garbage"), raw("nonascii"), raw("unknown-cmd"), raw("unknown-type"), CK,
        _req("MAYBE_UNLINK", "f0"), CK, _req("REGISTER", "f1"), _req("REGISTER", "d0"), CK]))
    # folder holding tracked files: files first at EOF, folder last; untracked content goes with the folder
    ws.append(dict(mode="direct", clients=["raw", "raw"], strace=True, ending=dict(order=[(1, "kill"), (0, "kill")]), events=[
        _req("REGISTER", "d0", client=0), _req("REGISTER", "d0x", client=1), _req("REGISTER", "d0y", client=1),
        _req("REGISTER", "d1z", client=0), _req("REGISTER", "d1", client=0), _req("REGISTER", "f0", client=1),
        _req("REGISTER", "s0", client=1), CK]))
    # folder released while its files are still referenced; then the files' own release finds nothing
    ws.append(dict(mode="direct", clients=["raw"], strace=True, ending=dict(order=[(0, "exit")]), events=[
        _req("REGISTER", "d0"), _req("REGISTER", "d0x"), _req("REGISTER", "d0x"), _req("MAYBE_UNLINK", "d0x"), CK,
        _req("MAYBE_UNLINK", "d0"), CK, _req("MAYBE_UNLINK", "d0x"), CK, _req("MAYBE_UNLINK", "d0x"), CK]))
    # unregister protects: a path unregistered (even with count 3) survives EOF; re-register starts from 1
    ws.append(dict(mode="direct", clients=["raw"], strace=False, ending=dict(order=[(0, "kill")]), events=[
        _req("REGISTER", "f0"), _req("REGISTER", "f0"), _req("REGISTER", "f0"), _req("UNREGISTER", "f0"), CK,
        _req("MAYBE_UNLINK", "f0"), CK, _req("REGISTER", "f1"), _req("UNREGISTER", "f1"), _req("REGISTER", "f1"),
        _req("MAYBE_UNLINK", "f1"), CK, _req("REGISTER", "d1"), _req("UNREGISTER", "d1"), _req("UNREGISTER", "d1"), CK]))
    # unbalanced first, then register: the earlier maybe_unlink must not count (net_differs_when_unbalanced)
    ws.append(dict(mode="direct", clients=["raw"], strace=False, ending=dict(order=[(0, "exit")]), events=[
        _req("MAYBE_UNLINK", "fc"), _req("MAYBE_UNLINK", "fc"), _req("REGISTER", "fc"), CK, _req("MAYBE_UNLINK", "fc"), CK,
        _req("MAYBE_UNLINK", "fc"), CK]))
    # same path under two types (type confusion): order of the EOF clean-up becomes visible in the warnings
    ws.append(dict(mode="direct", clients=["raw"], strace=False, ending=dict(order=[(0, "exit")]), events=[
        _req("REGISTER", "d0", "file"), _req("REGISTER", "d0", "folder"), _req("REGISTER", "f0", "folder"),
        _req("REGISTER", "f0", "file"), _req("REGISTER", "nx", "folder"), _req("REGISTER", "sx"), CK]))
    # every malformed line, with names registered around them
    ws.append(dict(mode="direct", clients=["raw"], strace=False, ending=dict(order=[(0, "kill")]), events=(
        [_req("REGISTER", "f1"), _req("REGISTER", "f1")] + [raw(k) for k, _ in MALFORMED] + [CK, _req("MAYBE_UNLINK", "f1"), CK,
         _req("MAYBE_UNLINK", "f1"), CK])))
    # blanks / CR LF around requests, and a last line cut before its newline (accepted by the code; model-only)
    ws.append(dict(mode="direct", clients=["raw"], strace=False,
                   ending=dict(order=[(0, "kill")], tail=dict(cmd="REGISTER", key="fs", rtype="file")), events=[
        _req("REGISTER", "f0", fmt=1), _req("REGISTER", "f0", fmt=2), _req("MAYBE_UNLINK", "f0", fmt=3), CK,
        _req("MAYBE_UNLINK", "f0", fmt=4), CK, _req("REGISTER", "d0", fmt=2), CK]))
    # the module's own path: ensure_running + register/maybe_unlink/unregister from three processes; root killed first
    ws.append(dict(mode="api", clients=["root", "api", "raw"], strace=False,
                   ending=dict(order=[(0, "kill"), (2, "exit"), (1, "kill")]), events=[
        _req("REGISTER", "d1", client=0, via="api"), _req("REGISTER", "d1x", client=1, via="api"),
        _req("REGISTER", "d1x", client=0, via="api"), _req("REGISTER", "fc", client=1, via="api"), CK,
        _req("MAYBE_UNLINK", "d1x", client=1, via="api"), CK, _req("MAYBE_UNLINK", "d1x", client=2), CK,
        _req("REGISTER", "fs", client=1, via="api"), _req("UNREGISTER", "fc", client=0, via="api"),
        _req("MAYBE_UNLINK", "nx", client=1, via="api"), CK]))
    # "killall python" / ^C at every phase of the tracker's life: pending from before main() (sent right after the spawn), between
    # requests, while the EOF clean-up runs; the clients end by the same signals; what is registered is deleted at the end
    SG = lambda name: dict(op="sig", sig=name)  # noqa: E731
    for first, second in (("SIGTERM", "SIGINT"), ("SIGINT", "SIGTERM")):
        ws.append(dict(mode="direct", clients=["raw", "raw"], strace=False, start_sig=first, start_delay=0.0,
                       ending=dict(order=[(0, "term"), (1, "int")], sigs=[first, second, first]), events=[
            _req("REGISTER", "d0", client=0), _req("REGISTER", "d0x", client=1), _req("REGISTER", "f0", client=0), SG(second), CK,
            _req("REGISTER", "f0", client=1), SG(first), _req("MAYBE_UNLINK", "f0", client=0), SG(second), CK,
            _req("REGISTER", "d1", client=1), _req("REGISTER", "s0", client=1), SG(first), CK]))
        ws.append(dict(mode="api", clients=["root", "api"], strace=False, start_sig=first, start_delay=0.0,
                       ending=dict(order=[(1, "int"), (0, "term")]), events=[
            _req("REGISTER", "d1", client=0, via="api"), _req("REGISTER", "d1x", client=1, via="api"), SG(second), CK,
            _req("REGISTER", "fc", client=0, via="api"), _req("MAYBE_UNLINK", "fc", client=1, via="api"), SG(first), CK]))
    return ws


# --------------------------------------------------------------------------------------- joblib's own usage path

USAGE = r"""
import os, sys, json, time, signal
sys.path.insert(0, sys.argv[1])
root, variant = sys.argv[2], sys.argv[3]
from joblib._memmapping_reducer import TemporaryResourcesManager
from joblib.externals.loky.backend import resource_tracker as rt
m = TemporaryResourcesManager(temp_folder_root=root, context_id="ctx")
folder = m.resolve_temp_folder_name()
os.makedirs(folder)
files = [os.path.join(folder, n) for n in ("a.pkl", "b.pkl")]
for f in files:
    open(f, "wb").write(b"x")
    rt.register(f, "file")      # ArrayMemmapForwardReducer.__call__: once for the parent …
    rt.register(f, "file")      # … once for the child that will unpickle the memmap
nsync = [0]
def sync():
    nsync[0] += 1
    s = os.path.join(root, "sync%d" % nsync[0]); open(s, "w").close()
    rt.register(s, "file"); rt.maybe_unlink(s, "file")
    t0 = time.time()
    while os.path.exists(s):
        if time.time() - t0 > 20: return False
        time.sleep(0.002)
    return True
def state(tag):
    ok = sync()
    print(json.dumps(dict(tag=tag, synced=ok, folder=os.path.exists(folder), files=[os.path.exists(f) for f in files],
                          pid=rt._resource_tracker._pid, folder_name=folder)), flush=True)
    if not ok:
        os._exit(3)
state("registered")
if variant == "clean":
    m._clean_temporary_resources(context_id="ctx", force=False, allow_non_empty=False)   # parent's share released
    state("parent-released")
    for f in files:
        rt.maybe_unlink(f, "file")                                                        # the child's finalizer
    state("child-released")
    m._clean_temporary_resources(context_id="ctx")
    state("folder-cleaned")
elif variant == "force":
    m._clean_temporary_resources(context_id="ctx", force=True)
    state("forced")
elif variant == "killed":
    os.kill(os.getpid(), signal.SIGKILL)
"""

USAGE_EXPECT = {
    "clean": [("registered", True, [True, True]), ("parent-released", True, [True, True]),
              ("child-released", True, [False, False]), ("folder-cleaned", False, [False, False])],
    "force": [("registered", True, [True, True]), ("forced", False, [False, False])],
    "killed": [("registered", True, [True, True])],
}


def run_usage(ctx, res, variant, idx):
    root = Path(tempfile.mkdtemp(prefix=f"usage-{variant}-{idx}-", dir=ctx.scratch))
    err = root / "stderr"
    desc = dict(usage=variant)
    with open(err, "wb") as ef:
        p = subprocess.run([PY, "-c", USAGE, str(core.REPO), str(root), variant], stdout=subprocess.PIPE, stderr=ef,
                           env=dict(os.environ, PYTHONPATH=str(core.REPO)), timeout=300)
    states = [json.loads(l) for l in p.stdout.decode().splitlines() if l.startswith("{")]
    if not states:
        res.notes.append(f"usage[{variant}]: TemporaryResourcesManager could not be driven: {err.read_text()[-400:]}")
        res.fail("usage:not-runnable", desc, err.read_text()[-400:])
        return
    pid = states[0]["pid"]
    folder = states[0]["folder_name"]
    t_end = time.time() + EXIT_S
    while not _pid_gone(pid) and time.time() < t_end:
        time.sleep(0.005)
    if not _pid_gone(pid):
        res.fail("tracker:hang-after-eof", desc, "tracker of the usage scenario still alive")
        os.kill(pid, signal.SIGKILL)
    res.evaluations += 1
    res.count("usage:" + variant)
    got = [(s["tag"], s["folder"], s["files"]) for s in states]
    if any(not s["synced"] for s in states):
        res.fail("tracker:sentinel-not-deleted", desc, got)
    elif got != USAGE_EXPECT[variant]:
        # which way is it wrong?
        for g, e in zip(got, USAGE_EXPECT[variant]):
            if g != e:
                gone_early = (e[1] and not g[1]) or any(ee and not gg for gg, ee in zip(g[2], e[2]))
                res.fail("tracker:deleted-while-referenced" if gone_early else "tracker:not-deleted-at-zero", desc,
                         dict(expected=e, got=g))
                break
        else:
            res.fail("usage:incomplete", desc, dict(got=got, rc=p.returncode))
    # after the process is gone (normally or killed) nothing it registered may be left
    left = [x for x in [folder] + [os.path.join(folder, n) for n in ("a.pkl", "b.pkl")] if os.path.exists(x)]
    if left:
        res.fail("tracker:leak-after-eof", desc, [x.replace(str(root), "<root>") for x in left])
    reports, wfails, wleaks, unk = parse_stderr(err.read_text(errors="replace"))
    exp_leaks = {("file", 2), ("folder", 1)} if variant == "killed" else set()
    # model: the same request lines through the driver
    lines = [f"REGISTER:{folder}:folder\n"]
    fs = [os.path.join(folder, n) for n in ("a.pkl", "b.pkl")]
    for f in fs:
        lines += [f"REGISTER:{f}:file\n"] * 2
    if variant == "clean":
        lines += [f"MAYBE_UNLINK:{f}:file\n" for f in fs] * 2 + [f"UNREGISTER:{folder}:folder\n"]
    elif variant == "force":
        lines += [f"UNREGISTER:{f}:file\n" for f in fs] + [f"UNREGISTER:{folder}:folder\n"]
    rep = ctx.driver().run(["RESET"] + ["L x" + l.encode().hex() for l in lines] + ["EOF"])
    m_leaks = {(a[1], a[2]) for a in _parse_actions(rep[-1]) if a[0] == "leak"}
    m_reports = [a[1] for r in rep[1:-1] for a in _parse_actions(r) if a[0] == "report"]
    res.traces_validated += 1
    if wleaks != m_leaks or reports != m_reports:
        res.diverge("usage-stderr", desc, dict(leaks=sorted(wleaks), reports=reports), dict(leaks=sorted(m_leaks), reports=m_reports))
    if m_leaks != exp_leaks:
        raise core.InfraError(f"usage scenario prediction is off: {m_leaks} vs {exp_leaks}")
    if unk or wfails:
        res.fail("tracker:stderr-unclassified", desc, dict(unclassified=unk[:5], cleanup_failures=sorted(wfails)[:5]))


# --------------------------------------------------------------------------------------- the run


def _table(ctx):
    """`_CLEANUP_FUNCS` as the tracker process sees it (after `import joblib`)."""
    p = subprocess.run([PY, "-c", "import json; from joblib.externals.loky.backend.resource_tracker import _CLEANUP_FUNCS as C; "
                        "print(json.dumps([[k, getattr(v, '__name__', '?')] for k, v in C.items()]))"],
                       capture_output=True, text=True, env=dict(os.environ, PYTHONPATH=str(core.REPO)), timeout=120)
    if p.returncode != 0:
        raise core.InfraError("cannot import the resource tracker: " + p.stderr[-400:])
    return json.loads(p.stdout.strip().splitlines()[-1])


def _explore(ctx, worlds, salt, res=None, usage=True):
    res = res or Result()
    res.rule = ("one world = one real tracker process + 13 named resources (files incl. ':' and ' ' in the name, 2 folders holding "
                "tracked and untracked files, a missing path, a real POSIX semaphore and a missing one) + 1..6 client processes + a history "
                "of 6..45 (thorough: ..120) events: requests (7% wrong type, 15% unbalanced), 27 kinds of malformed line, lines split "
                "across two writers, half-written lines of dying clients, clients exiting/SIGKILLed/SIGTERMed/SIGINTed, paths deleted/recreated "
                "by clients, SIGINT/SIGTERM sent to the tracker right after its spawn (14% of the worlds), between requests (25%) and "
                "during the EOF clean-up (20% of the direct worlds); "
                "evaluation = one synchronised comparison of the existence of all 15 paths (model and oracle); non-trivial = a world in "
                "which a count reached zero or something was left for EOF; distinct by the canonical byte stream + ending")
    core.use_repo()
    table = _table(ctx)
    t_rep = ctx.driver().run(["T"])[0].split()
    if t_rep[0] != "rtypes" or t_rep[1:] != [k for k, _ in table]:
        res.diverge("table", dict(what="_CLEANUP_FUNCS.keys()"), [k for k, _ in table], t_rep[1:])
    swallow = dict(table).get("file") == "unlink_file"
    res.extra["cleanup_funcs"] = table
    jobs = []
    for idx, spec in enumerate(worlds):
        root = str(ctx.scratch / f"{salt}{idx}")
        jobs.append((spec, root, f"{os.getpid()}-{salt}{idx}", str(core.REPO)))
    done = []
    bad = 0
    with cf.ThreadPoolExecutor(max_workers=min(8, os.cpu_count() or 2)) as ex:
        futs = [ex.submit(_run_world, j) for j in jobs]
        for f in futs:
            w = f.result()
            done.append(w)
            if w.problems:
                bad += 1
                if bad >= 6:  # a broken tracker: do not sit through a time-out per world
                    for g in futs:
                        g.cancel()
                    break
    # the model: every world through one driver process
    reqs, spans = [], []
    for w in done:
        items = _timeline_items(w)
        r, tags = _driver_requests(w, items)
        spans.append((len(reqs), len(r), tags))
        reqs += r
    replies = ctx.driver().run(reqs) if reqs else []
    for idx, (w, (a, n, tags)) in enumerate(zip(done, spans)):
        judge_world(w, replies[a:a + n], tags, res, swallow, idx)
    # the signal side (JoblibModel.TrackerSignals.life): does the tracker of this world outlive the signals it was sent?
    sreqs, sws = [], []
    for idx, w in enumerate(done):
        q = _signal_request(w.spec)
        if q:
            sreqs.append(q)
            sws.append((idx, w))
    for (idx, w), rep in zip(sws, ctx.driver().run(sreqs) if sreqs else []):
        died = any(sig.startswith("tracker:died") for sig, _ in w.problems) or any(it[0] == "check" and not it[3] for it in w.tl)
        res.evaluations += 1
        if rep.strip() not in ("alive", "dead"):
            raise core.InfraError(f"driver reply {rep!r}")
        if (rep.strip() == "alive") == died:
            res.diverge("signals", dict(world=w.spec, idx=idx), dict(tracker="died" if died else "alive"), dict(tracker=rep.strip()))
    if usage and bad < 6:
        for i, v in enumerate(["clean", "force", "killed"]):
            run_usage(ctx, res, v, i)
    res.assumptions = [
        "pipe EOF semantics across processes (EOF when, and only when, the last holder of the write end is gone) are the OS's",
        "nobody but the clients of this check touches the scratch paths",
        "tracker run with verbose=0 and default warning filters",
    ]
    return res


def _worlds(ctx, n_direct, n_api, n_strace, salt, big=False):
    rng = ctx.rng(salt)
    ws = []
    for i in range(n_direct):
        ws.append(gen_world(rng, "direct", big=big, strace=(i < n_strace)))
    for _ in range(n_api):
        ws.append(gen_world(rng, "api", big=False))
    rng_sig = ctx.rng(salt + "-signals")
    return [add_signals(rng_sig, w) for w in ws]


def _load_corpus():
    out = []
    d = core.VERIF / "corpus"
    for f in sorted(d.glob("C20-*.json")):
        try:
            out.append(json.loads(f.read_text())["world"])
        except (ValueError, KeyError):
            pass
    return out


CLIENT_RULE = (" || client side: one program = one real main process (python3-vt + numpy: real Parallel objects on the loky and "
               "multiprocessing backends, get_memmapping_executor, ArrayMemmapForwardReducer through loky's pickler, "
               "TemporaryResourcesManager, delete_folder, atexit callbacks; 1 program in 6 keeps several Parallel objects on ONE "
               "executor/manager with interleaved calls and memmaps held across them) + its real tracker + 0..4 stand-in worker processes sharing "
               "the pipe (real load_temporary_memmap + finalizers) + 8..36 (thorough ..70) operations; evaluation = one operation "
               "after which status, the request sequence (ResourceTracker._send wrapped in every process) and every folder/file on "
               "disk are compared with the model; non-trivial = a program in which a MAYBE_UNLINK or UNREGISTER was sent; "
               "distinct by the program")


def _client(ctx, res, n, salt, big=False):
    core.use_repo()
    progs = (c20_client.corpus_programs() + c20_client.programs_for(ctx, n, salt, big=big)
             + c20_client.shared_programs_for(ctx, max(6, n // 5), salt, big=big))
    c20_client.explore(ctx, res, progs, salt)
    res.rule += CLIENT_RULE
    return res


def _relpath_probe(ctx, res):
    """Relative temporary locations + a change of directory + a killed client (harness/c20_relpath.py); oracle only."""
    import signal
    import tempfile

    def gone(pid):
        try:
            with open(f"/proc/{pid}/stat") as f:
                return f.read().rsplit(")", 1)[1].split()[0] == "Z"
        except OSError:
            return True

    script = str(Path(__file__).resolve().parent.parent / "c20_relpath.py")
    for how in ("env", "arg"):
        base = tempfile.mkdtemp(prefix="c20rel-", dir=str(ctx.scratch))
        os.makedirs(os.path.join(base, "A"))
        os.makedirs(os.path.join(base, "B"))
        env = dict(os.environ, PYTHONPATH=str(core.REPO))
        env.pop("JOBLIB_TEMP_FOLDER", None)
        if how == "env":
            env["JOBLIB_TEMP_FOLDER"] = "scratch"
        case = dict(kind="relative-location-probe", how=how)
        p = subprocess.Popen([core.PY, "-B", script, base, how], stdout=subprocess.PIPE, stderr=subprocess.DEVNULL, text=True, env=env)
        try:
            line = p.stdout.readline().strip()
            if not line.isdigit():
                res.fail("client:relative-location:client-failed", case, line[:200])
                continue
            tracker = int(line)
            registered = p.stdout.readline().strip()
            os.kill(p.pid, signal.SIGKILL)
            p.wait()
            t0 = time.time()
            while time.time() - t0 < 30 and not gone(tracker):
                time.sleep(0.05)
            left = [os.path.join(r, d) for r, ds, _ in os.walk(base) for d in ds if d.startswith("joblib_memmapping_folder_")]
            res.evaluations += 1
            res.count("relative-location-probe-runs")
            res.nontrivial.add(("relative-location", how))
            if not gone(tracker):
                res.fail("tracker:alive-after-last-client-died", case, dict(tracker=tracker))
            elif left:
                res.fail("client:leak-after-eof:relative-location", case, dict(registered_as=registered, left=[os.path.relpath(x, base) for x in left]))
        finally:
            if p.poll() is None:
                p.kill()
            shutil.rmtree(base, ignore_errors=True)


def run(ctx):
    if ctx.replay:
        case = ctx.replay.get("case", {})
        if "world" in case:
            return _explore(ctx, [case["world"]], "replay", usage=False)
        res = Result()
        if case.get("kind") == "relative-location-probe":
            core.use_repo()
            _relpath_probe(ctx, res)
            return res
        if "usage" in case:
            core.use_repo()
            run_usage(ctx, res, case["usage"], 0)
        if "client_program" in case:
            core.use_repo()
            c20_client.explore(ctx, res, [case["client_program"]], "replay")
        return res
    worlds = _load_corpus() + corpus_worlds()
    if ctx.thorough:
        worlds += _worlds(ctx, 1500, 150, 16, "main", big=True)
    else:
        worlds += _worlds(ctx, 200, 30, 4, "main")
    res = _explore(ctx, worlds, "w")
    res = _client(ctx, res, 600 if ctx.thorough else 50, "main", big=ctx.thorough)
    _relpath_probe(ctx, res)
    return res


def search(ctx, res):
    worlds = []
    for d in res.divergences[:5]:
        wd = d.get("case", {}).get("world") if isinstance(d.get("case"), dict) else None
        if wd:
            worlds.append(wd)
    worlds += _worlds(ctx, 500, 40, 6, "search", big=True)
    out = _explore(ctx, worlds, "s", usage=True)
    for d in res.divergences[:5]:
        cp = d.get("case", {}).get("client_program") if isinstance(d.get("case"), dict) else None
        if cp:
            c20_client.explore(ctx, out, [cp], "sdiv")
    return _client(ctx, out, 400, "search", big=True)
